//! C28: no network access unless the configuration enables it.
//! case: {op:"read"|"ingredient"|"sign", asset:{kind:"fixture",name,format} | {kind:"built",remote_url,no_embed,format},
//!        settings: <json settings document or null>, tsa: bool, serve_manifest: bool}
//! Every request made through the Context's resolver is recorded (and answered locally: the remote manifest
//! when `serve_manifest`, 404 otherwise); requests made to the signer's time-stamp URL are recorded by a local
//! listener on 127.0.0.1.
//! out: {r, kind, detail, requests:[{via,method,url}], state, failure, remote_url}
use std::{
    io::{Cursor, Read, Write},
    net::TcpListener,
    sync::{
        atomic::{AtomicBool, Ordering},
        Arc, Mutex,
    },
};

use c2pa::{
    http::{
        http::{Request, Response},
        HttpResolverError, SyncHttpResolver,
    },
    Builder,
};
use serde_json::{json, Value};

use crate::{e2e, util::*};

/// Records every request; serves `body` (status 200) for URLs equal to `serve_url`, 404 otherwise.
#[derive(Clone, Default)]
pub struct RecordingResolver {
    pub log: Arc<Mutex<Vec<(String, String)>>>,
    pub serve_url: Option<String>,
    pub body: Arc<Vec<u8>>,
}

impl SyncHttpResolver for RecordingResolver {
    fn http_resolve(&self, request: Request<Vec<u8>>) -> Result<Response<Box<dyn Read>>, HttpResolverError> {
        let url = request.uri().to_string();
        self.log.lock().unwrap().push((request.method().to_string(), url.clone()));
        let (status, body): (u16, Vec<u8>) = match &self.serve_url {
            Some(u) if *u == url => (200, self.body.as_ref().clone()),
            _ => (404, Vec::new()),
        };
        let len = body.len();
        let b: Box<dyn Read> = Box::new(Cursor::new(body));
        Response::builder()
            .status(status)
            .header("content-length", len.to_string())
            .body(b)
            .map_err(HttpResolverError::Http)
    }
}

/// A one-thread HTTP listener on 127.0.0.1 that records request lines and answers 404.
pub struct LocalListener {
    pub url: String,
    pub hits: Arc<Mutex<Vec<String>>>,
    stop: Arc<AtomicBool>,
    addr: std::net::SocketAddr,
    handle: Option<std::thread::JoinHandle<()>>,
}

impl LocalListener {
    pub fn start(path: &str) -> LocalListener {
        let l = TcpListener::bind("127.0.0.1:0").expect("bind");
        let addr = l.local_addr().unwrap();
        let hits = Arc::new(Mutex::new(Vec::new()));
        let stop = Arc::new(AtomicBool::new(false));
        let (h2, s2) = (hits.clone(), stop.clone());
        let handle = std::thread::spawn(move || {
            for conn in l.incoming() {
                if s2.load(Ordering::SeqCst) {
                    break;
                }
                if let Ok(mut c) = conn {
                    let _ = c.set_read_timeout(Some(std::time::Duration::from_millis(500)));
                    let mut buf = [0u8; 2048];
                    let n = c.read(&mut buf).unwrap_or(0);
                    let line = String::from_utf8_lossy(&buf[..n]).lines().next().unwrap_or("").to_string();
                    h2.lock().unwrap().push(line);
                    let _ = c.write_all(b"HTTP/1.1 404 Not Found\r\ncontent-length: 0\r\nconnection: close\r\n\r\n");
                }
            }
        });
        LocalListener { url: format!("http://{addr}{path}"), hits, stop, addr, handle: Some(handle) }
    }

    pub fn finish(mut self) -> Vec<String> {
        self.stop.store(true, Ordering::SeqCst);
        let _ = std::net::TcpStream::connect(self.addr); // wake the accept loop
        if let Some(h) = self.handle.take() {
            let _ = h.join();
        }
        let v = self.hits.lock().unwrap().clone();
        v
    }
}

fn tsa_signer(alg: &str, tsa: Option<String>) -> Box<dyn c2pa::Signer> {
    let cert = e2e::fixture(&format!("certs/{alg}.pub"));
    let key = e2e::fixture(&format!("certs/{alg}.pem"));
    c2pa::create_signer::from_keys(&cert, &key, e2e::alg_of(alg), tsa).expect("signer")
}

/// Returns (asset bytes, format, sidecar manifest bytes if the asset was built without embedding).
fn make_asset(a: &Value) -> (Vec<u8>, String, Option<Vec<u8>>) {
    let format = a["format"].as_str().unwrap_or("image/jpeg").to_string();
    match a["kind"].as_str().unwrap_or("fixture") {
        "built" => {
            // sign C.jpg with a plain context (no recording: this is preparation, not the operation under test)
            let ctx = e2e::context_merged(Some(r#"{"verify":{"verify_after_sign":false},"builder":{"thumbnail":{"enabled":false}}}"#));
            let mut b = Builder::from_context(ctx).with_definition(e2e::minimal_manifest("c28")).expect("definition");
            if let Some(u) = a["remote_url"].as_str() {
                b.set_remote_url(u);
            }
            if a["no_embed"].as_bool().unwrap_or(false) {
                b.set_no_embed(true);
            }
            let src = e2e::fixture(a["source"].as_str().unwrap_or("C.jpg"));
            let mut input = Cursor::new(src);
            let mut out = Cursor::new(Vec::new());
            let signer = e2e::signer("ed25519");
            let m = b.sign(signer.as_ref(), &format, &mut input, &mut out).expect("prepare asset");
            (out.into_inner(), format, Some(m))
        }
        _ => (e2e::fixture(a["name"].as_str().expect("asset name")), format, None),
    }
}

pub fn run(case: &Value) -> Value {
    let op = case["op"].as_str().unwrap_or("read");
    let (asset, format, built_manifest) = make_asset(&case["asset"]);
    let extra = case.get("settings").filter(|s| !s.is_null()).map(|s| s.to_string());
    let mut resolver = RecordingResolver::default();
    if case["serve_manifest"].as_bool().unwrap_or(false) {
        if let Some(u) = case["asset"]["remote_url"].as_str() {
            resolver.serve_url = Some(u.to_string());
            resolver.body = Arc::new(built_manifest.clone().unwrap_or_default());
        } else if let Some(s) = case["asset"]["sidecar"].as_str() {
            resolver.serve_url = case["asset"]["url"].as_str().map(|s| s.to_string());
            resolver.body = Arc::new(e2e::fixture(s));
        }
    }
    let log = resolver.log.clone();
    let ctx = e2e::context_merged(extra.as_deref()).with_resolver(resolver);
    let listener = if case["tsa"].as_bool().unwrap_or(false) { Some(LocalListener::start("/tsa")) } else { None };

    let res: Result<Value, c2pa::Error> = (|| match op {
        "read" => {
            let r = e2e::read(ctx, &format, &asset)?;
            let rep = e2e::report(&r);
            Ok(json!({"state": rep["state"], "failure": rep["failure"], "informational": rep["informational"],
                      "remote_url": r.remote_url(), "embedded": r.is_embedded()}))
        }
        "ingredient" => {
            let mut b = Builder::from_context(ctx).with_definition(e2e::minimal_manifest("c28"))?;
            let mut src = Cursor::new(asset.clone());
            b.add_ingredient_from_stream(json!({"title": "ing", "relationship": "componentOf"}).to_string(), &format, &mut src)?;
            let v = serde_json::to_value(&b.definition).unwrap_or(Value::Null);
            let mut codes = vec![];
            let mut urls = vec![];
            for i in v["ingredients"].as_array().cloned().unwrap_or_default() {
                for s in i["validation_status"].as_array().cloned().unwrap_or_default() {
                    codes.push(s["code"].as_str().unwrap_or("").to_string());
                    if let Some(u) = s["url"].as_str() {
                        urls.push(u.to_string());
                    }
                }
            }
            Ok(json!({"state": "Ingredient", "failure": codes, "urls": urls}))
        }
        "sign" => {
            let signer = tsa_signer("ed25519", listener.as_ref().map(|l| l.url.clone()));
            let mut b = Builder::from_context(ctx).with_definition(e2e::minimal_manifest("c28"))?;
            if case["with_ingredient"].as_bool().unwrap_or(false) {
                let mut src = Cursor::new(asset.clone());
                b.add_ingredient_from_stream(json!({"title": "ing", "relationship": "parentOf"}).to_string(), &format, &mut src)?;
            }
            let src = if case["with_ingredient"].as_bool().unwrap_or(false) { e2e::fixture("C.jpg") } else { asset.clone() };
            let sfmt = if case["with_ingredient"].as_bool().unwrap_or(false) { "image/jpeg".to_string() } else { format.clone() };
            let mut input = Cursor::new(src);
            let mut out = Cursor::new(Vec::new());
            let m = b.sign(signer.as_ref(), &sfmt, &mut input, &mut out)?;
            Ok(json!({"state": "Signed", "failure": [], "manifest_len": m.len()}))
        }
        _ => panic!("unknown op {op}"),
    })();

    let mut requests: Vec<Value> = log.lock().unwrap().iter().map(|(m, u)| json!({"via": "resolver", "method": m, "url": u})).collect();
    if let Some(l) = listener {
        let base = l.url.clone();
        for line in l.finish() {
            if !line.is_empty() {
                requests.push(json!({"via": "tsa-listener", "method": line.split(' ').next().unwrap_or(""), "url": base}));
            }
        }
    }
    match res {
        Ok(mut v) => {
            v["r"] = json!("ok");
            v["requests"] = json!(requests);
            v
        }
        Err(e) => {
            let detail = match &e {
                c2pa::Error::RemoteManifestUrl(u) => u.clone(),
                other => format!("{other}").chars().take(160).collect(),
            };
            json!({"r": "err", "kind": err_class(&e), "detail": detail, "requests": requests})
        }
    }
}
