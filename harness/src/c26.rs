//! C26: host allow-list.  Also hosts the scripted-transport engine shared with C27.
//! kinds:
//!   {"kind":"match","pattern":str,"uri":str}
//!   {"kind":"chain","allowed":[str]|null,"allow_redirects":bool,"uri":str,"method":str,
//!    "headers":[[name,valuehex]],"body":hex,"script":[[status,lochex|null]|"err"]}
//!   {"kind":"ctx","allowed":[str]|null,"allow_redirects":bool,"location":str}   (Context::resolver() + loopback server)
use std::{
    collections::VecDeque,
    future::Future,
    io::{Cursor, Read},
    pin::Pin,
    sync::{Arc, Mutex},
    task::{Context, Poll, Waker},
};

use c2pa::{
    http::{
        http::{header::LOCATION, HeaderName, HeaderValue, Method, Request, Response, Uri},
        restricted::{HostPattern, RestrictedResolver},
        AsyncHttpResolver, HttpResolverError, SyncHttpResolver,
    },
    verif_hooks::{c26 as hk, c27 as hk27},
};
use serde_json::{json, Value};

use crate::util::*;

pub fn uri_json(u: &Uri) -> Value {
    json!({
        "uri": u.to_string(),
        "scheme": u.scheme().map(|s| s.as_str().to_string()),
        "host": u.host().map(|s| s.to_string()),
        "port": u.port().map(|p| p.as_str().to_string()),
    })
}

pub fn http_err_class(e: &HttpResolverError) -> String {
    let d = format!("{:?}", e);
    let end = d
        .find(|c: char| !(c.is_alphanumeric() || c == '_'))
        .unwrap_or(d.len());
    d[..end].to_string()
}

#[derive(Clone)]
pub enum Step {
    Resp(u16, Option<Vec<u8>>),
    Err,
}

pub struct Mock {
    script: Mutex<VecDeque<Step>>,
    pub trace: Mutex<Vec<Value>>,
}

impl Mock {
    pub fn new(script: Vec<Step>) -> Self {
        Mock { script: Mutex::new(script.into()), trace: Mutex::new(Vec::new()) }
    }

    fn serve(&self, request: Request<Vec<u8>>) -> Result<Response<Box<dyn Read>>, HttpResolverError> {
        let hs: Vec<Value> = request
            .headers()
            .iter()
            .map(|(n, v)| json!([n.as_str(), hexe(v.as_bytes())]))
            .collect();
        let mut rec = uri_json(request.uri());
        rec["method"] = json!(request.method().as_str());
        rec["headers"] = json!(hs);
        rec["body"] = json!(hexe(request.body()));
        self.trace.lock().unwrap().push(rec);
        let step = self.script.lock().unwrap().pop_front().unwrap_or(Step::Resp(200, None));
        match step {
            Step::Err => Err(HttpResolverError::SyncHttpResolverNotImplemented),
            Step::Resp(status, loc) => {
                let mut b = Response::builder().status(status);
                if let Some(l) = loc {
                    b = b.header(LOCATION, HeaderValue::from_bytes(&l).expect("location header value"));
                }
                Ok(b.body(Box::new(Cursor::new(Vec::new())) as Box<dyn Read>).expect("response"))
            }
        }
    }
}

impl SyncHttpResolver for Mock {
    fn http_resolve(&self, request: Request<Vec<u8>>) -> Result<Response<Box<dyn Read>>, HttpResolverError> {
        self.serve(request)
    }
}

// hand-desugared #[async_trait] method (the harness has no async-trait dependency)
impl AsyncHttpResolver for Mock {
    fn http_resolve_async<'life0, 'async_trait>(
        &'life0 self,
        request: Request<Vec<u8>>,
    ) -> Pin<Box<dyn Future<Output = Result<Response<Box<dyn Read>>, HttpResolverError>> + Send + 'async_trait>>
    where
        'life0: 'async_trait,
        Self: 'async_trait,
    {
        Box::pin(async move { self.serve(request) })
    }
}

fn block_on<F: Future>(f: F) -> F::Output {
    let mut f = std::pin::pin!(f);
    let mut cx = Context::from_waker(Waker::noop());
    loop {
        if let Poll::Ready(v) = f.as_mut().poll(&mut cx) {
            return v;
        }
    }
}

pub fn parse_script(v: &Value) -> Vec<Step> {
    v.as_array()
        .map(|a| {
            a.iter()
                .map(|s| {
                    if s.is_string() {
                        Step::Err
                    } else {
                        let loc = if s[1].is_null() { None } else { Some(hexd(&s[1])) };
                        Step::Resp(s[0].as_u64().unwrap_or(200) as u16, loc)
                    }
                })
                .collect()
        })
        .unwrap_or_default()
}

fn build_request(case: &Value, uri: &Uri) -> Option<Request<Vec<u8>>> {
    let method = Method::from_bytes(case["method"].as_str().unwrap_or("GET").as_bytes()).ok()?;
    let mut b = Request::builder().method(method).uri(uri.clone());
    if let Some(hs) = case["headers"].as_array() {
        for h in hs {
            let n = HeaderName::from_bytes(h[0].as_str().unwrap_or("").as_bytes()).ok()?;
            let v = HeaderValue::from_bytes(&hexd(&h[1])).ok()?;
            b = b.header(n, v);
        }
    }
    b.body(if case["body"].is_null() { Vec::new() } else { hexd(&case["body"]) }).ok()
}

fn outcome(r: Result<Response<Box<dyn Read>>, HttpResolverError>) -> Value {
    match r {
        Ok(resp) => json!({"r": "ok", "status": resp.status().as_u16()}),
        Err(e) => json!({"r": "err", "kind": http_err_class(&e)}),
    }
}

/// Runs one scripted chain through  RedirectResolver(RestrictedResolver(mock))  (or RedirectResolver(mock)
/// when no allow-list is given) — the shape of Context::build_default_sync_resolver.
pub fn run_chain(case: &Value) -> Value {
    let uri: Uri = match case["uri"].as_str().unwrap_or("").parse() {
        Ok(u) => u,
        Err(_) => return json!({"r": "uri_err"}),
    };
    let allowed: Option<Vec<HostPattern>> = case["allowed"]
        .as_array()
        .map(|a| a.iter().map(|p| HostPattern::new(p.as_str().unwrap_or(""))).collect());
    let allow_redirects = case["allow_redirects"].as_bool().unwrap_or(true);
    let script = parse_script(&case["script"]);
    for s in &script {
        if let Step::Resp(st, loc) = s {
            if !(100..1000).contains(st) || loc.as_ref().map(|l| HeaderValue::from_bytes(l).is_err()).unwrap_or(false) {
                return json!({"r": "bad_case"});
            }
        }
    }
    let Some(req) = build_request(case, &uri) else { return json!({"r": "bad_case"}) };
    let Some(req2) = build_request(case, &uri) else { return json!({"r": "bad_case"}) };

    // sync
    let mock = Arc::new(Mock::new(script.clone()));
    let res = match &allowed {
        Some(hs) => hk::verif_redirect_resolver(
            RestrictedResolver::with_allowed_hosts(mock.clone(), hs.clone()),
            allow_redirects,
        )
        .http_resolve(req),
        None => hk::verif_redirect_resolver(mock.clone(), allow_redirects).http_resolve(req),
    };
    let mut out = outcome(res);
    let trace = mock.trace.lock().unwrap().clone();

    // async: same stack, same script; must behave identically
    let amock = Arc::new(Mock::new(script.clone()));
    let ares = match &allowed {
        Some(hs) => {
            let r = hk::verif_redirect_resolver_async(
                RestrictedResolver::with_allowed_hosts(amock.clone(), hs.clone()),
                allow_redirects,
            );
            block_on(r.http_resolve_async(req2))
        }
        None => {
            let r = hk::verif_redirect_resolver_async(amock.clone(), allow_redirects);
            block_on(r.http_resolve_async(req2))
        }
    };
    let aout = outcome(ares);
    let atrace = amock.trace.lock().unwrap().clone();
    let same = aout == out && atrace == trace;
    out["async_same"] = json!(same);

    // observed joins: for every served response carrying a Location that to_str accepts
    let mut joins = Vec::new();
    for (i, rec) in trace.iter().enumerate() {
        let Some(Step::Resp(_, Some(loc))) = script.get(i) else { continue };
        let Ok(hv) = HeaderValue::from_bytes(loc) else { continue };
        let Ok(s) = hv.to_str() else { continue };
        let base: Uri = rec["uri"].as_str().unwrap_or("").parse().expect("trace uri");
        let t = match hk27::verif_resolve_redirect_target(&base, s) {
            Ok(t) => {
                let mut j = uri_json(&t);
                j["non_global"] = json!(hk27::verif_host_is_non_global(&t));
                j
            }
            Err(e) => json!({"err": http_err_class(&e)}),
        };
        joins.push(json!({"hop": i, "loc": hexe(loc), "target": t}));
    }
    out["trace"] = json!(trace);
    out["joins"] = json!(joins);
    out["start"] = uri_json(&uri);
    out
}

fn run_match(case: &Value) -> Value {
    let pat = HostPattern::new(case["pattern"].as_str().unwrap_or(""));
    let (p, s, h, po) = hk::verif_pattern_fields(&pat);
    let uri: Uri = match case["uri"].as_str().unwrap_or("").parse() {
        Ok(u) => u,
        Err(_) => return json!({"r": "uri_err", "fields": [p, s, h, po]}),
    };
    let m = pat.matches(&uri);
    let m2 = hk::verif_is_uri_allowed(std::slice::from_ref(&pat), &uri);
    // serde round trip goes through HostPattern::new as well (settings path)
    let de: HostPattern = serde_json::from_value(json!(case["pattern"].as_str().unwrap_or(""))).expect("pattern de");
    json!({"r": "ok", "fields": [p, s, h, po], "uri": uri_json(&uri), "matches": m,
           "list_same": m == m2, "serde_same": de == pat})
}

/// The SDK's own default resolver stack (Context::resolver(), real HTTP client) against a loopback server that
/// answers the first request with a redirect.  {"kind":"ctx","allowed":[str]|null,"allow_redirects":bool,"location":str,"async":bool}
/// ("{port}" in allowed/location is replaced by the server's port).  Reports the outcome and the request lines the
/// server saw.
pub fn run_ctx(case: &Value) -> Value {
    use std::{
        io::{Read as _, Write as _},
        net::TcpListener,
        sync::atomic::{AtomicBool, Ordering},
        time::Duration,
    };
    let listener = match TcpListener::bind("127.0.0.1:0") {
        Ok(l) => l,
        Err(_) => return json!({"r": "no_loopback"}),
    };
    let port = listener.local_addr().expect("addr").port();
    listener.set_nonblocking(true).expect("nonblocking");
    let sub = |s: &str| s.replace("{port}", &port.to_string());
    let location = sub(case["location"].as_str().unwrap_or("/"));
    let served: Arc<Mutex<Vec<String>>> = Arc::new(Mutex::new(Vec::new()));
    let stop = Arc::new(AtomicBool::new(false));
    let (served2, stop2) = (served.clone(), stop.clone());
    let server = std::thread::spawn(move || {
        while !stop2.load(Ordering::SeqCst) {
            match listener.accept() {
                Ok((mut s, _)) => {
                    s.set_nonblocking(false).ok();
                    s.set_read_timeout(Some(Duration::from_secs(2))).ok();
                    let mut buf = Vec::new();
                    let mut b = [0u8; 512];
                    while !buf.windows(4).any(|w| w == b"\r\n\r\n") {
                        match s.read(&mut b) {
                            Ok(0) | Err(_) => break,
                            Ok(n) => buf.extend_from_slice(&b[..n]),
                        }
                    }
                    let head = String::from_utf8_lossy(&buf).to_string();
                    let first = served2.lock().unwrap().is_empty();
                    served2.lock().unwrap().push(head.lines().next().unwrap_or("").to_string());
                    let resp = if first {
                        format!("HTTP/1.1 302 Found\r\nLocation: {}\r\nContent-Length: 0\r\nConnection: close\r\n\r\n", location)
                    } else {
                        "HTTP/1.1 200 OK\r\nContent-Length: 2\r\nConnection: close\r\n\r\nok".to_string()
                    };
                    s.write_all(resp.as_bytes()).ok();
                }
                Err(_) => std::thread::sleep(Duration::from_millis(5)),
            }
        }
    });
    let mut settings = c2pa::Settings::new();
    if let Some(a) = case["allowed"].as_array() {
        let hosts: Vec<String> = a.iter().map(|p| sub(p.as_str().unwrap_or(""))).collect();
        settings = settings.with_value("core.allowed_network_hosts", hosts).expect("allowed hosts setting");
    }
    settings = settings
        .with_value("core.allow_redirects", case["allow_redirects"].as_bool().unwrap_or(true))
        .expect("allow_redirects setting");
    let ctx = c2pa::Context::new().with_settings(settings).expect("context");
    let req = Request::builder()
        .method("GET")
        .uri(format!("http://127.0.0.1:{port}/start"))
        .header("authorization", "secret")
        .body(Vec::new())
        .expect("request");
    let res = if case["async"].as_bool().unwrap_or(false) {
        // the async default stack (build_default_async_resolver, reqwest) on a current-thread tokio runtime
        let rt = tokio::runtime::Builder::new_current_thread().enable_all().build().expect("tokio runtime");
        let resolver = ctx.resolver_async();
        rt.block_on(async { resolver.http_resolve_async(req).await })
    } else {
        ctx.resolver().http_resolve(req)
    };
    let mut out = outcome(res);
    stop.store(true, Ordering::SeqCst);
    server.join().ok();
    out["served"] = json!(served.lock().unwrap().clone());
    out["port"] = json!(port);
    out
}

pub fn run(case: &Value) -> Value {
    match case["kind"].as_str().unwrap_or("") {
        "match" => run_match(case),
        "chain" => run_chain(case),
        "ctx" => run_ctx(case),
        _ => json!({"r": "bad_case"}),
    }
}

