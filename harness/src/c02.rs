//! C02: tamper evidence of the manifest store bytes.
//! A case names a store recipe {name, shape: single|parent|thumbs, src: "hex:<jpeg bytes>"} and an operation:
//!   op "prepare": build the store (sign a small JPEG; for shape "parent" sign once, then sign a second asset that
//!                 takes the first signed asset as parentOf ingredient), both embedded and as a sidecar; cached under
//!                 <build>/cases/c02_assets/<name>.{emb,side,c2pa}; out: embedded asset length, offset of the
//!                 manifest store inside it, the store bytes, the sidecar store bytes, and the untouched reports.
//!   op "mut":     carrier "jpeg": patch the embedded store at (store offset + pos); carrier "c2pa": patch the
//!                 sidecar store and read it with the (unsigned) asset; m = {k: flip|set|replace, pos, bit|val|hex}
//!                 ("replace" substitutes the whole sidecar store: structure edits are serialised by the check).
//!                 out: state, codes, digest of the stable report JSON.
use std::{cell::RefCell, collections::HashMap, io::Cursor, rc::Rc, sync::Arc};

use c2pa::{Builder, Context, Reader};
use serde_json::{json, Value};

use crate::{e2e, util::*};

struct StoreAsset {
    emb: Vec<u8>,      // asset with embedded store
    off: usize,        // offset of the store bytes inside emb
    store: Vec<u8>,    // the embedded store
    side_asset: Vec<u8>, // asset signed with no_embed (no store inside)
    side: Vec<u8>,     // its sidecar store
}

thread_local! {
    static STORES: RefCell<HashMap<String, Rc<StoreAsset>>> = RefCell::new(HashMap::new());
    static CTX: Arc<Context> = Arc::new(e2e::context(None));
}

fn dir() -> String {
    let b = std::env::var("VERIF_BUILD").unwrap_or_else(|_| "/verif/.build".to_string());
    format!("{b}/cases/c02_assets")
}

fn find(hay: &[u8], needle: &[u8]) -> Option<usize> {
    if needle.is_empty() || hay.len() < needle.len() {
        return None;
    }
    (0..=hay.len() - needle.len()).find(|&i| &hay[i..i + needle.len()] == needle)
}

fn sign_one(src: &[u8], title: &str, parent: Option<&[u8]>, no_embed: bool, thumbs: bool) -> Result<(Vec<u8>, Vec<u8>), String> {
    let extra = json!({"builder": {"thumbnail": {"enabled": false}}}).to_string();
    let ctx = e2e::context(Some(&extra));
    let signer = e2e::signer("ed25519");
    let def = if parent.is_some() {
        json!({"title": title, "claim_generator_info": [{"name": "verif-harness", "version": "0.1"}]}).to_string()
    } else {
        e2e::minimal_manifest(title)
    };
    let mut b = Builder::from_context(ctx).with_definition(def.as_str()).map_err(|e| err_class(&e))?;
    if parent.is_some() {
        // the source stream (the signed parent asset) becomes the parentOf ingredient, with a c2pa.opened action
        b.set_intent(c2pa::BuilderIntent::Edit);
    }
    if thumbs {
        // a claim thumbnail and a component ingredient that carries its own thumbnail (embedded-file assertions)
        b.set_thumbnail("image/jpeg", &mut Cursor::new(src.to_vec())).map_err(|e| format!("thumbnail: {}", err_class(&e)))?;
        b.add_resource("ithumb", Cursor::new(src.to_vec())).map_err(|e| format!("resource: {}", err_class(&e)))?;
        b.add_ingredient_from_stream(
            json!({"title": "component", "relationship": "componentOf",
                   "thumbnail": {"format": "image/jpeg", "identifier": "ithumb"}}).to_string(),
            "image/jpeg", &mut Cursor::new(src.to_vec()))
            .map_err(|e| format!("ingredient: {}", err_class(&e)))?;
    }
    let src = parent.unwrap_or(src);
    b.set_no_embed(no_embed);
    let mut input = Cursor::new(src.to_vec());
    let mut out = Cursor::new(Vec::new());
    let c2pa = b.sign(signer.as_ref(), "image/jpeg", &mut input, &mut out).map_err(|e| format!("sign: {} {}", err_class(&e), e))?;
    Ok((out.into_inner(), c2pa))
}

fn build(recipe: &Value) -> Result<StoreAsset, String> {
    let src = hex::decode(recipe["src"].as_str().unwrap_or("").trim_start_matches("hex:")).map_err(|e| e.to_string())?;
    let thumbs = recipe["shape"].as_str() == Some("thumbs");
    let parent = if recipe["shape"].as_str() == Some("parent") || thumbs {
        Some(sign_one(&src, "parent asset", None, false, false)?.0)
    } else {
        None
    };
    let (emb, _) = sign_one(&src, "active asset", parent.as_deref(), false, thumbs)?;
    let store = c2pa::jumbf_io::load_jumbf_from_stream("image/jpeg", &mut Cursor::new(&emb)).map_err(|e| err_class(&e))?;
    let off = find(&emb, &store).ok_or("store bytes are not contiguous in the asset")?;
    let (side_asset, side) = sign_one(&src, "active asset", parent.as_deref(), true, thumbs)?;
    Ok(StoreAsset { emb, off, store, side_asset, side })
}

fn load(recipe: &Value, fresh: bool) -> Result<Rc<StoreAsset>, String> {
    let name = recipe["name"].as_str().unwrap_or("store").to_string();
    if !fresh {
        if let Some(a) = STORES.with(|m| m.borrow().get(&name).cloned()) {
            return Ok(a);
        }
    }
    let d = dir();
    let p = |ext: &str| format!("{d}/{name}.{ext}");
    let cached = if fresh {
        None
    } else {
        match (std::fs::read(p("emb")), std::fs::read(p("side")), std::fs::read(p("c2pa"))) {
            (Ok(emb), Ok(side_asset), Ok(side)) => {
                let store = c2pa::jumbf_io::load_jumbf_from_stream("image/jpeg", &mut Cursor::new(&emb)).map_err(|e| err_class(&e))?;
                let off = find(&emb, &store).ok_or("store bytes are not contiguous in the asset")?;
                Some(StoreAsset { emb, off, store, side_asset, side })
            }
            _ => None,
        }
    };
    let a = match cached {
        Some(a) => a,
        None => {
            let a = build(recipe)?;
            std::fs::create_dir_all(&d).ok();
            for (ext, data) in [("emb", &a.emb), ("side", &a.side_asset), ("c2pa", &a.side)] {
                let tmp = format!("{}.{}.tmp", p(ext), std::process::id());
                std::fs::write(&tmp, data).map_err(|e| e.to_string())?;
                std::fs::rename(&tmp, p(ext)).map_err(|e| e.to_string())?;
            }
            a
        }
    };
    let a = Rc::new(a);
    STORES.with(|m| m.borrow_mut().insert(name, a.clone()));
    Ok(a)
}

/// JSON text with object keys sorted (Reader::json() iterates hash maps in arbitrary order)
fn canon(v: &Value) -> String {
    match v {
        Value::Object(m) => {
            let mut keys: Vec<&String> = m.keys().collect();
            keys.sort();
            let parts: Vec<String> = keys.iter().map(|k| format!("{}:{}", Value::String((*k).clone()), canon(&m[*k]))).collect();
            format!("{{{}}}", parts.join(","))
        }
        Value::Array(a) => format!("[{}]", a.iter().map(canon).collect::<Vec<_>>().join(",")),
        _ => v.to_string(),
    }
}

fn fnv(s: &str) -> String {
    let mut h: u64 = 0xcbf29ce484222325;
    for b in s.as_bytes() {
        h ^= *b as u64;
        h = h.wrapping_mul(0x100000001b3);
    }
    format!("{h:016x}")
}

fn report(r: c2pa::Result<Reader>) -> Value {
    match r {
        Ok(r) => {
            let rep = e2e::report(&r);
            let js = canon(&e2e::stable_json(&r));
            json!({"r": "ok", "state": rep["state"], "failure": rep["failure"], "success": rep["success"],
                   "informational": rep["informational"], "deltas": rep["deltas"], "active": rep["active"], "jh": fnv(&js)})
        }
        Err(e) => json!({"r": "err", "kind": err_class(&e)}),
    }
}

fn read_emb(bytes: &[u8]) -> Value {
    let ctx = CTX.with(|c| c.clone());
    report(Reader::from_shared_context(&ctx).with_stream("image/jpeg", Cursor::new(bytes.to_vec())))
}

fn read_side(c2pa: &[u8], asset: &[u8]) -> Value {
    let ctx = CTX.with(|c| c.clone());
    report(Reader::from_shared_context(&ctx).with_manifest_data_and_stream(c2pa, "image/jpeg", Cursor::new(asset.to_vec())))
}

fn patch(v: &mut [u8], m: &Value) {
    let pos = m["pos"].as_u64().unwrap_or(0) as usize;
    if pos >= v.len() {
        return;
    }
    match m["k"].as_str().unwrap_or("") {
        "flip" => v[pos] ^= 1u8 << (m["bit"].as_u64().unwrap_or(0) as u32 & 7),
        "set" => v[pos] = m["val"].as_u64().unwrap_or(0) as u8,
        "none" => {}
        other => panic!("unknown mutation {other}"),
    }
}

pub fn run(case: &Value) -> Value {
    let recipe = &case["store"];
    match case["op"].as_str().unwrap_or("mut") {
        "prepare" => {
            let a = match load(recipe, case["fresh"].as_bool().unwrap_or(true)) {
                Ok(a) => a,
                Err(e) => return json!({"r": "err", "stage": "build", "kind": e}),
            };
            json!({"r": "ok", "emb_len": a.emb.len(), "off": a.off, "store": hexe(&a.store), "side": hexe(&a.side),
                   "read_emb": read_emb(&a.emb), "read_side": read_side(&a.side, &a.side_asset)})
        }
        _ => {
            let a = match load(recipe, false) {
                Ok(a) => a,
                Err(e) => return json!({"r": "err", "stage": "build", "kind": e}),
            };
            let m = &case["m"];
            if case["carrier"].as_str() == Some("c2pa") {
                let side = if m["k"].as_str() == Some("replace") {
                    hexd(&m["hex"])
                } else {
                    let mut s = a.side.clone();
                    patch(&mut s, m);
                    s
                };
                read_side(&side, &a.side_asset)
            } else {
                let mut f = a.emb.clone();
                let n = a.store.len();
                patch(&mut f[a.off..a.off + n], m);
                read_emb(&f)
            }
        }
    }
}
