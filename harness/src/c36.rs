//! C36: time-stamp tokens are used only when they match the signature.
//!
//! A scripted signer presents any credential (through the add-only hook `cose_sign::verif_cose_sign_unchecked`,
//! shared with C05/C06, so that expired / not-yet-valid credentials reach the validator), answers
//! `send_timestamp_request` with a token minted on the spot (the message depends on the fresh signature) either by
//! a local `openssl ts -reply` TSA or by a small DER builder signing with `openssl dgst -sign` (full control over
//! genTime, signed attributes, imprint, embedded certificates), and staples `ocsp_val` (used by C37).
//!
//! case: { cred:{chain:[pem..], key:pem, alg}, anchors:pem, claim_v:1|2, verify_timestamp_trust:bool,
//!         token: null | {mode:"openssl"|"craft", tsa:{cert:pem, chain:[pem..], key:pem}, msg:"right"|"other",
//!                        corrupt:"none"|"sig"|"imprint"|"tstinfo"|"truncate",
//!                        // craft only:
//!                        gen_time:"YYYYMMDDhhmmssZ", signing_time_attr:null|"YYMMDDhhmmssZ", accuracy:null|secs,
//!                        attrs:bool, hash:"sha256"|"sha384"|"sha512", hash_label: name in messageImprint (default hash; "sha3-256" allowed),
//!                        signer_digest:"sha256"|"sha384"|"sha512", embed:"all"|"leaf"|"chain_only"|"none",
//!                        sid_issuer:hex, sid_serial:hex (DER INTEGER), tsa_chain_der:[hex..], tsa_der:hex,
//!                        sign_key: pem | null (default tsa.key), tokens: n (default 1) },
//!         ocsp: hex | null }
//! out:  { r:"ok", state, failure, success, informational, sig_time, revocation_status, ts_msg_len, now } | { r:"err", stage, kind }
use std::{
    io::Cursor,
    path::{Path, PathBuf},
    process::Command,
    sync::{
        atomic::{AtomicUsize, Ordering},
        Mutex,
    },
};

use c2pa::{Signer, SigningAlg};
use serde_json::{json, Value};

use crate::{e2e, util::*};

pub const OPENSSL_DEFAULT: &str = "/root/miniconda/bin/openssl";
const WORK: &str = "/verif/.build/c36/tmp";

fn openssl() -> String {
    std::env::var("VERIF_OPENSSL").unwrap_or_else(|_| OPENSSL_DEFAULT.to_string())
}

// ------------------------------------------------------------------------------------------------ DER

pub fn tlv(tag: u8, content: &[u8]) -> Vec<u8> {
    let n = content.len();
    let mut out = vec![tag];
    if n < 0x80 {
        out.push(n as u8);
    } else {
        let b: Vec<u8> = n.to_be_bytes().iter().copied().skip_while(|x| *x == 0).collect();
        out.push(0x80 | b.len() as u8);
        out.extend(b);
    }
    out.extend_from_slice(content);
    out
}

pub fn cat(parts: &[Vec<u8>]) -> Vec<u8> {
    parts.iter().flat_map(|p| p.iter().copied()).collect()
}

pub fn seq(parts: &[Vec<u8>]) -> Vec<u8> {
    tlv(0x30, &cat(parts))
}

pub fn oid(dotted: &str) -> Vec<u8> {
    let arcs: Vec<u64> = dotted.split('.').map(|a| a.parse().expect("oid arc")).collect();
    let mut c = vec![(arcs[0] * 40 + arcs[1]) as u8];
    for a in &arcs[2..] {
        let mut tmp = vec![(a & 0x7f) as u8];
        let mut v = a >> 7;
        while v > 0 {
            tmp.push(0x80 | (v & 0x7f) as u8);
            v >>= 7;
        }
        tmp.reverse();
        c.extend(tmp);
    }
    tlv(0x06, &c)
}

pub fn int(n: u64) -> Vec<u8> {
    let mut b: Vec<u8> = n.to_be_bytes().iter().copied().skip_while(|x| *x == 0).collect();
    if b.is_empty() || b[0] & 0x80 != 0 {
        b.insert(0, 0);
    }
    tlv(0x02, &b)
}

fn alg_id(o: &str, with_null: bool) -> Vec<u8> {
    if with_null {
        seq(&[oid(o), vec![0x05, 0x00]])
    } else {
        seq(&[oid(o)])
    }
}

fn digest(alg: &str, data: &[u8]) -> Vec<u8> {
    c2pa::hash_stream_by_alg(alg, &mut Cursor::new(data.to_vec()), None, true).expect("hash")
}

fn hash_oid(alg: &str) -> &'static str {
    match alg {
        "sha384" => "2.16.840.1.101.3.4.2.2",
        "sha512" => "2.16.840.1.101.3.4.2.3",
        "sha3-256" => "2.16.840.1.101.3.4.2.8",
        _ => "2.16.840.1.101.3.4.2.1",
    }
}

// ------------------------------------------------------------------------------------------------ work directory

static COUNTER: AtomicUsize = AtomicUsize::new(0);

pub struct WorkDir(pub PathBuf);

impl WorkDir {
    pub fn new() -> Self {
        let n = COUNTER.fetch_add(1, Ordering::SeqCst);
        let p = Path::new(WORK).join(format!("{}-{}", std::process::id(), n));
        std::fs::create_dir_all(&p).expect("workdir");
        WorkDir(p)
    }
    pub fn file(&self, name: &str, content: &[u8]) -> PathBuf {
        let p = self.0.join(name);
        std::fs::write(&p, content).expect("write");
        p
    }
}

impl Drop for WorkDir {
    fn drop(&mut self) {
        let _ = std::fs::remove_dir_all(&self.0);
    }
}

fn run_openssl(dir: &Path, args: &[&str]) -> Result<(), String> {
    let out = Command::new(openssl()).args(args).current_dir(dir).env("OPENSSL_CONF", "/dev/null").output().map_err(|e| e.to_string())?;
    if out.status.success() {
        Ok(())
    } else {
        Err(format!("openssl {:?}: {}", args.first(), String::from_utf8_lossy(&out.stderr).chars().take(300).collect::<String>()))
    }
}

// ------------------------------------------------------------------------------------------------ token minting

/// TimeStampResp from a local `openssl ts -reply` TSA, for the DER request `query`.
fn mint_openssl(tok: &Value, query: &[u8]) -> Result<Vec<u8>, String> {
    let wd = WorkDir::new();
    let tsa = &tok["tsa"];
    wd.file("tsa.pem", tsa["cert"].as_str().unwrap_or("").as_bytes());
    wd.file("tsa.key", tsa["key"].as_str().unwrap_or("").as_bytes());
    let chain: String = tsa["chain"].as_array().map(|a| a.iter().filter_map(|x| x.as_str()).collect::<Vec<_>>().join("\n")).unwrap_or_default();
    wd.file("chain.pem", chain.as_bytes());
    wd.file("serial", b"1000\n");
    wd.file("q.tsq", query);
    let cnf = format!(
        "[ tsa ]\ndefault_tsa = t\n[ t ]\ndir = .\nserial = ./serial\ncrypto_device = builtin\nsigner_cert = ./tsa.pem\n{}signer_key = ./tsa.key\n\
         signer_digest = sha256\ndefault_policy = 1.2.3.4.1\nother_policies = 1.2.3.4.5\ndigests = sha1, sha256, sha384, sha512\naccuracy = secs:1\nordering = no\n\
         tsa_name = no\ness_cert_id_chain = no\ness_cert_id_alg = sha256\n",
        if chain.trim().is_empty() { "" } else { "certs = ./chain.pem\n" }
    );
    wd.file("tsa.cnf", cnf.as_bytes());
    run_openssl(&wd.0, &["ts", "-reply", "-config", "tsa.cnf", "-queryfile", "q.tsq", "-out", "r.tsr"])?;
    std::fs::read(wd.0.join("r.tsr")).map_err(|e| e.to_string())
}

fn sign_with_key(key_pem: &str, tbs: &[u8], md: &str) -> Result<Vec<u8>, String> {
    let wd = WorkDir::new();
    wd.file("k.pem", key_pem.as_bytes());
    wd.file("tbs.bin", tbs);
    let flag = format!("-{md}");
    run_openssl(&wd.0, &["dgst", flag.as_str(), "-sign", "k.pem", "-out", "sig.bin", "tbs.bin"])?;
    std::fs::read(wd.0.join("sig.bin")).map_err(|e| e.to_string())
}

/// TimeStampResp built field by field; the CMS signature is made with `openssl dgst -sha256 -sign`.
fn mint_craft(tok: &Value, message: &[u8]) -> Result<Vec<u8>, String> {
    let hash = tok["hash"].as_str().unwrap_or("sha256");
    // hash_label: the algorithm *named* in messageImprint (default: the one really used); signer_digest: SignerInfo digest
    let hash_label = tok["hash_label"].as_str().unwrap_or(hash);
    let sd_alg = tok["signer_digest"].as_str().unwrap_or("sha256");
    let mut imprint = digest(hash, message);
    if tok["corrupt"] == "imprint" {
        imprint[0] ^= 0x01;
    }
    let gen_time = tok["gen_time"].as_str().unwrap_or("20240601120000Z");
    let mut tst_parts = vec![
        int(1),
        oid("1.2.3.4.1"),
        seq(&[alg_id(hash_oid(hash_label), true), tlv(0x04, &imprint)]),
        int(tok["serial"].as_u64().unwrap_or(4097)),
        tlv(0x18, gen_time.as_bytes()),
    ];
    if let Some(a) = tok["accuracy"].as_u64() {
        tst_parts.push(seq(&[int(a)]));
    }
    let tst_info = seq(&tst_parts);
    let tst_oid = "1.2.840.113549.1.9.16.1.4";
    let with_attrs = tok["attrs"].as_bool().unwrap_or(true);
    let (attrs_field, tbs) = if with_attrs {
        let mut attrs = vec![
            seq(&[oid("1.2.840.113549.1.9.3"), tlv(0x31, &oid(tst_oid))]),
            seq(&[oid("1.2.840.113549.1.9.4"), tlv(0x31, &tlv(0x04, &digest(sd_alg, &tst_info)))]),
        ];
        if let Some(st) = tok["signing_time_attr"].as_str() {
            let t = if st.len() == 13 { tlv(0x17, st.as_bytes()) } else { tlv(0x18, st.as_bytes()) };
            attrs.push(seq(&[oid("1.2.840.113549.1.9.5"), tlv(0x31, &t)]));
        }
        attrs.sort(); // DER SET OF: ascending encodings
        let body = cat(&attrs);
        (tlv(0xA0, &body), tlv(0x31, &body))
    } else {
        (vec![], tst_info.clone())
    };
    let tsa = &tok["tsa"];
    let key = tok["sign_key"].as_str().or(tsa["key"].as_str()).unwrap_or("");
    let mut sig = sign_with_key(key, &tbs, sd_alg)?;
    if tok["corrupt"] == "sig" {
        let n = sig.len();
        sig[n - 1] ^= 0x01;
    }
    // what the verifier will see as eContent (possibly altered after signing)
    let mut content = tst_info.clone();
    if tok["corrupt"] == "tstinfo" {
        // change the last digit of the seconds of genTime after the signature was made
        if let Some(p) = content.windows(gen_time.len()).position(|w| w == gen_time.as_bytes()) {
            let q = p + gen_time.len() - 2;
            content[q] = if content[q] == b'0' { b'1' } else { b'0' };
        }
    }
    let tsa_der = hexd(&tok["tsa_der"]);
    let chain_der: Vec<Vec<u8>> = tok["tsa_chain_der"].as_array().map(|a| a.iter().map(hexd).collect()).unwrap_or_default();
    let certs: Vec<Vec<u8>> = match tok["embed"].as_str().unwrap_or("all") {
        "leaf" => vec![tsa_der.clone()],
        "chain_only" => chain_der.clone(),
        "none" => vec![],
        _ => std::iter::once(tsa_der.clone()).chain(chain_der.iter().cloned()).collect(),
    };
    let key_is_ec = tok["tsa_key_kind"].as_str().unwrap_or("rsa") == "ec";
    let sig_alg = if key_is_ec { alg_id("1.2.840.10045.4.3.2", false) } else { alg_id("1.2.840.113549.1.1.1", true) };
    let mut si = vec![int(1), seq(&[hexd(&tok["sid_issuer"]), hexd(&tok["sid_serial"])]), alg_id(hash_oid(sd_alg), true)];
    if with_attrs {
        si.push(attrs_field);
    }
    si.push(sig_alg);
    si.push(tlv(0x04, &sig));
    let mut sd = vec![int(3), tlv(0x31, &alg_id(hash_oid(sd_alg), true)), seq(&[oid(tst_oid), tlv(0xA0, &tlv(0x04, &content))])];
    if tok["embed"].as_str().unwrap_or("all") != "none" {
        sd.push(tlv(0xA0, &cat(&certs)));
    }
    sd.push(tlv(0x31, &seq(&si)));
    let token = seq(&[oid("1.2.840.113549.1.7.2"), tlv(0xA0, &seq(&sd))]);
    Ok(seq(&[seq(&[int(0)]), token]))
}

// ------------------------------------------------------------------------------------------------ the signer

/// Raw half: signs with the key, presents `chain`, mints the time-stamp token, staples `ocsp`.
pub struct ScriptedSigner {
    inner: c2pa::BoxedSigner,
    chain: Vec<Vec<u8>>,
    pub token: Value,
    pub ocsp: Option<Vec<u8>>,
    pub v2: bool,
    pub reserve: usize,
    pub seen: Mutex<Vec<String>>,
}

impl ScriptedSigner {
    pub fn new(cred: &Value, token: Value, ocsp: Option<Vec<u8>>, v2: bool) -> c2pa::Result<Self> {
        let chain_pem: String = cred["chain"].as_array().map(|a| a.iter().filter_map(|p| p.as_str()).collect::<Vec<_>>().join("\n")).unwrap_or_default();
        let inner = c2pa::create_signer::from_keys(chain_pem.as_bytes(), cred["key"].as_str().unwrap_or("").as_bytes(), e2e::alg_of(cred["alg"].as_str().unwrap_or("es256")), None)?;
        let chain = inner.certs()?;
        Ok(ScriptedSigner { inner, chain, token, ocsp, v2, reserve: 20000, seen: Mutex::new(vec![]) })
    }

    fn note(&self, s: String) {
        if let Ok(mut g) = self.seen.lock() {
            g.push(s);
        }
    }

    fn mint(&self, message: &[u8]) -> Result<Vec<u8>, String> {
        let tok = &self.token;
        let mut msg = message.to_vec();
        if tok["msg"] == "other" {
            msg.push(0x5a);
        }
        let mut resp = if tok["mode"] == "openssl" {
            let q = self.timestamp_request_body(&msg).map_err(|e| e.to_string())?;
            mint_openssl(tok, &q)?
        } else {
            mint_craft(tok, &msg)?
        };
        if tok["mode"] == "openssl" {
            match tok["corrupt"].as_str().unwrap_or("none") {
                "sig" => {
                    let n = resp.len();
                    resp[n - 1] ^= 0x01; // the signature value is the last field of the only SignerInfo
                }
                "imprint" | "tstinfo" => {
                    let d = digest("sha256", &msg);
                    if let Some(p) = resp.windows(d.len()).position(|w| w == d.as_slice()) {
                        resp[p] ^= 0x01; // alters the signed TSTInfo after the fact
                    }
                }
                _ => {}
            }
        }
        if tok["corrupt"] == "truncate" {
            let n = resp.len();
            resp.truncate(n - 7);
        }
        Ok(resp)
    }

    pub fn cose(&self, data: &[u8]) -> c2pa::Result<Vec<u8>> {
        c2pa::cose_sign::verif_cose_sign_unchecked(self, data, self.reserve_size(), self.v2)
    }
}

impl Signer for ScriptedSigner {
    fn sign(&self, data: &[u8]) -> c2pa::Result<Vec<u8>> {
        self.inner.sign(data)
    }
    fn alg(&self) -> SigningAlg {
        self.inner.alg()
    }
    fn certs(&self) -> c2pa::Result<Vec<Vec<u8>>> {
        Ok(self.chain.clone())
    }
    fn reserve_size(&self) -> usize {
        self.reserve + self.chain.iter().map(|c| c.len()).sum::<usize>() + self.ocsp.as_ref().map_or(0, |o| o.len())
    }
    fn send_timestamp_request(&self, message: &[u8]) -> Option<c2pa::Result<Vec<u8>>> {
        if self.token.is_null() {
            return None;
        }
        self.note(format!("ts:{}", message.len()));
        Some(self.mint(message).map_err(|e| {
            self.note(format!("mint-failed:{e}"));
            c2pa::Error::BadParam(format!("verif: token minting failed: {e}"))
        }))
    }
    fn ocsp_val(&self) -> Option<Vec<u8>> {
        self.ocsp.clone()
    }
}

/// Builder-facing half: `direct_cose_handling`, returns the finished COSE_Sign1.
pub struct DirectSigner(pub ScriptedSigner);

impl Signer for DirectSigner {
    fn sign(&self, data: &[u8]) -> c2pa::Result<Vec<u8>> {
        self.0.cose(data)
    }
    fn alg(&self) -> SigningAlg {
        self.0.alg()
    }
    fn certs(&self) -> c2pa::Result<Vec<Vec<u8>>> {
        self.0.certs()
    }
    fn reserve_size(&self) -> usize {
        self.0.reserve_size()
    }
    fn direct_cose_handling(&self) -> bool {
        true
    }
}

pub fn settings_doc(case: &Value, signing: bool) -> String {
    let mut verify = json!({"ocsp_fetch": false, "remote_manifest_fetch": false});
    if signing {
        verify["verify_after_sign"] = json!(false);
    }
    if let Some(b) = case["verify_timestamp_trust"].as_bool() {
        verify["verify_timestamp_trust"] = json!(b);
    }
    if let Some(b) = case["verify_trust"].as_bool() {
        verify["verify_trust"] = json!(b);
    }
    let mut doc = json!({"verify": verify});
    if let Some(a) = case["anchors"].as_str() {
        doc["trust"] = json!({"user_anchors": a});
    }
    if let Some(b) = case["override"].as_bool() {
        doc["builder"] = json!({"certificate_status_should_override": b});
    }
    // free-form additions (top-level sections replace the ones above)
    let extra = &case[if signing { "sign_settings" } else { "read_settings" }];
    if let Some(m) = extra.as_object() {
        for (k, v) in m {
            doc[k.as_str()] = v.clone();
        }
    }
    doc.to_string()
}

/// The scripted (direct-COSE) signer described by `case` (cred, token, ocsp, claim_v, reserve).
pub fn signer_of(case: &Value) -> Result<DirectSigner, Value> {
    let v2 = case["claim_v"].as_u64().unwrap_or(2) != 1;
    let ocsp = case["ocsp"].as_str().map(|h| hex::decode(h).expect("ocsp hex"));
    match ScriptedSigner::new(&case["cred"], case["token"].clone(), ocsp, v2) {
        Ok(mut s) => {
            if let Some(n) = case["reserve"].as_u64() {
                s.reserve = n as usize;
            }
            Ok(DirectSigner(s))
        }
        Err(e) => Err(json!({"r": "err", "stage": "signer", "kind": err_class(&e), "detail": e.to_string()})),
    }
}

pub fn definition_of(case: &Value, title: &str) -> Value {
    let v2 = case["claim_v"].as_u64().unwrap_or(2) != 1;
    let mut def: Value = serde_json::from_str(&e2e::minimal_manifest(title)).expect("def");
    if !v2 {
        def["claim_version"] = json!(1);
        def["claim_generator_info"] = json!([{"name": "verif-harness", "version": "0.1"}]);
        def["assertions"] = json!([{"label": "c2pa.actions", "data": {"actions": [{"action": "c2pa.created"}]}}]);
    }
    def
}

pub fn seen_of(signer: &DirectSigner) -> Vec<String> {
    signer.0.seen.lock().map(|g| g.clone()).unwrap_or_default()
}

pub fn now_secs() -> u64 {
    std::time::SystemTime::now().duration_since(std::time::UNIX_EPOCH).map(|d| d.as_secs()).unwrap_or(0)
}

/// Sign the fixture of the case with its scripted signer; Err = the JSON error report.
pub fn sign_asset(case: &Value, title: &str) -> Result<(String, Vec<u8>, Vec<String>), Value> {
    let signer = signer_of(case)?;
    let def = definition_of(case, title);
    let fmt = case["fmt"].as_str().unwrap_or("image/png").to_string();
    let src = e2e::fixture(case["fixture"].as_str().unwrap_or("libpng-test.png"));
    match e2e::sign(e2e::context(Some(&settings_doc(case, true))), &def.to_string(), &fmt, &src, &signer) {
        Ok(b) => {
            if let Some(p) = case["dump"].as_str() {
                let _ = std::fs::write(p, &b);
            }
            Ok((fmt, b, seen_of(&signer)))
        }
        Err(e) => Err(json!({"r": "err", "stage": "sign", "kind": err_class(&e), "detail": e.to_string().chars().take(200).collect::<String>(),
                             "seen": seen_of(&signer)})),
    }
}

/// Report of a read: e2e::report + signature info of the active manifest.
pub fn read_report(case: &Value, ctx: c2pa::Context, fmt: &str, bytes: &[u8]) -> Value {
    match e2e::read(ctx, fmt, bytes) {
        Ok(reader) => {
            let mut rep = e2e::report(&reader);
            let si = reader.active_manifest().and_then(|m| m.signature_info());
            rep["r"] = json!("ok");
            rep["sig_time"] = json!(si.and_then(|s| s.time.clone()));
            rep["revocation_status"] = json!(si.and_then(|s| s.revocation_status));
            rep["now"] = json!(now_secs());
            if case["debug"].as_bool().unwrap_or(false) {
                rep["debug"] = serde_json::to_value(reader.validation_results()).unwrap_or(Value::Null);
            }
            rep
        }
        Err(e) => json!({"r": "err", "stage": "read", "kind": err_class(&e), "detail": e.to_string().chars().take(200).collect::<String>(), "now": now_secs()}),
    }
}

/// Sign libpng-test.png with the scripted signer of the case and read it back; shared with C37.
pub fn sign_and_read(case: &Value, title: &str) -> Value {
    let (fmt, signed, seen) = match sign_asset(case, title) {
        Ok(x) => x,
        Err(e) => return e,
    };
    let mut rep = read_report(case, e2e::context(Some(&settings_doc(case, false))), &fmt, &signed);
    rep["seen"] = json!(seen);
    rep
}

pub fn run(case: &Value) -> Value {
    sign_and_read(case, "c36")
}
