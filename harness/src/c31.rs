//! C31: handle misuse over the C API.  A case is one whole call sequence:
//!   {"ops":[{"f":"<exported fn>","a":[arg..]}..], "free_all":bool}
//! arg forms (in the declaration order of the exported function's parameters):
//!   {"op":i,"j":k,"off":o}  pointer = k-th tracked output of op i (+o bytes), 0 if that op produced none
//!   {"null":true}           NULL
//!   {"foreign":j}           address of a harness-owned block that the library never produced
//!   {"s":"text"|null} / {"slen":n}   C string (NULL / a string of n bytes)
//!   {"n":int}  {"out":bool} (out-parameter present / NULL)  {"bytes":hex|null}  {"data":"jpeg"|"empty"|"junk"}
//!   {"arr":i}               the string array returned by op i        {"info":{..}|null}  C2paSignerInfo
//! Foreign / freed / wrong-type pointers are only ever *passed* to the API, never dereferenced here.
//! Output per op: model argument values, return value, tracked outputs, whether a last error was set and its class,
//! and the registry snapshot after the call (hook verif_registry_snapshot).
#![allow(deprecated)]
use std::any::TypeId;
use std::collections::HashMap;
use std::ffi::{c_void, CStr, CString};
use std::io::{Cursor, Read, Seek, SeekFrom, Write};
use std::os::raw::{c_char, c_int, c_uchar};
use std::sync::Arc;

use c2pa_c::*;
use serde_json::{json, Value};

const JPEG: &[u8] = include_bytes!("/repo/sdk/tests/fixtures/C.jpg");
const CERTS: &str = include_str!("/repo/sdk/tests/fixtures/certs/ed25519.pub");
const KEY: &str = include_str!("/repo/sdk/tests/fixtures/certs/ed25519.pem");

type Cur = Cursor<Vec<u8>>;

unsafe extern "C" fn s_read(ctx: *mut StreamContext, data: *mut u8, len: isize) -> isize {
    let c = &mut *(ctx as *mut Cur);
    let buf = std::slice::from_raw_parts_mut(data, len as usize);
    c.read(buf).map(|n| n as isize).unwrap_or(-1)
}
unsafe extern "C" fn s_seek(ctx: *mut StreamContext, offset: isize, mode: C2paSeekMode) -> isize {
    let c = &mut *(ctx as *mut Cur);
    let w = match mode {
        C2paSeekMode::Start => {
            if offset < 0 {
                return -1;
            }
            SeekFrom::Start(offset as u64)
        }
        C2paSeekMode::Current => SeekFrom::Current(offset as i64),
        C2paSeekMode::End => SeekFrom::End(offset as i64),
    };
    c.seek(w).map(|n| n as isize).unwrap_or(-1)
}
unsafe extern "C" fn s_write(ctx: *mut StreamContext, data: *const u8, len: isize) -> isize {
    let c = &mut *(ctx as *mut Cur);
    let buf = std::slice::from_raw_parts(data, len as usize);
    c.write(buf).map(|n| n as isize).unwrap_or(-1)
}
unsafe extern "C" fn s_flush(_ctx: *mut StreamContext) -> isize {
    0
}
unsafe extern "C" fn sign_cb(_ctx: *const (), data: *const c_uchar, len: usize, out: *mut c_uchar, out_len: usize) -> isize {
    let d = std::slice::from_raw_parts(data, len);
    match c2pa::CallbackSigner::ed25519_sign(d, KEY.as_bytes()) {
        Ok(sig) if sig.len() <= out_len => {
            std::ptr::copy_nonoverlapping(sig.as_ptr(), out, sig.len());
            sig.len() as isize
        }
        _ => -1,
    }
}
unsafe extern "C" fn http_cb(_ctx: *mut c_void, _req: *const C2paHttpRequest, _resp: *mut C2paHttpResponse) -> c_int {
    -1
}
unsafe extern "C" fn progress_cb(_ctx: *const c_void, _phase: C2paProgressPhase, _step: u32, _total: u32) -> c_int {
    1
}

fn type_names() -> Vec<(TypeId, &'static str)> {
    vec![
        (TypeId::of::<c2pa::Settings>(), "C2paSettings"),
        (TypeId::of::<c2pa::Context>(), "C2paContextBuilder"),
        (TypeId::of::<Arc<c2pa::Context>>(), "C2paContext"),
        (TypeId::of::<c2pa::Reader>(), "C2paReader"),
        (TypeId::of::<c2pa::Builder>(), "C2paBuilder"),
        (TypeId::of::<C2paSigner>(), "C2paSigner"),
        (TypeId::of::<C2paHttpResolver>(), "C2paHttpResolver"),
        (TypeId::of::<C2paStream>(), "C2paStream"),
        (TypeId::of::<CString>(), "CString"),
        (TypeId::of::<Box<[u8]>>(), "Bytes"),
    ]
}

fn snapshot(names: &[(TypeId, &'static str)]) -> Vec<(usize, &'static str)> {
    let mut v: Vec<(usize, &'static str)> = utils::verif_registry_snapshot()
        .into_iter()
        .map(|(a, t)| (a, names.iter().find(|(x, _)| *x == t).map(|(_, n)| *n).unwrap_or("?")))
        .collect();
    v.sort();
    v
}

#[derive(Clone)]
enum A {
    P(usize),
    S(*const c_char, u64),
    N(u64),
    Out(bool),
    Bytes(*const u8, usize),
    Arr(usize, usize),
    Info(Option<[*const c_char; 4]>),
}

struct Env {
    outs: Vec<Vec<usize>>,
    arrays: HashMap<usize, (usize, usize)>,
    foreign: Vec<Box<[u64; 16]>>,
    keep: Vec<CString>,
    keepb: Vec<Vec<u8>>,
    ctxs: Vec<*mut Cur>,
}

impl Env {
    fn cstr(&mut self, s: String) -> *const c_char {
        let c = CString::new(s).expect("cstring");
        let p = c.as_ptr();
        self.keep.push(c);
        p
    }
    fn arg(&mut self, v: &Value) -> A {
        if let Some(i) = v.get("op").and_then(|x| x.as_u64()) {
            let j = v.get("j").and_then(|x| x.as_u64()).unwrap_or(0) as usize;
            let off = v.get("off").and_then(|x| x.as_u64()).unwrap_or(0) as usize;
            let base = self.outs.get(i as usize).and_then(|o| o.get(j)).copied().unwrap_or(0);
            return A::P(if base == 0 { 0 } else { base + off });
        }
        if v.get("null").is_some() {
            return A::P(0);
        }
        if let Some(j) = v.get("foreign").and_then(|x| x.as_u64()) {
            let n = self.foreign.len();
            return A::P(self.foreign[j as usize % n].as_ptr() as usize);
        }
        if let Some(s) = v.get("s") {
            return match s.as_str() {
                Some(t) => {
                    let p = self.cstr(t.to_string());
                    A::S(p, t.len() as u64 + 1)
                }
                None => A::S(std::ptr::null(), 0),
            };
        }
        if let Some(n) = v.get("slen").and_then(|x| x.as_u64()) {
            let p = self.cstr("a".repeat(n as usize));
            return A::S(p, n + 1);
        }
        if let Some(n) = v.get("n").and_then(|x| x.as_u64()) {
            return A::N(n);
        }
        if let Some(b) = v.get("out").and_then(|x| x.as_bool()) {
            return A::Out(b);
        }
        if let Some(b) = v.get("bytes") {
            return match b.as_str() {
                Some(h) => {
                    let d = hex::decode(h).expect("hex");
                    let p = d.as_ptr();
                    let l = d.len();
                    self.keepb.push(d);
                    A::Bytes(p, l)
                }
                None => A::Bytes(std::ptr::null(), 0),
            };
        }
        if let Some(d) = v.get("data").and_then(|x| x.as_str()) {
            let bytes = match d {
                "jpeg" => JPEG.to_vec(),
                "junk" => vec![0x5au8; 64],
                _ => Vec::new(),
            };
            let c = Box::into_raw(Box::new(Cursor::new(bytes)));
            self.ctxs.push(c);
            return A::P(c as usize);
        }
        if let Some(i) = v.get("arr").and_then(|x| x.as_u64()) {
            let (p, n) = self.arrays.get(&(i as usize)).copied().unwrap_or((0, 0));
            return A::Arr(p, n);
        }
        if let Some(i) = v.get("info") {
            if i.is_null() {
                return A::Info(None);
            }
            let mut f = [std::ptr::null::<c_char>(); 4];
            for (k, name) in ["alg", "cert", "key", "tsa"].iter().enumerate() {
                let t = match i.get(*name).and_then(|x| x.as_str()) {
                    None => continue,
                    Some("@cert") => CERTS.to_string(),
                    Some("@key") => KEY.to_string(),
                    Some(t) => t.to_string(),
                };
                f[k] = self.cstr(t);
            }
            return A::Info(Some(f));
        }
        panic!("bad arg {}", v);
    }
}

enum R {
    Ptr(usize),
    Int(i64),
    Bool(bool),
    Void,
}

struct CallOut {
    r: R,
    extra: Vec<usize>,
}

fn p(a: &[A], i: usize) -> usize {
    match &a[i] {
        A::P(x) => *x,
        A::Arr(x, _) => *x,
        _ => panic!("arg {} is not a pointer", i),
    }
}
fn s(a: &[A], i: usize) -> *const c_char {
    match &a[i] {
        A::S(x, _) => *x,
        _ => panic!("arg {} is not a string", i),
    }
}
fn n(a: &[A], i: usize) -> u64 {
    match &a[i] {
        A::N(x) => *x,
        _ => panic!("arg {} is not a number", i),
    }
}
fn o(a: &[A], i: usize) -> bool {
    match &a[i] {
        A::Out(x) => *x,
        _ => panic!("arg {} is not an out flag", i),
    }
}
fn b(a: &[A], i: usize) -> (*const u8, usize) {
    match &a[i] {
        A::Bytes(x, l) => (*x, *l),
        _ => panic!("arg {} is not bytes", i),
    }
}

/// length handed to the API: the requested one when the guard must reject it anyway, otherwise never past the buffer
fn blen(bp: *const u8, bl: usize, want: u64) -> usize {
    if bp.is_null() || want > isize::MAX as u64 {
        want as usize
    } else {
        bl.min(want as usize)
    }
}

fn alg_of(k: u64) -> C2paSigningAlg {
    match k % 7 {
        0 => C2paSigningAlg::Es256,
        1 => C2paSigningAlg::Es384,
        2 => C2paSigningAlg::Es512,
        3 => C2paSigningAlg::Ps256,
        4 => C2paSigningAlg::Ps384,
        5 => C2paSigningAlg::Ps512,
        _ => C2paSigningAlg::Ed25519,
    }
}

/// one exported function; `a` is in declaration order
unsafe fn call(env: &mut Env, opi: usize, f: &str, a: &[A]) -> CallOut {
    let mut extra = Vec::new();
    let mut outp: *const c_uchar = std::ptr::null();
    macro_rules! outptr {
        ($i:expr) => {
            if o(a, $i) { &mut outp as *mut *const c_uchar } else { std::ptr::null_mut() }
        };
    }
    let r = match f {
        // ---- no handle parameters
        "c2pa_version" => R::Ptr(c2pa_version() as usize),
        "c2pa_error" => R::Ptr(c2pa_error() as usize),
        "c2pa_error_set_last" => R::Int(c2pa_error_set_last(s(a, 0)) as i64),
        "c2pa_settings_new" => R::Ptr(c2pa_settings_new() as usize),
        "c2pa_context_builder_new" => R::Ptr(c2pa_context_builder_new() as usize),
        "c2pa_context_new" => R::Ptr(c2pa_context_new() as usize),
        "c2pa_reader_new" => R::Ptr(c2pa_reader_new() as usize),
        "c2pa_builder_from_json" => R::Ptr(c2pa_builder_from_json(s(a, 0)) as usize),
        "c2pa_http_resolver_create" => R::Ptr(c2pa_http_resolver_create(p(a, 0) as *const c_void, http_cb) as usize),
        "c2pa_create_stream" => R::Ptr(c2pa_create_stream(p(a, 0) as *mut StreamContext, s_read, s_seek, s_write, s_flush) as usize),
        "c2pa_signer_create" => R::Ptr(c2pa_signer_create(p(a, 0) as *const c_void, sign_cb, alg_of(n(a, 2)), s(a, 3), s(a, 4)) as usize),
        "c2pa_ed25519_sign" => {
            let (bp, bl) = b(a, 0);
            R::Ptr(c2pa_ed25519_sign(bp, blen(bp, bl, n(a, 1)), s(a, 2)) as usize)
        }
        "c2pa_format_embeddable" => {
            let (bp, bl) = b(a, 1);
            let r = c2pa_format_embeddable(s(a, 0), bp, blen(bp, bl, n(a, 2)), outptr!(3));
            R::Int(r)
        }
        "c2pa_signer_from_info" => match &a[0] {
            A::Info(Some(f4)) => {
                let info = C2paSignerInfo { alg: f4[0], sign_cert: f4[1], private_key: f4[2], ta_url: f4[3] };
                R::Ptr(c2pa_signer_from_info(&info) as usize)
            }
            _ => {
                // a C caller passing NULL for the struct: same ABI, pointer instead of reference
                let g: unsafe extern "C" fn(*const C2paSignerInfo) -> *mut C2paSigner =
                    std::mem::transmute(c2pa_signer_from_info as usize);
                R::Ptr(g(std::ptr::null()) as usize)
            }
        },
        "c2pa_reader_supported_mime_types" | "c2pa_builder_supported_mime_types" => {
            let mut count: usize = 0;
            let cp = if o(a, 0) { &mut count as *mut usize } else { std::ptr::null_mut() };
            let arr = if f == "c2pa_reader_supported_mime_types" { c2pa_reader_supported_mime_types(cp) } else { c2pa_builder_supported_mime_types(cp) };
            if !arr.is_null() {
                for i in 0..count {
                    extra.push(*arr.add(i) as usize);
                }
                env.arrays.insert(opi, (arr as usize, count));
            }
            R::Void
        }
        "c2pa_free_string_array" => {
            let (ap, an) = match &a[0] {
                A::Arr(x, c) => (*x, *c),
                A::P(x) => (*x, n(a, 1) as usize),
                _ => panic!("arr"),
            };
            c2pa_free_string_array(ap as *const *const c_char, an);
            R::Void
        }
        // ---- settings / context builder / context
        "c2pa_settings_update_from_string" => R::Int(c2pa_settings_update_from_string(p(a, 0) as *mut _, s(a, 1), s(a, 2)) as i64),
        "c2pa_settings_set_value" => R::Int(c2pa_settings_set_value(p(a, 0) as *mut _, s(a, 1), s(a, 2)) as i64),
        "c2pa_context_builder_set_settings" => R::Int(c2pa_context_builder_set_settings(p(a, 0) as *mut _, p(a, 1) as *mut _) as i64),
        "c2pa_context_builder_set_signer" => R::Int(c2pa_context_builder_set_signer(p(a, 0) as *mut _, p(a, 1) as *mut _) as i64),
        "c2pa_context_builder_set_progress_callback" => {
            R::Int(c2pa_context_builder_set_progress_callback(p(a, 0) as *mut _, p(a, 1) as *const c_void, progress_cb) as i64)
        }
        "c2pa_context_builder_set_http_resolver" => R::Int(c2pa_context_builder_set_http_resolver(p(a, 0) as *mut _, p(a, 1) as *mut _) as i64),
        "c2pa_context_builder_build" => R::Ptr(c2pa_context_builder_build(p(a, 0) as *mut _) as usize),
        "c2pa_context_cancel" => R::Int(c2pa_context_cancel(p(a, 0) as *mut _) as i64),
        // ---- reader
        "c2pa_reader_from_context" => R::Ptr(c2pa_reader_from_context(p(a, 0) as *mut _) as usize),
        "c2pa_reader_from_stream" => R::Ptr(c2pa_reader_from_stream(s(a, 0), p(a, 1) as *mut _) as usize),
        "c2pa_reader_with_stream" => R::Ptr(c2pa_reader_with_stream(p(a, 0) as *mut _, s(a, 1), p(a, 2) as *mut _) as usize),
        "c2pa_reader_with_fragment" => R::Ptr(c2pa_reader_with_fragment(p(a, 0) as *mut _, s(a, 1), p(a, 2) as *mut _, p(a, 3) as *mut _) as usize),
        "c2pa_reader_with_manifest_data_and_stream" => {
            let (bp, bl) = b(a, 3);
            R::Ptr(c2pa_reader_with_manifest_data_and_stream(p(a, 0) as *mut _, s(a, 1), p(a, 2) as *mut _, bp, blen(bp, bl, n(a, 4))) as usize)
        }
        "c2pa_reader_json" => R::Ptr(c2pa_reader_json(p(a, 0) as *mut _) as usize),
        "c2pa_reader_detailed_json" => R::Ptr(c2pa_reader_detailed_json(p(a, 0) as *mut _) as usize),
        "c2pa_reader_crjson" => R::Ptr(c2pa_reader_crjson(p(a, 0) as *mut _) as usize),
        "c2pa_reader_remote_url" => R::Ptr(c2pa_reader_remote_url(p(a, 0) as *mut _) as usize),
        "c2pa_reader_is_embedded" => R::Bool(c2pa_reader_is_embedded(p(a, 0) as *mut _)),
        "c2pa_reader_resource_to_stream" => R::Int(c2pa_reader_resource_to_stream(p(a, 0) as *mut _, s(a, 1), p(a, 2) as *mut _)),
        // ---- builder
        "c2pa_builder_from_context" => R::Ptr(c2pa_builder_from_context(p(a, 0) as *mut _) as usize),
        "c2pa_builder_from_archive" => R::Ptr(c2pa_builder_from_archive(p(a, 0) as *mut _) as usize),
        "c2pa_builder_with_definition" => R::Ptr(c2pa_builder_with_definition(p(a, 0) as *mut _, s(a, 1)) as usize),
        "c2pa_builder_with_archive" => R::Ptr(c2pa_builder_with_archive(p(a, 0) as *mut _, p(a, 1) as *mut _) as usize),
        "c2pa_builder_set_intent" => {
            let intent = match n(a, 1) % 3 {
                0 => C2paBuilderIntent::Create,
                1 => C2paBuilderIntent::Edit,
                _ => C2paBuilderIntent::Update,
            };
            R::Int(c2pa_builder_set_intent(p(a, 0) as *mut _, intent, C2paDigitalSourceType::DigitalCapture) as i64)
        }
        "c2pa_builder_set_no_embed" => {
            c2pa_builder_set_no_embed(p(a, 0) as *mut _);
            R::Void
        }
        "c2pa_builder_set_remote_url" => R::Int(c2pa_builder_set_remote_url(p(a, 0) as *mut _, s(a, 1)) as i64),
        "c2pa_builder_set_base_path" => R::Int(c2pa_builder_set_base_path(p(a, 0) as *mut _, s(a, 1)) as i64),
        "c2pa_builder_add_resource" => R::Int(c2pa_builder_add_resource(p(a, 0) as *mut _, s(a, 1), p(a, 2) as *mut _) as i64),
        "c2pa_builder_add_ingredient_from_stream" => {
            R::Int(c2pa_builder_add_ingredient_from_stream(p(a, 0) as *mut _, s(a, 1), s(a, 2), p(a, 3) as *mut _) as i64)
        }
        "c2pa_builder_add_action" => R::Int(c2pa_builder_add_action(p(a, 0) as *mut _, s(a, 1)) as i64),
        "c2pa_builder_to_archive" => R::Int(c2pa_builder_to_archive(p(a, 0) as *mut _, p(a, 1) as *mut _) as i64),
        "c2pa_builder_add_ingredient_from_archive" => R::Int(c2pa_builder_add_ingredient_from_archive(p(a, 0) as *mut _, p(a, 1) as *mut _) as i64),
        "c2pa_builder_write_ingredient_archive" => R::Int(c2pa_builder_write_ingredient_archive(p(a, 0) as *mut _, s(a, 1), p(a, 2) as *mut _) as i64),
        "c2pa_builder_sign" => R::Int(c2pa_builder_sign(p(a, 0) as *mut _, s(a, 1), p(a, 2) as *mut _, p(a, 3) as *mut _, p(a, 4) as *mut _, outptr!(5))),
        "c2pa_builder_sign_context" => R::Int(c2pa_builder_sign_context(p(a, 0) as *mut _, s(a, 1), p(a, 2) as *mut _, p(a, 3) as *mut _, outptr!(4))),
        "c2pa_builder_data_hashed_placeholder" => R::Int(c2pa_builder_data_hashed_placeholder(p(a, 0) as *mut _, n(a, 1) as usize, s(a, 2), outptr!(3))),
        "c2pa_builder_sign_data_hashed_embeddable" => {
            R::Int(c2pa_builder_sign_data_hashed_embeddable(p(a, 0) as *mut _, p(a, 1) as *mut _, s(a, 2), s(a, 3), p(a, 4) as *mut _, outptr!(5)))
        }
        "c2pa_builder_needs_placeholder" => R::Int(c2pa_builder_needs_placeholder(p(a, 0) as *mut _, s(a, 1)) as i64),
        "c2pa_builder_hash_type" => {
            let mut ht = C2paHashType::DataHash;
            let hp = if o(a, 2) { &mut ht as *mut C2paHashType } else { std::ptr::null_mut() };
            R::Int(c2pa_builder_hash_type(p(a, 0) as *mut _, s(a, 1), hp) as i64)
        }
        "c2pa_builder_placeholder" => R::Int(c2pa_builder_placeholder(p(a, 0) as *mut _, s(a, 1), outptr!(2))),
        "c2pa_builder_sign_embeddable" => R::Int(c2pa_builder_sign_embeddable(p(a, 0) as *mut _, s(a, 1), outptr!(2))),
        "c2pa_builder_set_data_hash_exclusions" => R::Int(c2pa_builder_set_data_hash_exclusions(p(a, 0) as *mut _, std::ptr::null(), 0) as i64),
        "c2pa_builder_set_fixed_size_merkle" => R::Int(c2pa_builder_set_fixed_size_merkle(p(a, 0) as *mut _, n(a, 1) as usize) as i64),
        "c2pa_builder_hash_mdat_bytes" => {
            let (bp, bl) = b(a, 2);
            R::Int(c2pa_builder_hash_mdat_bytes(p(a, 0) as *mut _, n(a, 1) as usize, bp, blen(bp, bl, n(a, 3)), false) as i64)
        }
        "c2pa_builder_update_hash_from_stream" => R::Int(c2pa_builder_update_hash_from_stream(p(a, 0) as *mut _, s(a, 1), p(a, 2) as *mut _) as i64),
        // ---- signer
        "c2pa_identity_signer_create" => {
            R::Ptr(c2pa_identity_signer_create(p(a, 0) as *mut _, p(a, 1) as *mut _, std::ptr::null(), std::ptr::null()) as usize)
        }
        "c2pa_signer_reserve_size" => R::Int(c2pa_signer_reserve_size(p(a, 0) as *mut _)),
        // ---- free
        "c2pa_free" => R::Int(c2pa_free(p(a, 0) as *const c_void) as i64),
        "c2pa_string_free" => {
            c2pa_string_free(p(a, 0) as *mut c_char);
            R::Void
        }
        "c2pa_release_string" => {
            c2pa_release_string(p(a, 0) as *mut c_char);
            R::Void
        }
        "c2pa_reader_free" => {
            c2pa_reader_free(p(a, 0) as *mut _);
            R::Void
        }
        "c2pa_builder_free" => {
            c2pa_builder_free(p(a, 0) as *mut _);
            R::Void
        }
        "c2pa_signer_free" => {
            c2pa_signer_free(p(a, 0) as *const _);
            R::Void
        }
        "c2pa_manifest_bytes_free" => {
            c2pa_manifest_bytes_free(p(a, 0) as *const c_uchar);
            R::Void
        }
        "c2pa_signature_free" => {
            c2pa_signature_free(p(a, 0) as *const u8);
            R::Void
        }
        "c2pa_release_stream" => {
            c2pa_release_stream(p(a, 0) as *mut _);
            R::Void
        }
        "cimpl_free" => R::Int(cimpl_free(p(a, 0) as *mut c_void) as i64),
        _ => panic!("unknown function {}", f),
    };
    if !outp.is_null() {
        extra.push(outp as usize);
    }
    CallOut { r, extra }
}

fn model_args(a: &[A]) -> Vec<Value> {
    let mut v = Vec::new();
    for x in a {
        match x {
            A::P(q) => v.push(json!(["p", q])),
            A::S(_, m) => v.push(json!(["n", m])),
            A::N(k) => v.push(json!(["n", k])),
            A::Out(t) => v.push(json!(["n", if *t { 1 } else { 0 }])),
            A::Bytes(q, _) => v.push(json!(["n", if q.is_null() { 0 } else { 1 }])),
            A::Arr(q, c) => {
                v.push(json!(["p", q]));
                v.push(json!(["n", c]));
            }
            A::Info(i) => match i {
                None => v.push(json!(["n", 0])),
                Some(f4) => {
                    v.push(json!(["n", 1]));
                    for q in f4.iter().take(3) {
                        let l = if q.is_null() { 0 } else { unsafe { CStr::from_ptr(*q) }.to_bytes().len() as u64 + 1 };
                        v.push(json!(["n", l]));
                    }
                }
            },
        }
    }
    v
}

pub fn run(case: &Value) -> Value {
    let names = type_names();
    let mut env = Env {
        outs: Vec::new(),
        arrays: HashMap::new(),
        foreign: (0..4).map(|_| Box::new([0u64; 16])).collect(),
        keep: Vec::new(),
        keepb: Vec::new(),
        ctxs: Vec::new(),
    };
    let start = snapshot(&names);
    let mut trace: Vec<Value> = Vec::new();
    let ops = case["ops"].as_array().cloned().unwrap_or_default();
    let mut do_op = |env: &mut Env, f: &str, args: Vec<A>, trace: &mut Vec<Value>| {
        let opi = env.outs.len();
        let _ = CimplError::take_last();
        let out = unsafe { call(env, opi, f, &args) };
        let err = CimplError::take_last();
        let after = snapshot(&names);
        let mut outs: Vec<usize> = Vec::new();
        let (rk, rv) = match out.r {
            R::Ptr(q) => {
                if q != 0 {
                    outs.push(q);
                }
                ("ptr", json!(q))
            }
            R::Int(i) => ("int", json!(i)),
            R::Bool(t) => ("bool", json!(t)),
            R::Void => ("void", Value::Null),
        };
        outs.extend(out.extra.iter().copied());
        let outs_t: Vec<Value> = outs
            .iter()
            .map(|q| json!([q, after.iter().find(|(x, _)| x == q).map(|(_, t)| *t).unwrap_or("untracked")]))
            .collect();
        env.outs.push(outs);
        let (cls, msg) = match &err {
            Some(e) => {
                let m = e.message().to_string();
                (m.split(':').next().unwrap_or("").to_string(), m)
            }
            None => (String::new(), String::new()),
        };
        trace.push(json!({
            "f": f, "args": model_args(&args), "rk": rk, "ret": rv, "outs": outs_t,
            "err": err.is_some(), "cls": cls, "msg": msg.chars().take(80).collect::<String>(),
            "reg": after.iter().map(|(x, t)| json!([x, t])).collect::<Vec<_>>(),
        }));
    };
    for op in ops.iter() {
        let f = op["f"].as_str().expect("f").to_string();
        let args: Vec<A> = op["a"].as_array().map(|v| v.iter().map(|x| env.arg(x)).collect()).unwrap_or_default();
        do_op(&mut env, &f, args, &mut trace);
    }
    if case["free_all"].as_bool().unwrap_or(true) {
        // release whatever is still tracked, one c2pa_free per address (part of the checked trace)
        for (addr, _) in snapshot(&names) {
            do_op(&mut env, "c2pa_free", vec![A::P(addr)], &mut trace);
        }
    }
    let end = snapshot(&names);
    for c in env.ctxs.drain(..) {
        unsafe { drop(Box::from_raw(c)) };
    }
    json!({"r": "ok", "start": start.iter().map(|(x, t)| json!([x, t])).collect::<Vec<_>>(), "trace": trace, "end": end.len()})
}
