//! C31: not implemented yet.
use serde_json::{json, Value};

pub fn run(_case: &Value) -> Value {
    json!({"r": "unimplemented"})
}
