//! C40: the same operation through the sync and the async entry point.
//! case: {op, fixture, format, alg, def, settings?, tamper?:[[off,xor]..], yields, ing_fixture?, ing_format?, relationship?}
//! result: {"r":"ok", "sync": <outcome>, "async": <outcome>, "polls": n}; an outcome is {"err": class} or
//! {"ok": {...normalised report...}}.
use std::{
    future::Future,
    io::Cursor,
    pin::Pin,
    sync::{
        atomic::{AtomicUsize, Ordering},
        Arc,
    },
    task::{Context as TaskContext, Poll, Wake, Waker},
};

use c2pa::{assertions::DataHash, AsyncSigner, Builder, HashRange, Reader, Signer, SigningAlg};
use serde_json::{json, Value};

use crate::{e2e, util::*};

// ------------------------------------------------------------------ a minimal executor
struct CountWake(AtomicUsize);
impl Wake for CountWake {
    fn wake(self: Arc<Self>) {
        self.0.fetch_add(1, Ordering::SeqCst);
    }
}

/// Single-task executor: polls until Ready; returns the value and the number of polls.
pub fn block_on<F: Future>(f: F) -> (F::Output, usize) {
    let mut f = Box::pin(f);
    let w = Arc::new(CountWake(AtomicUsize::new(0)));
    let waker = Waker::from(w.clone());
    let mut cx = TaskContext::from_waker(&waker);
    let mut polls = 0usize;
    loop {
        polls += 1;
        match f.as_mut().poll(&mut cx) {
            Poll::Ready(v) => return (v, polls),
            Poll::Pending => {
                if polls > 1_000_000 {
                    panic!("block_on: future never completes");
                }
            }
        }
    }
}

/// A future that is Pending `n` times (waking itself each time) before it is Ready.
struct YieldN(usize);
impl Future for YieldN {
    type Output = ();

    fn poll(mut self: Pin<&mut Self>, cx: &mut TaskContext<'_>) -> Poll<()> {
        if self.0 == 0 {
            Poll::Ready(())
        } else {
            self.0 -= 1;
            cx.waker().wake_by_ref();
            Poll::Pending
        }
    }
}

/// The async twin of a sync signer: same key, same chain, same reserve; `sign` suspends `yields` times first.
pub struct AsyncTwin {
    inner: SendSigner,
    yields: usize,
}

/// `create_signer::from_keys` returns a `Box<dyn Signer>` without Send/Sync in its type; the signers behind it hold
/// only key material (they are used from one thread here).
pub struct SendSigner(pub Box<dyn Signer>);
unsafe impl Send for SendSigner {}
unsafe impl Sync for SendSigner {}
impl Signer for SendSigner {
    fn sign(&self, data: &[u8]) -> c2pa::Result<Vec<u8>> {
        self.0.sign(data)
    }

    fn alg(&self) -> SigningAlg {
        self.0.alg()
    }

    fn certs(&self) -> c2pa::Result<Vec<Vec<u8>>> {
        self.0.certs()
    }

    fn reserve_size(&self) -> usize {
        self.0.reserve_size()
    }
}

// hand expansion of #[async_trait] for `async fn sign(&self, data: Vec<u8>) -> Result<Vec<u8>>`
impl AsyncSigner for AsyncTwin {
    fn sign<'life0, 'async_trait>(
        &'life0 self,
        data: Vec<u8>,
    ) -> Pin<Box<dyn Future<Output = c2pa::Result<Vec<u8>>> + Send + 'async_trait>>
    where
        'life0: 'async_trait,
        Self: 'async_trait,
    {
        Box::pin(async move {
            YieldN(self.yields).await;
            self.inner.sign(&data)
        })
    }

    fn alg(&self) -> SigningAlg {
        self.inner.alg()
    }

    fn certs(&self) -> c2pa::Result<Vec<Vec<u8>>> {
        self.inner.certs()
    }

    fn reserve_size(&self) -> usize {
        self.inner.reserve_size()
    }
}

pub fn async_twin(alg: &str, yields: usize) -> AsyncTwin {
    AsyncTwin { inner: SendSigner(e2e::signer(alg)), yields }
}

// ------------------------------------------------------------------ normalised outcomes
fn sorted_labels(m: &c2pa::Manifest) -> Vec<String> {
    let mut v: Vec<String> = m.assertions().iter().map(|a| a.label().to_string()).collect();
    v.sort();
    v
}

/// state + codes + shape of the active manifest; nothing that contains a fresh UUID or a time.
pub fn shape(reader: &Reader) -> Value {
    let mut rep = e2e::report(reader);
    if let Some(o) = rep.as_object_mut() {
        o.remove("active");
    }
    let mut man = Value::Null;
    if let Some(m) = reader.active_manifest() {
        let ings: Vec<Value> = m
            .ingredients()
            .iter()
            .map(|i| {
                json!({"title": i.title(), "format": i.format(), "relationship": format!("{:?}", i.relationship()),
                       "has_manifest": i.active_manifest().is_some(),
                       "status": i.validation_status().map(|v| { let mut c: Vec<String> = v.iter().map(|s| s.code().to_string()).collect(); c.sort(); c })})
            })
            .collect();
        let si = m.signature_info();
        man = json!({
            "title": m.title(), "format": m.format(), "assertions": sorted_labels(m), "ingredients": ings,
            "alg": si.and_then(|s| s.alg).map(|a| a.to_string()), "issuer": si.and_then(|s| s.issuer.clone()),
            "cn": si.and_then(|s| s.common_name.clone()), "has_time": si.map(|s| s.time.is_some()),
            "generator": m.claim_generator(), "thumbnail": m.thumbnail_ref().map(|t| t.format.clone()),
        });
    }
    json!({"report": rep, "manifest": man, "n_manifests": reader.iter_manifests().count()})
}

fn read_shape(settings: Option<&str>, format: &str, bytes: &[u8]) -> Value {
    match e2e::read(e2e::context(settings), format, bytes) {
        Ok(r) => json!({"ok": shape(&r)}),
        Err(e) => json!({"err": err_class(&e)}),
    }
}

fn outcome_of_signed(settings: Option<&str>, format: &str, r: c2pa::Result<Vec<u8>>) -> Value {
    match r {
        Ok(bytes) => json!({"ok": {"read": read_shape(settings, format, &bytes)}, "info": {"len": bytes.len()}}),
        Err(e) => json!({"err": err_class(&e)}),
    }
}

fn tampered(case: &Value, mut bytes: Vec<u8>) -> Vec<u8> {
    if let Some(ts) = case["tamper"].as_array() {
        for t in ts {
            let off = u64_of(&t[0]) as usize;
            let x = u64_of(&t[1]) as u8;
            if !bytes.is_empty() {
                let n = bytes.len();
                bytes[off % n] ^= x;
            }
        }
    }
    bytes
}

fn builder(settings: Option<&str>, def: &str) -> c2pa::Result<Builder> {
    Builder::from_context(e2e::context(settings)).with_definition(def)
}

// ------------------------------------------------------------------ operations
pub fn run(case: &Value) -> Value {
    let op = case["op"].as_str().unwrap_or("");
    let fixture = case["fixture"].as_str().unwrap_or("CA.jpg");
    let format = case["format"].as_str().unwrap_or("image/jpeg");
    let alg = case["alg"].as_str().unwrap_or("ed25519");
    let yields = case["yields"].as_u64().unwrap_or(0) as usize;
    let settings_s = case.get("settings").filter(|v| !v.is_null()).map(|v| v.to_string());
    let settings = settings_s.as_deref();
    let def = case["def"].to_string();
    let src = e2e::fixture(fixture);
    let mut polls = 0usize;

    let (s, a) = match op {
        // Reader::with_stream vs with_stream_async on (possibly tampered) bytes: the whole report must agree
        "read" => {
            let bytes = tampered(case, src);
            let s = match Reader::from_context(e2e::context(settings)).with_stream(format, Cursor::new(bytes.clone())) {
                Ok(r) => json!({"ok": {"shape": shape(&r), "json": e2e::stable_json(&r)}}),
                Err(e) => json!({"err": err_class(&e)}),
            };
            let (ra, p) = block_on(Reader::from_context(e2e::context(settings)).with_stream_async(format, Cursor::new(bytes)));
            polls = p;
            let a = match ra {
                Ok(r) => json!({"ok": {"shape": shape(&r), "json": e2e::stable_json(&r)}}),
                Err(e) => json!({"err": err_class(&e)}),
            };
            (s, a)
        }
        // Builder::sign vs sign_async with twin signers
        "sign" | "save" => {
            let run_sync = || -> c2pa::Result<Vec<u8>> {
                let signer = e2e::signer(alg);
                let mut input = Cursor::new(src.clone());
                let mut out = Cursor::new(Vec::new());
                if op == "sign" {
                    let mut b = builder(settings, &def)?;
                    b.sign(signer.as_ref(), format, &mut input, &mut out)?;
                } else {
                    let ctx = e2e::context(settings).with_signer(SendSigner(signer));
                    let mut b = Builder::from_context(ctx).with_definition(def.as_str())?;
                    b.save_to_stream(format, &mut input, &mut out)?;
                }
                Ok(out.into_inner())
            };
            let s = outcome_of_signed(settings, format, run_sync());
            let fut = async {
                let signer = async_twin(alg, yields);
                let mut input = Cursor::new(src.clone());
                let mut out = Cursor::new(Vec::new());
                if op == "sign" {
                    let mut b = builder(settings, &def)?;
                    b.sign_async(&signer, format, &mut input, &mut out).await?;
                } else {
                    let ctx = e2e::context(settings).with_async_signer(signer);
                    let mut b = Builder::from_context(ctx).with_definition(def.as_str())?;
                    b.save_to_stream_async(format, &mut input, &mut out).await?;
                }
                Ok::<Vec<u8>, c2pa::Error>(out.into_inner())
            };
            let (ra, p) = block_on(fut);
            polls = p;
            (s, outcome_of_signed(settings, format, ra))
        }
        // data-hashed embeddable signing (JPEG): placeholder spliced after SOI, hashed with the exclusion, signed
        "embed" => {
            let prep = |b: &mut Builder, reserve: usize| -> c2pa::Result<(Vec<u8>, DataHash, usize)> {
                let ph = b.data_hashed_placeholder(reserve, "image/jpeg")?;
                let mut asset = src[..2].to_vec();
                asset.extend_from_slice(&ph);
                asset.extend_from_slice(&src[2..]);
                let mut dh = DataHash::new("jumbf manifest", "sha256");
                dh.add_exclusion(HashRange::new(2, ph.len() as u64));
                dh.gen_hash_from_stream(&mut Cursor::new(asset.clone()))?;
                Ok((asset, dh, ph.len()))
            };
            let finish = |mut asset: Vec<u8>, n: usize, signed: Vec<u8>| -> Value {
                let same = signed.len() == n;
                if same {
                    asset[2..2 + n].copy_from_slice(&signed);
                }
                json!({"ok": {"fits": same, "read": read_shape(settings, "image/jpeg", &asset)}, "info": {"len": signed.len()}})
            };
            let s = (|| -> c2pa::Result<Value> {
                let signer = e2e::signer(alg);
                let mut b = builder(settings, &def)?;
                let (asset, dh, n) = prep(&mut b, signer.reserve_size())?;
                let signed = b.sign_data_hashed_embeddable(signer.as_ref(), &dh, "image/jpeg")?;
                Ok(finish(asset, n, signed))
            })()
            .unwrap_or_else(|e| json!({"err": err_class(&e)}));
            let (ra, p) = block_on(async {
                let signer = async_twin(alg, yields);
                let mut b = builder(settings, &def)?;
                let (asset, dh, n) = prep(&mut b, signer.reserve_size())?;
                let signed = b.sign_data_hashed_embeddable_async(&signer, &dh, "image/jpeg").await?;
                Ok::<Value, c2pa::Error>(finish(asset, n, signed))
            });
            polls = p;
            (s, ra.unwrap_or_else(|e| json!({"err": err_class(&e)})))
        }
        // box-hashed embeddable signing: the definition plus a c2pa.hash.boxes assertion, no asset involved
        "embed_box" => {
            let bh = json!({"alg": "sha256", "boxes": [
                {"names": ["SOI"], "hash": vec![1u8; 32], "pad": []},
                {"names": ["C2PA"], "hash": vec![0u8; 32], "pad": []},
                {"names": ["EOI"], "hash": vec![2u8; 32], "pad": []}]});
            let fin = |r: c2pa::Result<Vec<u8>>| -> Value {
                match r {
                    Ok(b) => json!({"ok": {"read": read_shape(settings, "application/c2pa", &b)}, "info": {"len": b.len()}}),
                    Err(e) => json!({"err": err_class(&e)}),
                }
            };
            let s = fin((|| {
                let signer = e2e::signer(alg);
                let mut b = builder(settings, &def)?;
                b.add_assertion("c2pa.hash.boxes", &bh)?;
                b.sign_box_hashed_embeddable(signer.as_ref(), "application/c2pa")
            })());
            let (ra, p) = block_on(async {
                let signer = async_twin(alg, yields);
                let mut b = builder(settings, &def)?;
                b.add_assertion("c2pa.hash.boxes", &bh)?;
                b.sign_box_hashed_embeddable_async(&signer, "application/c2pa").await
            });
            polls = p;
            (s, fin(ra))
        }
        // ingredient import through add_ingredient_from_stream(_async), then signed and read back
        "ingredient" => {
            let ing_fixture = case["ing_fixture"].as_str().unwrap_or("CA.jpg");
            let ing_format = case["ing_format"].as_str().unwrap_or("image/jpeg");
            let ing = tampered(case, e2e::fixture(ing_fixture));
            let ing_json = json!({"title": "ing", "relationship": case["relationship"].as_str().unwrap_or("componentOf")}).to_string();
            let fin = |b: &mut Builder| -> c2pa::Result<Vec<u8>> {
                let signer = e2e::signer(alg);
                let mut input = Cursor::new(src.clone());
                let mut out = Cursor::new(Vec::new());
                b.sign(signer.as_ref(), format, &mut input, &mut out)?;
                Ok(out.into_inner())
            };
            let s = (|| -> c2pa::Result<Vec<u8>> {
                let mut b = builder(settings, &def)?;
                b.add_ingredient_from_stream(ing_json.clone(), ing_format, &mut Cursor::new(ing.clone()))?;
                fin(&mut b)
            })();
            let (ra, p) = block_on(async {
                let mut b = builder(settings, &def)?;
                b.add_ingredient_from_stream_async(ing_json.clone(), ing_format, &mut Cursor::new(ing.clone())).await?;
                fin(&mut b)
            });
            polls = p;
            (outcome_of_signed(settings, format, s), outcome_of_signed(settings, format, ra))
        }
        // a builder archive (JUMBF working store) added as an ingredient through add_ingredient_from_archive(_async)
        "archive" => {
            let ing_fixture = case["ing_fixture"].as_str().unwrap_or("CA.jpg");
            let ing_format = case["ing_format"].as_str().unwrap_or("image/jpeg");
            let ing = e2e::fixture(ing_fixture);
            let make = || -> c2pa::Result<Vec<u8>> {
                let mut b = builder(settings, &def)?;
                b.add_ingredient_from_stream(json!({"title": "inner", "relationship": "parentOf"}).to_string(), ing_format, &mut Cursor::new(ing.clone()))?;
                let mut ar = Cursor::new(Vec::new());
                b.to_archive(&mut ar)?;
                Ok(ar.into_inner())
            };
            let archive = match make() {
                Ok(a) => tampered(case, a),
                Err(e) => return json!({"r": "setup_err", "kind": err_class(&e)}),
            };
            let fin = |b: &mut Builder| -> c2pa::Result<Vec<u8>> {
                let signer = e2e::signer(alg);
                let mut input = Cursor::new(src.clone());
                let mut out = Cursor::new(Vec::new());
                b.sign(signer.as_ref(), format, &mut input, &mut out)?;
                Ok(out.into_inner())
            };
            let s = (|| -> c2pa::Result<Vec<u8>> {
                let mut b = builder(settings, &def)?;
                b.add_ingredient_from_archive(&mut Cursor::new(archive.clone()))?;
                fin(&mut b)
            })();
            let (ra, p) = block_on(async {
                let mut b = builder(settings, &def)?;
                b.add_ingredient_from_archive_async(&mut Cursor::new(archive.clone())).await?;
                fin(&mut b)
            });
            polls = p;
            (outcome_of_signed(settings, format, s), outcome_of_signed(settings, format, ra))
        }
        // sidecar manifest: sign without embedding, then Reader::with_manifest_data_and_stream(_async)
        "sidecar" => {
            let signer = e2e::signer(alg);
            let made = (|| -> c2pa::Result<(Vec<u8>, Vec<u8>)> {
                let mut b = builder(settings, &def)?;
                b.set_no_embed(true);
                let mut input = Cursor::new(src.clone());
                let mut out = Cursor::new(Vec::new());
                let manifest = b.sign(signer.as_ref(), format, &mut input, &mut out)?;
                Ok((manifest, out.into_inner()))
            })();
            let (manifest, asset) = match made {
                Ok(x) => x,
                Err(e) => return json!({"r": "setup_err", "kind": err_class(&e)}),
            };
            let manifest = tampered(case, manifest);
            let s = match Reader::from_context(e2e::context(settings)).with_manifest_data_and_stream(&manifest, format, Cursor::new(asset.clone())) {
                Ok(r) => json!({"ok": {"shape": shape(&r), "json": e2e::stable_json(&r)}}),
                Err(e) => json!({"err": err_class(&e)}),
            };
            let (ra, p) = block_on(
                Reader::from_context(e2e::context(settings)).with_manifest_data_and_stream_async(&manifest, format, Cursor::new(asset.clone())),
            );
            polls = p;
            let a = match ra {
                Ok(r) => json!({"ok": {"shape": shape(&r), "json": e2e::stable_json(&r)}}),
                Err(e) => json!({"err": err_class(&e)}),
            };
            (s, a)
        }
        _ => return json!({"r": "bad_case"}),
    };
    json!({"r": "ok", "sync": s, "async": a, "polls": polls})
}
