//! C05 (and the shared engine for C06): arbitrary X.509 credentials against trust policy / profile checks.
//!
//! case: { chain: [pem..] (end-entity first), key: pem, alg: "es256"|..,
//!         e2e: bool, settings: {trust:{..}, verify:{..}} (JSON settings document for signing and reading),
//!         direct: { trust_anchors, user_anchors, allowed_list, trust_config : string|null,
//!                   anchors_only: bool, passthrough: bool, variant: "trust"|"profile"|"ignore",
//!                   tst: hex DER TSTInfo | null, signing_time: epoch | null } }
//! out:  { r, e2e: report | {err}, direct: { trust, profile:{res,log}, verify:{res,log} } }
use std::borrow::Cow;

use c2pa::{
    crypto::cose::{CertificateTrustPolicy, Verifier},
    status_tracker::StatusTracker,
    Context, Signer, SigningAlg,
};
use serde_json::{json, Value};

use crate::{e2e, util::*};


// ---------------------------------------------------------------------------------------------
// A signer that presents any certificate chain, signs with the given private key, and skips the
// pre-signing certificate-profile gate of `cose_sign` (through the add-only hook
// `c2pa::cose_sign::verif_cose_sign_unchecked`), so that non-conforming credentials reach the validator.

/// Raw half: signs bytes with the key, presents `chain` (DER, end-entity first).
pub struct RawChainSigner {
    inner: c2pa::BoxedSigner,
    chain: Vec<Vec<u8>>,
}

impl Signer for RawChainSigner {
    fn sign(&self, data: &[u8]) -> c2pa::Result<Vec<u8>> {
        self.inner.sign(data)
    }
    fn alg(&self) -> SigningAlg {
        self.inner.alg()
    }
    fn certs(&self) -> c2pa::Result<Vec<Vec<u8>>> {
        Ok(self.chain.clone())
    }
    fn reserve_size(&self) -> usize {
        20000 + self.chain.iter().map(|c| c.len()).sum::<usize>()
    }
}

impl RawChainSigner {
    /// COSE_Sign1 over `data` (detached payload, v2 time-stamp storage), padded to the reserve size.
    pub fn cose(&self, data: &[u8]) -> c2pa::Result<Vec<u8>> {
        c2pa::cose_sign::verif_cose_sign_unchecked(self, data, self.reserve_size(), true)
    }
    pub fn chain(&self) -> &[Vec<u8>] {
        &self.chain
    }
}

/// Builder-facing half: `direct_cose_handling`, returns the finished COSE_Sign1.
pub struct ChainSigner(pub RawChainSigner);

impl Signer for ChainSigner {
    fn sign(&self, data: &[u8]) -> c2pa::Result<Vec<u8>> {
        self.0.cose(data)
    }
    fn alg(&self) -> SigningAlg {
        self.0.alg()
    }
    fn certs(&self) -> c2pa::Result<Vec<Vec<u8>>> {
        self.0.certs()
    }
    fn reserve_size(&self) -> usize {
        self.0.reserve_size()
    }
    fn direct_cose_handling(&self) -> bool {
        true
    }
}

/// `chain_pem`: concatenated PEM certificates, end-entity first; `key_pem`: PKCS#8 private key.
pub fn raw_chain_signer(chain_pem: &[u8], key_pem: &[u8], alg: &str) -> c2pa::Result<RawChainSigner> {
    let inner = c2pa::create_signer::from_keys(chain_pem, key_pem, e2e::alg_of(alg), None)?;
    let chain = inner.certs()?;
    Ok(RawChainSigner { inner, chain })
}

fn class<E: std::fmt::Debug>(e: &E) -> String {
    let d = format!("{:?}", e);
    let end = d.find(|c: char| !(c.is_alphanumeric() || c == '_')).unwrap_or(d.len());
    d[..end].to_string()
}

fn log_codes(log: &StatusTracker) -> Value {
    let v: Vec<Value> = log
        .logged_items()
        .iter()
        .filter_map(|i| i.validation_status.as_ref().map(|s| json!([format!("{:?}", i.kind), s.to_string(), i.description.to_string()])))
        .collect();
    json!(v)
}

fn build_ctp(d: &Value) -> CertificateTrustPolicy {
    // mirrors Store::new() + Store::from_context(): default policy, then the four trust settings
    let mut ctp = if d["passthrough"].as_bool().unwrap_or(false) {
        CertificateTrustPolicy::passthrough()
    } else {
        CertificateTrustPolicy::default()
    };
    if let Some(s) = d["trust_anchors"].as_str() {
        let _ = ctp.add_trust_anchors(s.as_bytes());
    }
    if let Some(s) = d["user_anchors"].as_str() {
        let _ = ctp.add_user_trust_anchors(s.as_bytes());
    }
    if let Some(s) = d["trust_config"].as_str() {
        ctp.add_valid_ekus(s.as_bytes());
    }
    if let Some(s) = d["allowed_list"].as_str() {
        let _ = ctp.add_end_entity_credentials(s.as_bytes());
    }
    if d["anchors_only"].as_bool().unwrap_or(false) {
        ctp.set_trust_anchors_only(true);
    }
    ctp
}

pub fn engine(case: &Value) -> Value {
    let chain_pem: String = case["chain"]
        .as_array()
        .map(|a| a.iter().map(|p| p.as_str().unwrap_or("").to_string()).collect::<Vec<_>>().join("\n"))
        .unwrap_or_default();
    let key = case["key"].as_str().unwrap_or("");
    let alg = case["alg"].as_str().unwrap_or("es256");
    let raw = match raw_chain_signer(chain_pem.as_bytes(), key.as_bytes(), alg) {
        Ok(s) => s,
        Err(e) => return json!({"r": "signer-err", "kind": err_class(&e), "detail": e.to_string()}),
    };
    let chain: Vec<Vec<u8>> = raw.chain().to_vec();
    if chain.is_empty() {
        return json!({"r": "nochain"});
    }
    let mut out = json!({"r": "ok"});

    // ------------------------------------------------------------ direct (function level)
    if case["direct"].is_object() {
        let d = &case["direct"];
        let ctp = build_ctp(d);
        let tst: Option<Vec<u8>> = d["tst"].as_str().map(|h| hex::decode(h).expect("hex"));
        let st: Option<i64> = d["signing_time"].as_i64();
        let trust = match ctp.check_certificate_trust(&chain[1..], &chain[0], st) {
            Ok(t) => format!("{:?}", t),
            Err(e) => format!("Err:{}", class(&e)),
        };
        let mut plog = StatusTracker::default();
        let pres = match c2pa::verif_hooks::c06::profile_with_tst(&chain[0], &ctp, &mut plog, tst.as_deref()) {
            Ok(()) => "Ok".to_string(),
            Err(e) => format!("Err:{}", class(&e)),
        };
        let verifier = match d["variant"].as_str().unwrap_or("trust") {
            "profile" => Verifier::VerifyCertificateProfileOnly(Cow::Borrowed(&ctp)),
            "ignore" => Verifier::IgnoreProfileAndTrustPolicy,
            _ => Verifier::VerifyTrustPolicy(Cow::Borrowed(&ctp)),
        };
        let data = b"verif payload".to_vec();
        let verify = match raw.cose(&data) {
            Ok(cose) => {
                let mut vlog = StatusTracker::default();
                let res = match c2pa::verif_hooks::c06::verify_signature_with_tst(&verifier, &cose, &data, b"", tst.as_deref(), &mut vlog) {
                    Ok(ci) => format!("Ok:{}", ci.validated),
                    Err(e) => format!("Err:{}", class(&e)),
                };
                json!({"res": res, "log": log_codes(&vlog)})
            }
            Err(e) => json!({"res": format!("SignErr:{}", err_class(&e)), "log": []}),
        };
        out["direct"] = json!({"trust": trust, "profile": {"res": pres, "log": log_codes(&plog)}, "verify": verify});
    }

    // ------------------------------------------------------------ end to end (sign into an asset, read back)
    if case["e2e"].as_bool().unwrap_or(false) {
        let settings = case["settings"].to_string();
        let mk = || Context::new().with_settings(settings.as_str());
        let src = e2e::fixture("libpng-test.png");
        out["e2e"] = match mk() {
            Err(e) => json!({"err": err_class(&e), "stage": "settings", "detail": e.to_string()}),
            Ok(ctx) => {
                let signer = ChainSigner(raw);
                match e2e::sign(ctx, &e2e::minimal_manifest("c05"), "image/png", &src, &signer) {
                    Err(e) => json!({"err": err_class(&e), "stage": "sign", "detail": e.to_string()}),
                    Ok(bytes) => match mk().and_then(|c| e2e::read(c, "image/png", &bytes)) {
                        Ok(r) => e2e::report(&r),
                        Err(e) => json!({"err": err_class(&e), "stage": "read", "detail": e.to_string()}),
                    },
                }
            }
        };
    }
    out
}

pub fn run(case: &Value) -> Value {
    engine(case)
}
