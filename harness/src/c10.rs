//! C10: untrusted input never crashes, hangs or exhausts memory.
//! Every case is timed and its heap use is counted (a counting global allocator that is switched on only
//! while a C10 case runs; for every other property it costs one relaxed load per allocation).
//! ops (input bytes: `path` | `fixture` | `data` hex):
//!   {op:"jumbf"}                     BoxReader::read_super_box on a Cursor (helper thread; "hang" after hang_cpu_ms (3000) ms of CPU without an answer)
//!   {op:"png"}                       png_io::get_png_chunk_positions + read_cai("png")
//!   {op:"bmff"}                      BMFFArena::from_stream (read_ftyp_box + build_bmff_tree)
//!   {op:"read", hint}                Reader::from_context(test settings).with_stream(hint, bytes)
//!   {op:"ingredient", hint}          Builder::add_ingredient_from_stream
//!   {op:"archive"}                   Builder::with_archive
//!   {op:"store"}                     Store::from_jumbf
//!   {op:"cai", hint}                 jumbf_io::load_jumbf_from_memory(hint, bytes)  (the handler named by the hint, no sniffing)
//!   {op:"sign", fmt, out, settings?} sign the input with a minimal manifest and write the asset to `out`
//!   {op:"extract", hint, out}        write the manifest store of the input to `out`
//! every result carries ms (wall), cpu_ms (process cpu), peak (bytes of heap above the level at case start,
//! the copy of the input included), maxreq (largest single allocation request)
use std::alloc::{GlobalAlloc, Layout, System};
use std::io::Cursor;
use std::sync::atomic::{AtomicBool, AtomicIsize, AtomicUsize, Ordering::Relaxed};
use std::sync::mpsc;
use std::time::{Duration, Instant};

use c2pa::verif_hooks::c10::*;
use c2pa::{Builder, Reader};
use serde_json::{json, Value};

use crate::{e2e, util::*};

// ---------------------------------------------------------------- counting allocator

pub struct Counting;
static ON: AtomicBool = AtomicBool::new(false);
static CUR: AtomicIsize = AtomicIsize::new(0);
static PEAK: AtomicIsize = AtomicIsize::new(0);
static MAXREQ: AtomicUsize = AtomicUsize::new(0);

#[inline]
fn grow(n: usize) {
    let c = CUR.fetch_add(n as isize, Relaxed) + n as isize;
    PEAK.fetch_max(c, Relaxed);
    MAXREQ.fetch_max(n, Relaxed);
}

unsafe impl GlobalAlloc for Counting {
    unsafe fn alloc(&self, l: Layout) -> *mut u8 {
        if ON.load(Relaxed) {
            // count the request before it is served: a refused (null) request is still a request
            grow(l.size());
            let p = System.alloc(l);
            if p.is_null() {
                CUR.fetch_sub(l.size() as isize, Relaxed);
            }
            p
        } else {
            System.alloc(l)
        }
    }

    unsafe fn alloc_zeroed(&self, l: Layout) -> *mut u8 {
        if ON.load(Relaxed) {
            grow(l.size());
            let p = System.alloc_zeroed(l);
            if p.is_null() {
                CUR.fetch_sub(l.size() as isize, Relaxed);
            }
            p
        } else {
            System.alloc_zeroed(l)
        }
    }

    unsafe fn dealloc(&self, p: *mut u8, l: Layout) {
        if ON.load(Relaxed) {
            CUR.fetch_sub(l.size() as isize, Relaxed);
        }
        System.dealloc(p, l)
    }

    unsafe fn realloc(&self, p: *mut u8, l: Layout, new_size: usize) -> *mut u8 {
        if ON.load(Relaxed) {
            if new_size > l.size() {
                grow(new_size - l.size());
                MAXREQ.fetch_max(new_size, Relaxed);
            } else {
                CUR.fetch_sub((l.size() - new_size) as isize, Relaxed);
            }
            let q = System.realloc(p, l, new_size);
            if q.is_null() {
                CUR.fetch_add(l.size() as isize - new_size as isize, Relaxed);
            }
            q
        } else {
            System.realloc(p, l, new_size)
        }
    }
}

#[global_allocator]
static GLOBAL: Counting = Counting;

fn cpu_ms() -> u64 {
    // utime + stime of the whole process, in clock ticks (100 Hz on Linux)
    let s = std::fs::read_to_string("/proc/self/stat").unwrap_or_default();
    let after = s.rsplit(')').next().unwrap_or("");
    let f: Vec<&str> = after.split_whitespace().collect();
    // after the ')' the fields start at index 0 = state; utime = field 14 overall = index 11 here
    let ut: u64 = f.get(11).and_then(|x| x.parse().ok()).unwrap_or(0);
    let st: u64 = f.get(12).and_then(|x| x.parse().ok()).unwrap_or(0);
    (ut + st) * 10
}

// ---------------------------------------------------------------- helpers

fn load(case: &Value) -> Vec<u8> {
    if let Some(p) = case["path"].as_str() {
        std::fs::read(p).unwrap_or_else(|e| panic!("read {p}: {e}"))
    } else if let Some(f) = case["fixture"].as_str() {
        e2e::fixture(f)
    } else {
        hexd(&case["data"])
    }
}

fn perr(e: &JumbfParseError) -> String {
    let d = format!("{:?}", e);
    let end = d.find(|c: char| !(c.is_alphanumeric() || c == '_')).unwrap_or(d.len());
    d[..end].to_string()
}

fn err_json(e: &c2pa::Error) -> Value {
    // by characters: the message may contain multi-byte replacement characters (String::truncate panics off a boundary)
    let d: String = format!("{e}").chars().take(160).collect();
    json!({"r": "err", "kind": err_class(e), "detail": d})
}

/// (number of boxes in the tree, super boxes included; bytes retained in content-box buffers)
fn count(sb: &JUMBFSuperBox) -> (u64, u64) {
    let mut boxes = 1u64;
    let mut payload = 0u64;
    for i in 0..sb.data_box_count() {
        let b = sb.data_box(i).expect("child");
        let a = b.as_any();
        if let Some(s) = a.downcast_ref::<JUMBFSuperBox>() {
            let (n, p) = count(s);
            boxes += n;
            payload += p;
            continue;
        }
        boxes += 1;
        payload += if let Some(x) = a.downcast_ref::<JUMBFJSONContentBox>() {
            x.json().len()
        } else if let Some(x) = a.downcast_ref::<JUMBFCBORContentBox>() {
            x.cbor().len()
        } else if let Some(x) = a.downcast_ref::<JUMBFPaddingContentBox>() {
            x.verif_raw().len()
        } else if let Some(x) = a.downcast_ref::<JUMBFCodestreamContentBox>() {
            x.data().len()
        } else if let Some(x) = a.downcast_ref::<JUMBFBrotliContentBox>() {
            x.data().len()
        } else if let Some(x) = a.downcast_ref::<JUMBFUUIDContentBox>() {
            x.data().len()
        } else if let Some(x) = a.downcast_ref::<JUMBFEmbeddedFileDescriptionBox>() {
            let (_, mt, f) = x.verif_raw();
            mt.len() + f.map(|v| v.len()).unwrap_or(0)
        } else if let Some(x) = a.downcast_ref::<JUMBFEmbeddedFileContentBox>() {
            x.data().len()
        } else {
            0
        } as u64;
    }
    (boxes, payload)
}

fn op_jumbf(data: Vec<u8>, hang_cpu_ms: u64) -> Value {
    let (tx, rx) = mpsc::channel();
    std::thread::Builder::new()
        .stack_size(64 << 20)
        .spawn(move || {
            let r = std::panic::catch_unwind(|| {
                let mut cur = Cursor::new(&data[..]);
                match BoxReader::read_super_box(&mut cur) {
                    Ok(sb) => {
                        let (boxes, payload) = count(&sb);
                        json!({"r": "ok", "pos": cur.position(), "boxes": boxes, "payload": payload})
                    }
                    Err(e) => json!({"r": "err", "kind": perr(&e)}),
                }
            });
            let _ = tx.send(match r {
                Ok(v) => v,
                Err(e) => {
                    let msg = e
                        .downcast_ref::<String>()
                        .cloned()
                        .or_else(|| e.downcast_ref::<&str>().map(|s| s.to_string()))
                        .unwrap_or_default();
                    json!({"r": "panic", "msg": msg})
                }
            });
        })
        .expect("spawn");
    // a parse that never ends burns CPU; a parse that is merely starved by a loaded machine does not: the verdict
    // "hang" is given on CPU time consumed by this process since the parse started (wall time only as a backstop)
    let c0 = cpu_ms();
    let t0 = Instant::now();
    loop {
        match rx.recv_timeout(Duration::from_millis(100)) {
            Ok(v) => return v,
            Err(mpsc::RecvTimeoutError::Disconnected) => return json!({"r": "crash", "msg": "parser thread vanished"}),
            Err(mpsc::RecvTimeoutError::Timeout) => {
                if cpu_ms().saturating_sub(c0) > hang_cpu_ms || t0.elapsed() > Duration::from_secs(600) {
                    return json!({"r": "hang", "cpu_spent_ms": cpu_ms().saturating_sub(c0)});
                }
            }
        }
    }
}

fn op_png(data: &[u8]) -> Value {
    match verif_png_chunk_positions(data) {
        Ok(ps) => {
            let mut out = json!({"r": "ok", "chunks": ps.len(),
                                 "end": ps.last().map(|p| p.0 + p.1 as u64 + 12).unwrap_or(8)});
            match verif_read_cai("png", data) {
                Ok(v) => out["cai"] = json!(v.len()),
                Err(e) => out["cai_err"] = json!(err_class(&e)),
            }
            out
        }
        Err(e) => err_json(&e),
    }
}

fn op_bmff(data: &[u8]) -> Value {
    match verif_bmff_tree(data) {
        Ok(nodes) => {
            let n = nodes.len();
            let shown: Vec<Value> = nodes.iter().take(64).map(|(o, s)| json!([o, s])).collect();
            json!({"r": "ok", "nodes": n, "list": shown})
        }
        Err(e) => err_json(&e),
    }
}

fn dispatch(case: &Value) -> Value {
    let op = case["op"].as_str().unwrap_or("read");
    let hint = case["hint"].as_str().unwrap_or("");
    match op {
        "jumbf" => op_jumbf(load(case), case["hang_cpu_ms"].as_u64().unwrap_or(3000)),
        "png" => op_png(&load(case)),
        "bmff" => op_bmff(&load(case)),
        "read" => {
            let bytes = load(case);
            match Reader::from_context(e2e::context(None)).with_stream(hint, Cursor::new(bytes)) {
                Ok(r) => {
                    // rendering the report is part of "reading"
                    let j = r.json();
                    json!({"r": "ok", "state": format!("{:?}", r.validation_state()), "json_len": j.len()})
                }
                Err(e) => err_json(&e),
            }
        }
        "ingredient" => {
            let bytes = load(case);
            let mut b = match Builder::from_context(e2e::context(None)).with_definition(e2e::minimal_manifest("c10")) {
                Ok(b) => b,
                Err(e) => return json!({"r": "setup-failed", "detail": format!("{e}")}),
            };
            let mut s = Cursor::new(bytes);
            let r = b.add_ingredient_from_stream(json!({"title": "ing", "relationship": "componentOf"}).to_string(), hint, &mut s);
            match r {
                Ok(_) => json!({"r": "ok"}),
                Err(e) => err_json(&e),
            }
        }
        "archive" => {
            let bytes = load(case);
            match Builder::from_context(e2e::context(None)).with_archive(Cursor::new(bytes)) {
                Ok(_) => json!({"r": "ok"}),
                Err(e) => err_json(&e),
            }
        }
        "store" => match verif_store_from_jumbf(&load(case)) {
            Ok(n) => json!({"r": "ok", "claims": n}),
            Err(e) => err_json(&e),
        },
        "cai" => match c2pa::jumbf_io::load_jumbf_from_memory(hint, &load(case)) {
            Ok(v) => json!({"r": "ok", "len": v.len()}),
            Err(e) => err_json(&e),
        },
        "sign" => {
            let src = load(case);
            let fmt = case["fmt"].as_str().expect("fmt");
            let signer = e2e::signer("ed25519");
            let settings = case["settings"].as_str();
            match e2e::sign(e2e::context(settings), &e2e::minimal_manifest("c10"), fmt, &src, signer.as_ref()) {
                Ok(out) => {
                    std::fs::write(case["out"].as_str().expect("out"), &out).expect("write");
                    json!({"r": "ok", "len": out.len()})
                }
                Err(e) => err_json(&e),
            }
        }
        "extract" => match c2pa::jumbf_io::load_jumbf_from_memory(hint, &load(case)) {
            Ok(v) => {
                std::fs::write(case["out"].as_str().expect("out"), &v).expect("write");
                json!({"r": "ok", "len": v.len()})
            }
            Err(e) => err_json(&e),
        },
        other => json!({"r": "bad-op", "op": other}),
    }
}

pub fn run(case: &Value) -> Value {
    let t0 = Instant::now();
    let c0 = cpu_ms();
    let base = CUR.load(Relaxed);
    PEAK.store(base, Relaxed);
    MAXREQ.store(0, Relaxed);
    ON.store(true, Relaxed);
    let res = std::panic::catch_unwind(std::panic::AssertUnwindSafe(|| dispatch(case)));
    ON.store(false, Relaxed);
    let peak = (PEAK.load(Relaxed) - base).max(0) as u64;
    let maxreq = MAXREQ.load(Relaxed) as u64;
    let mut v = match res {
        Ok(v) => v,
        Err(e) => {
            let msg = e
                .downcast_ref::<String>()
                .cloned()
                .or_else(|| e.downcast_ref::<&str>().map(|s| s.to_string()))
                .unwrap_or_else(|| "panic".to_string());
            json!({"r": "panic", "msg": msg})
        }
    };
    v["ms"] = json!(t0.elapsed().as_millis() as u64);
    v["cpu_ms"] = json!(cpu_ms().saturating_sub(c0));
    v["peak"] = json!(peak);
    v["maxreq"] = json!(maxreq);
    // main.rs buffers stdout until exit: a later case that kills the process would take this answer with it,
    // so it is also appended (unbuffered) to the side file named by C10_OUT
    if let Ok(p) = std::env::var("C10_OUT") {
        use std::io::Write;
        if let Ok(mut f) = std::fs::OpenOptions::new().append(true).create(true).open(p) {
            let mut w = v.clone();
            w["id"] = case.get("id").cloned().unwrap_or(Value::Null);
            let _ = writeln!(f, "{}", w);
        }
    }
    v
}
