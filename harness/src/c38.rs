//! C38: histories of operations in one process; every produced asset is re-read at the end, and the first signing
//! operation is repeated at the end.
//! case (history): {mode:"history", dir, final_settings?, ops:[{op:"sign"|"read"|"ingredient"|"archive"|"legacy_settings", ...}]}
//!   sign:       {fixture, format, alg, def, settings?}                      -> a new asset (slot = number of assets so far)
//!   ingredient: {fixture, format, alg, def, settings?, ing:{fixture|slot, format}, relationship}   -> a new asset
//!   archive:    {fixture, format, alg, def, settings?, ing:{fixture|slot, format}}                 -> a new asset
//!   read:       {src:{fixture|slot, format}, settings?, tamper?}
//!   legacy_settings: {json}     (the deprecated thread-local entry point Settings::from_string)
//! result: {"r":"ok", "assets":[{slot, path, format, first, final}], "reads":[...], "resign":{first, again}|null, "trace":[op outcome..]}
//! case (fresh): {mode:"fresh", path, format, settings?}  -> {"r":"ok", "json": stable report}
use std::io::Cursor;

use c2pa::{Builder, Reader};
use serde_json::{json, Value};

use crate::{c40::shape, e2e, util::*};

fn settings_of(v: &Value) -> Option<String> {
    v.get("settings").filter(|s| !s.is_null()).map(|s| s.to_string())
}

fn read_report(settings: Option<&str>, format: &str, bytes: &[u8]) -> Value {
    match Reader::from_context(e2e::context(settings)).with_stream(format, Cursor::new(bytes.to_vec())) {
        Ok(r) => json!({"ok": e2e::stable_json(&r), "state": format!("{:?}", r.validation_state())}),
        Err(e) => json!({"err": err_class(&e)}),
    }
}

struct Asset {
    bytes: Vec<u8>,
    format: String,
    first: Value,
}

fn source_of(v: &Value, assets: &[Asset]) -> Option<(Vec<u8>, String)> {
    if let Some(s) = v.get("slot").and_then(|s| s.as_u64()) {
        let a = assets.get(s as usize)?;
        Some((a.bytes.clone(), a.format.clone()))
    } else {
        let fx = v.get("fixture")?.as_str()?;
        Some((e2e::fixture(fx), v["format"].as_str().unwrap_or("image/jpeg").to_string()))
    }
}

fn tamper(op: &Value, mut bytes: Vec<u8>) -> Vec<u8> {
    if let Some(ts) = op["tamper"].as_array() {
        for t in ts {
            if !bytes.is_empty() {
                let n = bytes.len();
                bytes[(u64_of(&t[0]) as usize) % n] ^= u64_of(&t[1]) as u8;
            }
        }
    }
    bytes
}

/// one signing-type operation; returns the signed bytes
fn produce(op: &Value, assets: &[Asset]) -> c2pa::Result<Vec<u8>> {
    let settings = settings_of(op);
    let settings = settings.as_deref();
    let kind = op["op"].as_str().unwrap_or("sign");
    let format = op["format"].as_str().unwrap_or("image/jpeg");
    let src = e2e::fixture(op["fixture"].as_str().unwrap_or("earth_apollo17.jpg"));
    let def = op["def"].to_string();
    let signer = e2e::signer(op["alg"].as_str().unwrap_or("ed25519"));
    let mut b = Builder::from_context(e2e::context(settings)).with_definition(def.as_str())?;
    if kind == "ingredient" || kind == "archive" {
        let (ib, ifmt) = source_of(&op["ing"], assets).ok_or(c2pa::Error::BadParam("no such ingredient source".into()))?;
        let ij = json!({"title": "ing", "relationship": op["relationship"].as_str().unwrap_or("componentOf")}).to_string();
        b.add_ingredient_from_stream(ij, &ifmt, &mut Cursor::new(ib))?;
    }
    if kind == "archive" {
        let mut ar = Cursor::new(Vec::new());
        b.to_archive(&mut ar)?;
        ar.set_position(0);
        b = Builder::from_context(e2e::context(settings)).with_archive(ar)?;
    }
    let mut input = Cursor::new(src);
    let mut out = Cursor::new(Vec::new());
    b.sign(signer.as_ref(), format, &mut input, &mut out)?;
    Ok(out.into_inner())
}

fn sign_shape(settings: Option<&str>, format: &str, r: &c2pa::Result<Vec<u8>>) -> Value {
    match r {
        Ok(bytes) => match e2e::read(e2e::context(settings), format, bytes) {
            Ok(rd) => json!({"ok": shape(&rd)}),
            Err(e) => json!({"unreadable": err_class(&e)}),
        },
        Err(e) => json!({"err": err_class(e)}),
    }
}

pub fn run(case: &Value) -> Value {
    if case["mode"].as_str() == Some("fresh") {
        let bytes = match std::fs::read(case["path"].as_str().unwrap_or("")) {
            Ok(b) => b,
            Err(e) => return json!({"r": "io", "msg": e.to_string()}),
        };
        let s = settings_of(case);
        return json!({"r": "ok", "json": read_report(s.as_deref(), case["format"].as_str().unwrap_or("image/jpeg"), &bytes)});
    }
    let dir = case["dir"].as_str().unwrap_or("/tmp").to_string();
    let _ = std::fs::create_dir_all(&dir);
    let final_settings = case.get("final_settings").filter(|s| !s.is_null()).map(|s| s.to_string());
    let mut assets: Vec<Asset> = vec![];
    let mut reads: Vec<Value> = vec![];
    let mut trace: Vec<Value> = vec![];
    let mut first_sign: Option<(Value, Value)> = None; // (op, shape)
    for op in case["ops"].as_array().cloned().unwrap_or_default() {
        match op["op"].as_str().unwrap_or("") {
            "legacy_settings" => {
                #[allow(deprecated)]
                let r = c2pa::settings::Settings::from_string(&op["json"].to_string(), "json");
                trace.push(json!({"op": "legacy_settings", "ok": r.is_ok()}));
            }
            "read" => {
                let s = settings_of(&op);
                match source_of(&op["src"], &assets) {
                    Some((bytes, fmt)) => {
                        let bytes = tamper(&op, bytes);
                        let rep = read_report(s.as_deref(), &fmt, &bytes);
                        trace.push(json!({"op": "read", "out": rep.get("state").cloned().unwrap_or(rep["err"].clone())}));
                        let path = format!("{dir}/read_{}", reads.len());
                        let _ = std::fs::write(&path, &bytes);
                        reads.push(json!({"path": path, "format": fmt, "settings": op.get("settings").cloned().unwrap_or(Value::Null), "report": rep}));
                    }
                    None => trace.push(json!({"op": "read", "out": "no-source"})),
                }
            }
            _ => {
                let s = settings_of(&op);
                let format = op["format"].as_str().unwrap_or("image/jpeg").to_string();
                let r = produce(&op, &assets);
                let sh = sign_shape(s.as_deref(), &format, &r);
                if first_sign.is_none() && op["op"].as_str() == Some("sign") {
                    first_sign = Some((op.clone(), sh.clone()));
                }
                trace.push(json!({"op": op["op"], "out": if r.is_ok() { json!("signed") } else { sh["err"].clone() }}));
                if let Ok(bytes) = r {
                    let first = read_report(final_settings.as_deref(), &format, &bytes);
                    assets.push(Asset { bytes, format, first });
                }
            }
        }
    }
    // the end of the history: re-read everything, repeat the first signing operation
    let mut out_assets = vec![];
    for (i, a) in assets.iter().enumerate() {
        let path = format!("{dir}/asset_{i}");
        let _ = std::fs::write(&path, &a.bytes);
        let fin = read_report(final_settings.as_deref(), &a.format, &a.bytes);
        out_assets.push(json!({"slot": i, "path": path, "format": a.format, "first": a.first, "final": fin}));
    }
    let resign = first_sign.map(|(op, sh)| {
        let s = settings_of(&op);
        let r = produce(&op, &[]);
        json!({"first": sh, "again": sign_shape(s.as_deref(), op["format"].as_str().unwrap_or("image/jpeg"), &r)})
    });
    json!({"r": "ok", "assets": out_assets, "reads": reads, "resign": resign, "trace": trace})
}
