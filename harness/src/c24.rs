//! C24: contexts are isolated and safe to share across threads.
//!
//! case: {contexts:[{settings:{..}, signer_alg:"es256"|null}], threads:[[op..]..], assets:{name:{fixture,fmt}}}
//!   op: {op:"read", ctx, asset}            Reader::from_shared_context(ctx).with_stream
//!       {op:"sign", ctx, asset, title}     Builder::from_shared_context(ctx) + ctx.signer()
//!       {op:"cancel", ctx} {op:"check", ctx}
//!       {op:"signer", ctx} {op:"resolver", ctx}      the write-once cells (address of what they return)
//!       {op:"builder", json|toml|path+value|path+table+patch[+set]}   Settings builder API (must not touch the thread-local settings)
//!       {op:"resolve", ctx, uri}                     one GET through Context::resolver() (allow-list of that context)
//!       {op:"tls_set", toml}  {op:"tls_get"}         legacy thread-local entry points
//!       {op:"legacy_read", asset}                    deprecated Reader::from_stream (reads the thread-local settings)
//!     every op: pre_us (sleep before), yields (thread::yield_now calls before)
//! The harness runs the programs twice on freshly built contexts: `conc` = one OS thread per program, all released by
//! a barrier; `seq` = the same programs one OS thread after the other (each joined before the next starts).
//! out: {r, conc:{ops:[{t,i,start,end,res}], final:[{cancelled}], tls:[digest per thread]}, seq:{..}}
use std::{
    io::Cursor,
    sync::{
        atomic::{AtomicUsize, Ordering},
        Arc, Barrier,
    },
};

use c2pa::{Builder, Context, Reader, Settings};
use serde_json::{json, Value};

use crate::{e2e, util::*};

fn sha(b: &[u8]) -> String {
    let d = c2pa::hash_stream_by_alg("sha256", &mut Cursor::new(b.to_vec()), None, true).unwrap_or_default();
    hex::encode(&d[..8.min(d.len())])
}

fn make_context(spec: &Value) -> Arc<Context> {
    let mut s = spec["settings"].clone();
    if !s.is_object() {
        s = json!({});
    }
    if let Some(alg) = spec["signer_alg"].as_str() {
        let cert = String::from_utf8(e2e::fixture(&format!("certs/{alg}.pub"))).expect("utf8");
        let key = String::from_utf8(e2e::fixture(&format!("certs/{alg}.pem"))).expect("utf8");
        s["signer"] = json!({"local": {"alg": alg, "sign_cert": cert, "private_key": key}});
    } else if spec["no_signer"].as_bool().unwrap_or(false) {
        s["signer"] = Value::Null;
    }
    Arc::new(e2e::context_merged(Some(&s.to_string())))
}

#[allow(deprecated)]
fn tls_digest() -> String {
    match Settings::to_toml() {
        Ok(t) => sha(t.as_bytes()),
        Err(e) => format!("err:{}", err_class(&e)),
    }
}

fn read_summary(r: &Reader) -> Value {
    let rep = e2e::report(r);
    json!({"k": "ok", "state": rep["state"], "failure": rep["failure"], "digest": sha(e2e::stable_json(r).to_string().as_bytes())})
}

fn err_value(e: &c2pa::Error) -> Value {
    json!({"k": "err", "kind": err_class(e)})
}

fn signed_summary(fmt: &str, bytes: &[u8]) -> Value {
    // read back with a neutral context, outside the timed section
    match e2e::read(e2e::context_merged(None), fmt, bytes) {
        Ok(r) => {
            let v = e2e::stable_json(&r);
            let active = r.active_label().unwrap_or("").to_string();
            let m = &v["manifests"][&active];
            let mut labels: Vec<String> = m["assertions"].as_array().map(|a| a.iter().map(|x| x["label"].as_str().unwrap_or("").to_string()).collect()).unwrap_or_default();
            labels.sort();
            let cgi: Vec<String> = m["claim_generator_info"].as_array().map(|a| a.iter().map(|x| x["name"].as_str().unwrap_or("").to_string()).collect()).unwrap_or_default();
            json!({"k": "ok", "state": format!("{:?}", r.validation_state()), "title": m["title"], "labels": labels, "cgi": cgi,
                   "alg": m["signature_info"]["alg"], "thumbnail": !m["thumbnail"].is_null(), "failure": e2e::report(&r)["failure"]})
        }
        Err(e) => json!({"k": "unreadable", "kind": err_class(&e)}),
    }
}

struct Env {
    ctxs: Vec<Arc<Context>>,
    assets: std::collections::HashMap<String, (String, Arc<Vec<u8>>)>,
    ticket: AtomicUsize,
}

enum Pending {
    Done(Value),
    Signed(String, Vec<u8>),
}

#[allow(deprecated)]
fn do_op(env: &Env, op: &Value) -> Pending {
    let ctx = env.ctxs.get(op["ctx"].as_u64().unwrap_or(0) as usize);
    let asset = |name: &Value| env.assets.get(name.as_str().unwrap_or("")).cloned().expect("asset");
    let v = match op["op"].as_str().unwrap_or("") {
        "read" => {
            let (fmt, bytes) = asset(&op["asset"]);
            match Reader::from_shared_context(ctx.expect("ctx")).with_stream(&fmt, Cursor::new(bytes.as_ref().clone())) {
                Ok(r) => read_summary(&r),
                Err(e) => err_value(&e),
            }
        }
        "legacy_read" => {
            let (fmt, bytes) = asset(&op["asset"]);
            match Reader::from_stream(&fmt, Cursor::new(bytes.as_ref().clone())) {
                Ok(r) => read_summary(&r),
                Err(e) => err_value(&e),
            }
        }
        "sign" => {
            let (fmt, bytes) = asset(&op["asset"]);
            let ctx = ctx.expect("ctx");
            let res: c2pa::Result<Vec<u8>> = (|| {
                let signer = ctx.signer()?;
                let mut b = Builder::from_shared_context(ctx).with_definition(e2e::minimal_manifest(op["title"].as_str().unwrap_or("c24")))?;
                let mut input = Cursor::new(bytes.as_ref().clone());
                let mut out = Cursor::new(Vec::new());
                b.sign(signer, &fmt, &mut input, &mut out)?;
                Ok(out.into_inner())
            })();
            match res {
                Ok(b) => return Pending::Signed(fmt, b),
                Err(e) => err_value(&e),
            }
        }
        "cancel" => {
            ctx.expect("ctx").cancel();
            json!({"k": "unit"})
        }
        "check" => json!({"k": "flag", "cancelled": ctx.expect("ctx").is_cancelled()}),
        "signer" => match ctx.expect("ctx").signer() {
            Ok(s) => json!({"k": "cell", "addr": (s as *const dyn c2pa::Signer as *const u8 as usize).to_string(), "alg": format!("{:?}", s.alg())}),
            Err(e) => err_value(&e),
        },
        "resolver" => {
            let r = ctx.expect("ctx").resolver();
            json!({"k": "cell", "addr": (Arc::as_ptr(&r) as *const u8 as usize).to_string()})
        }
        "builder" => {
            let before = tls_digest();
            let res = if op["table"].as_bool().unwrap_or(false) {
                // a whole section (JSON table): the default section with the patch applied
                let mut v = serde_json::to_value(Settings::new()).unwrap_or(Value::Null);
                for seg in op["path"].as_str().unwrap_or("").split('.') {
                    v = v[seg].clone();
                }
                if let (Some(o), Some(pm)) = (v.as_object_mut(), op["patch"].as_object()) {
                    for (k, x) in pm {
                        o.insert(k.clone(), x.clone());
                    }
                }
                if op["set"].as_bool().unwrap_or(false) {
                    let mut s = Settings::new();
                    s.set_value(op["path"].as_str().unwrap_or(""), v).map(|_| s)
                } else {
                    Settings::new().with_value(op["path"].as_str().unwrap_or(""), v)
                }
            } else if let Some(j) = op["json"].as_str() {
                Settings::new().with_json(j)
            } else if let Some(t) = op["toml"].as_str() {
                Settings::new().with_toml(t)
            } else {
                Settings::new().with_value(op["path"].as_str().unwrap_or(""), op["value"].clone())
            };
            let after = tls_digest();
            match res {
                Ok(s) => json!({"k": "settings", "digest": sha(serde_json::to_string(&s).unwrap_or_default().as_bytes()), "tls_same": before == after}),
                Err(e) => json!({"k": "err", "kind": err_class(&e), "tls_same": before == after}),
            }
        }
        "resolve" => {
            // one request through the context's own default resolver stack (allow-list refusals happen before any I/O;
            // an allowed request goes to a closed loopback port and fails fast)
            use c2pa::http::SyncHttpResolver;
            let req = c2pa::http::http::Request::builder().method("GET").uri(op["uri"].as_str().unwrap_or("http://127.0.0.1:1/x")).body(Vec::new()).expect("request");
            match ctx.expect("ctx").resolver().http_resolve(req) {
                Ok(r) => json!({"k": "http", "disallowed": false, "class": format!("status{}", r.status().as_u16())}),
                Err(e) => {
                    let d = format!("{e:?}");
                    let class = d[..d.find(|c: char| !(c.is_alphanumeric() || c == '_')).unwrap_or(d.len())].to_string();
                    json!({"k": "http", "disallowed": class == "UriDisallowed", "class": class})
                }
            }
        }
        "tls_set" => match Settings::from_toml(op["toml"].as_str().unwrap_or("")) {
            Ok(()) => json!({"k": "unit"}),
            Err(e) => err_value(&e),
        },
        "tls_get" => json!({"k": "tls", "digest": tls_digest()}),
        other => json!({"k": "bad-op", "op": other}),
    };
    Pending::Done(v)
}

fn run_thread(env: &Env, t: usize, prog: &[Value]) -> (Vec<(usize, usize, usize, Pending)>, String) {
    let mut out = vec![];
    for (i, op) in prog.iter().enumerate() {
        if let Some(us) = op["pre_us"].as_u64() {
            if us > 0 {
                std::thread::sleep(std::time::Duration::from_micros(us));
            }
        }
        for _ in 0..op["yields"].as_u64().unwrap_or(0) {
            std::thread::yield_now();
        }
        let start = env.ticket.fetch_add(1, Ordering::SeqCst);
        let res = do_op(env, op);
        let end = env.ticket.fetch_add(1, Ordering::SeqCst);
        out.push((i, start, end, res));
    }
    let _ = t;
    (out, tls_digest())
}

fn one_run(case: &Value, concurrent: bool) -> Value {
    let ctxs: Vec<Arc<Context>> = case["contexts"].as_array().map(|a| a.iter().map(make_context).collect()).unwrap_or_default();
    let mut assets = std::collections::HashMap::new();
    if let Some(m) = case["assets"].as_object() {
        for (k, v) in m {
            assets.insert(k.clone(), (v["fmt"].as_str().unwrap_or("image/jpeg").to_string(), Arc::new(e2e::fixture(v["fixture"].as_str().unwrap_or("C.jpg")))));
        }
    }
    let env = Arc::new(Env { ctxs, assets, ticket: AtomicUsize::new(0) });
    let progs: Vec<Vec<Value>> = case["threads"].as_array().map(|a| a.iter().map(|p| p.as_array().cloned().unwrap_or_default()).collect()).unwrap_or_default();
    let n = progs.len();
    let mut results: Vec<Option<(Vec<(usize, usize, usize, Pending)>, String)>> = (0..n).map(|_| None).collect();
    if concurrent {
        let barrier = Arc::new(Barrier::new(n));
        let mut hs = vec![];
        for (t, prog) in progs.iter().cloned().enumerate() {
            let env = env.clone();
            let barrier = barrier.clone();
            hs.push(std::thread::spawn(move || {
                barrier.wait();
                run_thread(&env, t, &prog)
            }));
        }
        for (t, h) in hs.into_iter().enumerate() {
            results[t] = h.join().ok();
        }
    } else {
        for (t, prog) in progs.iter().cloned().enumerate() {
            let env = env.clone();
            results[t] = std::thread::spawn(move || run_thread(&env, t, &prog)).join().ok();
        }
    }
    let mut ops = vec![];
    let mut tls = vec![];
    for (t, r) in results.into_iter().enumerate() {
        match r {
            Some((v, d)) => {
                tls.push(json!(d));
                for (i, start, end, p) in v {
                    let res = match p {
                        Pending::Done(v) => v,
                        Pending::Signed(fmt, b) => signed_summary(&fmt, &b),
                    };
                    ops.push(json!({"t": t, "i": i, "start": start, "end": end, "res": res}));
                }
            }
            None => {
                tls.push(json!("thread-panicked"));
                ops.push(json!({"t": t, "i": -1, "start": 0, "end": 0, "res": {"k": "panic"}}));
            }
        }
    }
    let fin: Vec<Value> = env.ctxs.iter().map(|c| json!({"cancelled": c.is_cancelled()})).collect();
    json!({"ops": ops, "final": fin, "tls": tls})
}

pub fn run(case: &Value) -> Value {
    let main_tls_before = tls_digest();
    let conc = one_run(case, true);
    let seq = one_run(case, false);
    let main_tls_after = tls_digest();
    json!({"r": "ok", "conc": conc, "seq": seq, "main_tls_same": main_tls_before == main_tls_after, "main_tls": main_tls_after})
}
