//! C03: signing round trip through the public API.
//! case: {spec: builder-spec (see e2e.rs), want_jumbf: bool?}
//! out:  {r:"ok", state, report (e2e::report), view (e2e::full_view), asset_len, manifest_len, src_len}
//!     | {r:"sign_err", kind, detail} | {r:"read_err", kind, detail}
use serde_json::{json, Value};

use crate::{e2e, util::*};

pub fn run(case: &Value) -> Value {
    e2e::clear_cache();
    let spec = &case["spec"];
    let src_len = e2e::materialize(&spec["src"]).map(|x| x.1.len()).unwrap_or(0);
    let signed = match e2e::sign_spec(spec) {
        Ok(s) => s,
        Err(e) => return json!({"r": "sign_err", "kind": err_class(&e), "detail": format!("{e}").chars().take(300).collect::<String>()}),
    };
    let embedded_jumbf = c2pa::jumbf_io::load_jumbf_from_memory(&signed.fmt, &signed.asset).ok();
    let reader = match e2e::read_signed(spec, &signed) {
        Ok(r) => r,
        Err(e) => return json!({"r": "read_err", "kind": err_class(&e), "detail": format!("{e}").chars().take(300).collect::<String>(),
                                 "asset_len": signed.asset.len(), "manifest_len": signed.manifest.len()}),
    };
    let mut out = json!({"r": "ok", "report": e2e::report(&reader), "view": e2e::full_view(&reader),
           "asset_len": signed.asset.len(), "manifest_len": signed.manifest.len(), "src_len": src_len,
           "embedded_len": embedded_jumbf.as_ref().map(|j| j.len()),
           "embedded_equals_returned": embedded_jumbf.as_ref().map(|j| j == &signed.manifest),
           "is_embedded": reader.is_embedded(), "remote_url": reader.remote_url()});
    if case["want_jumbf"].as_bool().unwrap_or(false) {
        out["jumbf"] = json!(hexe(&signed.manifest));
    }
    out
}
