//! Shared end-to-end helpers: test signers from the repository fixtures, sign / read with a Context,
//! and a canonical report (state + codes) for comparison.
#![allow(dead_code)]
use std::io::Cursor;

use c2pa::{Builder, Context, Reader, Signer, SigningAlg};
use serde_json::{json, Value};

pub const FIXTURES: &str = "/repo/sdk/tests/fixtures";

pub fn fixture(name: &str) -> Vec<u8> {
    std::fs::read(format!("{FIXTURES}/{name}")).unwrap_or_else(|e| panic!("fixture {name}: {e}"))
}

pub fn alg_of(name: &str) -> SigningAlg {
    match name {
        "es256" => SigningAlg::Es256,
        "es384" => SigningAlg::Es384,
        "es512" => SigningAlg::Es512,
        "ps256" => SigningAlg::Ps256,
        "ps384" => SigningAlg::Ps384,
        "ps512" => SigningAlg::Ps512,
        _ => SigningAlg::Ed25519,
    }
}

/// A signer built from tests/fixtures/certs/<alg>.{pub,pem} (no time-stamp authority).
pub fn signer(alg: &str) -> c2pa::BoxedSigner {
    let cert = fixture(&format!("certs/{alg}.pub"));
    let key = fixture(&format!("certs/{alg}.pem"));
    c2pa::create_signer::from_keys(&cert, &key, alg_of(alg), None).expect("signer")
}

/// Context with the repository's test settings (test trust anchors), optionally updated by a JSON settings document.
pub fn context(extra_settings_json: Option<&str>) -> Context {
    let base = String::from_utf8(fixture("test_settings.toml")).expect("utf8");
    let mut ctx = Context::new().with_settings(base.as_str()).expect("test settings");
    if let Some(j) = extra_settings_json {
        ctx = ctx.with_settings(j).expect("extra settings");
    }
    ctx
}

pub fn minimal_manifest(title: &str) -> String {
    json!({
        "title": title,
        "claim_generator_info": [{"name": "verif-harness", "version": "0.1"}],
        "assertions": [
            {"label": "c2pa.actions", "data": {"actions": [{"action": "c2pa.created",
              "digitalSourceType": "http://cv.iptc.org/newscodes/digitalsourcetype/digitalCapture"}]}}
        ]
    })
    .to_string()
}

/// Sign `src` (of `format`) with the definition; returns the signed asset bytes.
pub fn sign(ctx: Context, definition: &str, format: &str, src: &[u8], signer: &dyn Signer) -> c2pa::Result<Vec<u8>> {
    let mut builder = Builder::from_context(ctx).with_definition(definition)?;
    let mut input = Cursor::new(src.to_vec());
    let mut out = Cursor::new(Vec::new());
    builder.sign(signer, format, &mut input, &mut out)?;
    Ok(out.into_inner())
}

fn codes(v: &[c2pa::validation_status::ValidationStatus]) -> Vec<String> {
    let mut c: Vec<String> = v.iter().map(|s| s.code().to_string()).collect();
    c.sort();
    c
}

/// Canonical report of a read: state, sorted codes of the active manifest, per-ingredient failure codes.
pub fn report(reader: &Reader) -> Value {
    let state = format!("{:?}", reader.validation_state());
    let mut failure = vec![];
    let mut success = vec![];
    let mut info = vec![];
    let mut deltas = vec![];
    if let Some(r) = reader.validation_results() {
        if let Some(a) = r.active_manifest() {
            failure = codes(a.failure());
            success = codes(a.success());
            info = codes(a.informational());
        }
        if let Some(ds) = r.ingredient_deltas() {
            for d in ds {
                deltas.push(json!({"failure": codes(d.validation_deltas().failure())}));
            }
        }
    }
    json!({"state": state, "failure": failure, "success": success, "informational": info, "deltas": deltas,
           "active": reader.active_label()})
}

pub fn read(ctx: Context, format: &str, bytes: &[u8]) -> c2pa::Result<Reader> {
    Reader::from_context(ctx).with_stream(format, Cursor::new(bytes.to_vec()))
}

/// Reader JSON with volatile fields removed (validation time), for equality comparisons.
pub fn stable_json(reader: &Reader) -> Value {
    let mut v: Value = serde_json::from_str(&reader.json()).unwrap_or(Value::Null);
    strip(&mut v);
    v
}

fn strip(v: &mut Value) {
    match v {
        Value::Object(m) => {
            m.remove("validation_time");
            m.remove("validationTime");
            for (_, x) in m.iter_mut() {
                strip(x);
            }
        }
        Value::Array(a) => a.iter_mut().for_each(strip),
        _ => {}
    }
}
