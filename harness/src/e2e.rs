//! Shared end-to-end helpers: test signers from the repository fixtures, sign / read with a Context,
//! and a canonical report (state + codes) for comparison.
#![allow(dead_code)]
use std::io::Cursor;

use c2pa::{Builder, Context, Reader, Signer, SigningAlg};
use serde_json::{json, Value};

pub const FIXTURES: &str = "/repo/sdk/tests/fixtures";

pub fn fixture(name: &str) -> Vec<u8> {
    std::fs::read(format!("{FIXTURES}/{name}")).unwrap_or_else(|e| panic!("fixture {name}: {e}"))
}

pub fn alg_of(name: &str) -> SigningAlg {
    match name {
        "es256" => SigningAlg::Es256,
        "es384" => SigningAlg::Es384,
        "es512" => SigningAlg::Es512,
        "ps256" => SigningAlg::Ps256,
        "ps384" => SigningAlg::Ps384,
        "ps512" => SigningAlg::Ps512,
        _ => SigningAlg::Ed25519,
    }
}

/// A signer built from tests/fixtures/certs/<alg>.{pub,pem} (no time-stamp authority).
pub fn signer(alg: &str) -> c2pa::BoxedSigner {
    let cert = fixture(&format!("certs/{alg}.pub"));
    let key = fixture(&format!("certs/{alg}.pem"));
    c2pa::create_signer::from_keys(&cert, &key, alg_of(alg), None).expect("signer")
}

/// Context with the repository's test settings (test trust anchors), optionally updated by a JSON settings document.
pub fn context(extra_settings_json: Option<&str>) -> Context {
    // `Context::with_settings` replaces the whole settings object, so the extra document is merged
    // over the test settings first (see `context_merged`).
    context_merged(extra_settings_json)
}

/// Like [`context`], but the JSON document is *merged over* the repository's test settings
/// (`Context::with_settings` replaces the whole settings object, so `context(Some(..))` starts from defaults).
pub fn context_merged(extra_settings_json: Option<&str>) -> Context {
    let base = String::from_utf8(fixture("test_settings.toml")).expect("utf8");
    let mut settings = c2pa::Settings::new().with_toml(&base).expect("test settings");
    if let Some(j) = extra_settings_json {
        settings = settings.with_json(j).expect("extra settings");
    }
    Context::new().with_settings(settings).expect("context")
}

pub fn minimal_manifest(title: &str) -> String {
    json!({
        "title": title,
        "claim_generator_info": [{"name": "verif-harness", "version": "0.1"}],
        "assertions": [
            {"label": "c2pa.actions", "data": {"actions": [{"action": "c2pa.created",
              "digitalSourceType": "http://cv.iptc.org/newscodes/digitalsourcetype/digitalCapture"}]}}
        ]
    })
    .to_string()
}

/// Sign `src` (of `format`) with the definition; returns the signed asset bytes.
pub fn sign(ctx: Context, definition: &str, format: &str, src: &[u8], signer: &dyn Signer) -> c2pa::Result<Vec<u8>> {
    let mut builder = Builder::from_context(ctx).with_definition(definition)?;
    let mut input = Cursor::new(src.to_vec());
    let mut out = Cursor::new(Vec::new());
    builder.sign(signer, format, &mut input, &mut out)?;
    Ok(out.into_inner())
}

fn codes(v: &[c2pa::validation_status::ValidationStatus]) -> Vec<String> {
    let mut c: Vec<String> = v.iter().map(|s| s.code().to_string()).collect();
    c.sort();
    c
}

/// Canonical report of a read: state, sorted codes of the active manifest, per-ingredient failure codes.
pub fn report(reader: &Reader) -> Value {
    let state = format!("{:?}", reader.validation_state());
    let mut failure = vec![];
    let mut success = vec![];
    let mut info = vec![];
    let mut deltas = vec![];
    if let Some(r) = reader.validation_results() {
        if let Some(a) = r.active_manifest() {
            failure = codes(a.failure());
            success = codes(a.success());
            info = codes(a.informational());
        }
        if let Some(ds) = r.ingredient_deltas() {
            for d in ds {
                deltas.push(json!({"failure": codes(d.validation_deltas().failure())}));
            }
        }
    }
    json!({"state": state, "failure": failure, "success": success, "informational": info, "deltas": deltas,
           "active": reader.active_label()})
}

pub fn read(ctx: Context, format: &str, bytes: &[u8]) -> c2pa::Result<Reader> {
    Reader::from_context(ctx).with_stream(format, Cursor::new(bytes.to_vec()))
}

/// Reader JSON with volatile fields removed (validation time), for equality comparisons.
pub fn stable_json(reader: &Reader) -> Value {
    let mut v: Value = serde_json::from_str(&reader.json()).unwrap_or(Value::Null);
    strip(&mut v);
    v
}

fn strip(v: &mut Value) {
    match v {
        Value::Object(m) => {
            m.remove("validation_time");
            m.remove("validationTime");
            for (_, x) in m.iter_mut() {
                strip(x);
            }
        }
        Value::Array(a) => a.iter_mut().for_each(strip),
        _ => {}
    }
}

// ------------------------------------------------------------------------------------------------
// Generic scripted builder (used by C03 / C22 / C39): assets and builders described by JSON specs.
//
// source spec  := {"fixture": name, "fmt": mime}
//               | {"hex": bytes, "fmt": mime}
//               | {"sign": builder-spec}                       (signed, embedded output of the builder)
//               | {"tamper": source-spec, "pos": i64}          (xor 0xff at pos; negative = from the end)
// builder spec := {"src": source-spec, "alg": "es256", "settings": {..}?, "definition": {..},
//                  "resources": {id: hex}?, "ingredients": [{"json": {..}, "src": source-spec}]?,
//                  "remote_url": str?, "no_embed": bool?, "archive_chain": n?}

pub struct Signed {
    pub fmt: String,
    pub asset: Vec<u8>,
    pub manifest: Vec<u8>,
    pub archive_sizes: Vec<usize>,
}

pub fn materialize(spec: &Value) -> Result<(String, Vec<u8>), String> {
    if let Some(f) = spec["fixture"].as_str() {
        return Ok((spec["fmt"].as_str().unwrap_or("image/jpeg").to_string(), fixture(f)));
    }
    if let Some(h) = spec["hex"].as_str() {
        return Ok((spec["fmt"].as_str().unwrap_or("image/jpeg").to_string(), hex::decode(h).map_err(|e| e.to_string())?));
    }
    if spec["sign"].is_object() {
        let s = sign_spec(&spec["sign"]).map_err(|e| format!("nested sign: {e:?}"))?;
        return Ok((s.fmt, s.asset));
    }
    if !spec["tamper"].is_null() {
        let (fmt, mut b) = materialize(&spec["tamper"])?;
        let pos = spec["pos"].as_i64().unwrap_or(-3);
        let i = if pos < 0 { b.len() as i64 + pos } else { pos };
        if i < 0 || i as usize >= b.len() {
            return Err("tamper position out of range".into());
        }
        b[i as usize] ^= 0xff;
        return Ok((fmt, b));
    }
    Err("bad source spec".into())
}

thread_local! {
    static MATERIALIZED: std::cell::RefCell<std::collections::HashMap<String, (String, Vec<u8>)>> = Default::default();
}

/// Forget the assets produced by `materialize_cached` (call at the start of a case).
pub fn clear_cache() {
    MATERIALIZED.with(|m| m.borrow_mut().clear());
}

/// `materialize`, but the same source spec yields the same bytes within a case (signing is not deterministic:
/// fresh manifest labels, instance ids, signature randomness).
pub fn materialize_cached(spec: &Value) -> Result<(String, Vec<u8>), String> {
    let key = spec.to_string();
    if let Some(hit) = MATERIALIZED.with(|m| m.borrow().get(&key).cloned()) {
        return Ok(hit);
    }
    let v = materialize(spec)?;
    MATERIALIZED.with(|m| m.borrow_mut().insert(key, v.clone()));
    Ok(v)
}

fn spec_context(spec: &Value) -> Context {
    match spec.get("settings") {
        Some(s) if s.is_object() => context(Some(&s.to_string())),
        _ => context(None),
    }
}

/// Builder from a builder spec (definition, resources, ingredients, remote/no_embed), before any archive chain.
pub fn builder_from_spec(spec: &Value) -> c2pa::Result<Builder> {
    let mut b = Builder::from_context(spec_context(spec)).with_definition(spec["definition"].to_string())?;
    if let Some(rs) = spec["resources"].as_object() {
        for (id, h) in rs {
            let bytes = hex::decode(h.as_str().unwrap_or("")).expect("resource hex");
            b.add_resource(id, Cursor::new(bytes))?;
        }
    }
    if let Some(ings) = spec["ingredients"].as_array() {
        for ing in ings {
            let (fmt, bytes) = materialize_cached(&ing["src"]).map_err(c2pa::Error::BadParam)?;
            let mut s = Cursor::new(bytes);
            b.add_ingredient_from_stream(ing["json"].to_string(), &fmt, &mut s)?;
        }
    }
    if let Some(u) = spec["remote_url"].as_str() {
        b.set_remote_url(u);
    }
    if spec["no_embed"].as_bool().unwrap_or(false) {
        b.set_no_embed(true);
    }
    Ok(b)
}

/// to_archive -> with_archive, `n` times (fresh context from the same spec every time).
pub fn archive_chain(spec: &Value, mut b: Builder, n: u64, sizes: &mut Vec<usize>) -> c2pa::Result<Builder> {
    for _ in 0..n {
        let mut ar = Cursor::new(Vec::new());
        b.to_archive(&mut ar)?;
        let bytes = ar.into_inner();
        sizes.push(bytes.len());
        let mut nb = Builder::from_context(spec_context(spec)).with_archive(Cursor::new(bytes))?;
        // remote/no_embed are builder options, not part of the archived manifest: re-apply them
        if let Some(u) = spec["remote_url"].as_str() {
            nb.set_remote_url(u);
        }
        if spec["no_embed"].as_bool().unwrap_or(false) {
            nb.set_no_embed(true);
        }
        b = nb;
    }
    Ok(b)
}

pub fn sign_spec(spec: &Value) -> c2pa::Result<Signed> {
    let (fmt, src) = materialize(&spec["src"]).map_err(c2pa::Error::BadParam)?;
    let b = builder_from_spec(spec)?;
    let mut sizes = vec![];
    let mut b = archive_chain(spec, b, spec["archive_chain"].as_u64().unwrap_or(0), &mut sizes)?;
    let sg = signer(spec["alg"].as_str().unwrap_or("ed25519"));
    let mut input = Cursor::new(src);
    let mut out = Cursor::new(Vec::new());
    let manifest = b.sign(sg.as_ref(), &fmt, &mut input, &mut out)?;
    Ok(Signed { fmt, asset: out.into_inner(), manifest, archive_sizes: sizes })
}

/// Read a signed result the way its mode requires (embedded: from the asset; sidecar/remote: manifest bytes + asset).
pub fn read_signed(spec: &Value, s: &Signed) -> c2pa::Result<Reader> {
    let ctx = spec_context(spec);
    if spec["no_embed"].as_bool().unwrap_or(false) {
        Reader::from_context(ctx).with_manifest_data_and_stream(&s.manifest, &s.fmt, Cursor::new(s.asset.clone()))
    } else {
        Reader::from_context(ctx).with_stream(&s.fmt, Cursor::new(s.asset.clone()))
    }
}

fn sha_hex(b: &[u8]) -> String {
    use std::fmt::Write;
    let d = c2pa::hash_stream_by_alg("sha256", &mut Cursor::new(b.to_vec()), None, true).unwrap_or_default();
    let mut s = String::new();
    for x in d {
        let _ = write!(s, "{x:02x}");
    }
    s
}

/// Resolve a resource reference of the reader to (length, sha256) — `null` when it cannot be resolved.
pub fn resource_digest(reader: &Reader, uri: &str) -> Value {
    let mut out = Cursor::new(Vec::new());
    match reader.resource_to_stream(uri, &mut out) {
        Ok(_) => {
            let b = out.into_inner();
            json!({"len": b.len(), "sha256": sha_hex(&b)})
        }
        Err(e) => json!({"err": format!("{e:?}").chars().take(80).collect::<String>()}),
    }
}

/// Structured view of a read: per-manifest `Manifest` values serialised directly (no presentation rewriting),
/// the `Reader::json()` rendering (volatile fields stripped), validation results, resolved thumbnails and
/// per-ingredient manifest-data digests.
pub fn full_view(reader: &Reader) -> Value {
    let js = stable_json(reader);
    let mut manifests = serde_json::Map::new();
    let mut extra = serde_json::Map::new();
    for (label, m) in reader.manifests() {
        let mut mv = serde_json::to_value(m).unwrap_or(Value::Null);
        strip(&mut mv);
        manifests.insert(label.clone(), mv);
        let mut e = serde_json::Map::new();
        if let Some(t) = m.thumbnail_ref() {
            e.insert("thumbnail".into(), json!({"format": t.format, "data": resource_digest(reader, &t.identifier)}));
        }
        let mut ings = vec![];
        for i in m.ingredients() {
            let mut ie = serde_json::Map::new();
            if let Some(t) = i.thumbnail_ref() {
                ie.insert("thumbnail".into(), json!({"format": t.format, "data": resource_digest(reader, &t.identifier)}));
            }
            if let Some(d) = i.manifest_data() {
                ie.insert("manifest_data".into(), json!({"len": d.len(), "sha256": sha_hex(&d)}));
            }
            if let Some(d) = i.data_ref() {
                ie.insert("data".into(), json!({"format": d.format, "data": resource_digest(reader, &d.identifier)}));
            }
            ings.push(Value::Object(ie));
        }
        e.insert("ingredients".into(), Value::Array(ings));
        extra.insert(label.clone(), Value::Object(e));
    }
    let mut vr = serde_json::to_value(reader.validation_results()).unwrap_or(Value::Null);
    strip(&mut vr);
    json!({"active_manifest": reader.active_label(), "manifests": manifests, "json_manifests": js["manifests"],
           "validation_results": vr, "verif_resources": extra,
           "verif_state": format!("{:?}", reader.validation_state())})
}
