//! C35: short reads/writes and injected I/O failures.
//! case: {op:"read"|"sign", fixture, format, alg?, settings?, seeds:[u64..] (chunked runs), maxchunk,
//!        fail:[[k, sticky(bool)]..] (failure at the k-th stream call, counted over source and destination),
//!        fail_kinds?: "all"|"read"|"write"|"seek"}
//! result: {"r":"ok", "base": outcome, "ops": n (stream calls of the unfaulted run), "kinds": {read,write,seek,flush},
//!          "chunked":[{seed, out, ops}], "failed":[{k, sticky, kind (which call failed), out}]}
//! outcome = {"err": class} | {"ok": shape} | {"panic": msg}
use std::{
    io::{self, Cursor, Read, Seek, SeekFrom, Write},
    sync::{Arc, Mutex},
};

use c2pa::{Builder, Reader};
use serde_json::{json, Value};

use crate::{c40::shape, e2e, util::*};

#[derive(Default, Clone)]
struct Plan {
    /// 0 = full reads/writes; otherwise each call moves 1..=maxchunk bytes (seeded)
    maxchunk: usize,
    rng: u64,
    /// fail the call with this index (over all counted calls of both streams)
    fail_at: Option<u64>,
    sticky: bool,
    /// which calls are counted for fail_at: 0 all, 1 read, 2 write, 3 seek
    fail_kinds: u8,
}

#[derive(Default)]
struct Shared {
    plan: Plan,
    calls: u64,   // all calls
    counted: u64, // calls of the selected kinds
    reads: u64,
    writes: u64,
    seeks: u64,
    flushes: u64,
    failed_kind: Option<&'static str>,
    tripped: bool,
    want_trace: bool,
    trace: Vec<String>,
}

impl Shared {
    fn next(&mut self) -> u64 {
        // xorshift64*
        let mut x = self.plan.rng | 1;
        x ^= x >> 12;
        x ^= x << 25;
        x ^= x >> 27;
        self.plan.rng = x;
        x.wrapping_mul(0x2545F4914F6CDD1D)
    }

    /// bookkeeping for one call; Err when this call is to fail
    fn call(&mut self, kind: &'static str) -> io::Result<()> {
        self.calls += 1;
        match kind {
            "read" => self.reads += 1,
            "write" => self.writes += 1,
            "seek" => self.seeks += 1,
            _ => self.flushes += 1,
        }
        let selected = match self.plan.fail_kinds {
            0 => true,
            1 => kind == "read",
            2 => kind == "write",
            _ => kind == "seek",
        };
        if self.tripped && self.plan.sticky {
            return Err(io::Error::other("injected failure (sticky)"));
        }
        if selected {
            let idx = self.counted;
            self.counted += 1;
            if self.plan.fail_at == Some(idx) {
                self.tripped = true;
                self.failed_kind = Some(kind);
                if self.want_trace {
                    // innermost SDK frames of the failing call (function names only)
                    let bt = std::backtrace::Backtrace::force_capture().to_string();
                    self.trace = bt
                        .lines()
                        .filter(|l| l.contains("c2pa::") && !l.contains("verif_harness"))
                        .map(|l| l.trim().splitn(2, ": ").nth(1).unwrap_or(l).to_string())
                        .take(16)
                        .collect();
                }
                return Err(io::Error::other("injected failure"));
            }
        }
        Ok(())
    }

    fn piece(&mut self, want: usize) -> usize {
        if self.plan.maxchunk == 0 || want <= 1 {
            want
        } else {
            let m = self.plan.maxchunk as u64;
            (1 + (self.next() % m) as usize).min(want)
        }
    }
}

/// A stream over an in-memory buffer that serves short reads/writes and fails on demand.
struct Flaky {
    inner: Cursor<Vec<u8>>,
    sh: Arc<Mutex<Shared>>,
}

impl Read for Flaky {
    fn read(&mut self, buf: &mut [u8]) -> io::Result<usize> {
        let n = {
            let mut s = self.sh.lock().unwrap();
            s.call("read")?;
            s.piece(buf.len())
        };
        self.inner.read(&mut buf[..n])
    }
}

impl Write for Flaky {
    fn write(&mut self, buf: &[u8]) -> io::Result<usize> {
        let n = {
            let mut s = self.sh.lock().unwrap();
            s.call("write")?;
            s.piece(buf.len())
        };
        self.inner.write(&buf[..n])
    }

    fn flush(&mut self) -> io::Result<()> {
        self.sh.lock().unwrap().call("flush")?;
        self.inner.flush()
    }
}

impl Seek for Flaky {
    fn seek(&mut self, pos: SeekFrom) -> io::Result<u64> {
        self.sh.lock().unwrap().call("seek")?;
        self.inner.seek(pos)
    }
}

struct Env<'a> {
    op: &'a str,
    format: &'a str,
    alg: &'a str,
    settings: Option<&'a str>,
    def: String,
    src: Vec<u8>,
}

/// One execution under a plan.  Returns (outcome, total calls, per-kind counts, kind of the failed call).
fn exec(env: &Env, plan: Plan, want_trace: bool) -> (Value, u64, Value, Option<&'static str>, Vec<String>) {
    let sh = Arc::new(Mutex::new(Shared { plan, want_trace, ..Default::default() }));
    let sh2 = sh.clone();
    let res = std::panic::catch_unwind(std::panic::AssertUnwindSafe(|| -> c2pa::Result<Value> {
        match env.op {
            "read" | "read_signed" => {
                let stream = Flaky { inner: Cursor::new(env.src.clone()), sh: sh2.clone() };
                let r = Reader::from_context(e2e::context(env.settings)).with_stream(env.format, stream)?;
                Ok(shape(&r))
            }
            _ => {
                let signer = e2e::signer(env.alg);
                let mut b = Builder::from_context(e2e::context(env.settings)).with_definition(env.def.as_str())?;
                let mut input = Flaky { inner: Cursor::new(env.src.clone()), sh: sh2.clone() };
                let mut out = Flaky { inner: Cursor::new(Vec::new()), sh: sh2.clone() };
                b.sign(signer.as_ref(), env.format, &mut input, &mut out)?;
                let bytes = out.inner.into_inner();
                // the signed asset is read back through an ordinary cursor: what matters is what was written
                let r = e2e::read(e2e::context(env.settings), env.format, &bytes);
                match r {
                    Ok(r) => Ok(json!({"signed": shape(&r)})),
                    Err(e) => Ok(json!({"signed_unreadable": err_class(&e)})),
                }
            }
        }
    }));
    let s = sh.lock().unwrap_or_else(|p| p.into_inner());
    let kinds = json!({"read": s.reads, "write": s.writes, "seek": s.seeks, "flush": s.flushes});
    let out = match res {
        Ok(Ok(v)) => json!({"ok": v}),
        Ok(Err(e)) => json!({"err": err_class(&e)}),
        Err(p) => {
            let msg = p.downcast_ref::<String>().cloned().or_else(|| p.downcast_ref::<&str>().map(|s| s.to_string())).unwrap_or_default();
            json!({"panic": msg})
        }
    };
    (out, s.calls, kinds, s.failed_kind, s.trace.clone())
}

pub fn run(case: &Value) -> Value {
    let settings_s = case.get("settings").filter(|v| !v.is_null()).map(|v| v.to_string());
    let env = Env {
        op: case["op"].as_str().unwrap_or("read"),
        format: case["format"].as_str().unwrap_or("image/jpeg"),
        alg: case["alg"].as_str().unwrap_or("ed25519"),
        settings: settings_s.as_deref(),
        def: if case["def"].is_null() { e2e::minimal_manifest("c35") } else { case["def"].to_string() },
        src: e2e::fixture(case["fixture"].as_str().unwrap_or("CA.jpg")),
    };
    // read_signed: the fixture is first signed through ordinary cursors; the signed asset is what is read through the wrapper
    let mut env = env;
    if env.op == "read_signed" {
        let signer = e2e::signer(env.alg);
        match e2e::sign(e2e::context(env.settings), &env.def, env.format, &env.src, signer.as_ref()) {
            Ok(b) => env.src = b,
            Err(e) => return json!({"r": "setup_err", "kind": err_class(&e)}),
        }
    }
    let fail_kinds = match case["fail_kinds"].as_str().unwrap_or("all") {
        "read" => 1,
        "write" => 2,
        "seek" => 3,
        _ => 0,
    };
    let maxchunk = case["maxchunk"].as_u64().unwrap_or(7) as usize;
    let want_trace = case["trace"].as_bool().unwrap_or(false);
    let (base, ops, kinds, _, _) = exec(&env, Plan::default(), false);
    let mut chunked = vec![];
    for s in case["seeds"].as_array().cloned().unwrap_or_default() {
        let seed = u64_of(&s);
        let (out, n, _, _, _) = exec(&env, Plan { maxchunk, rng: seed.wrapping_mul(0x9E3779B97F4A7C15) | 1, ..Default::default() }, false);
        chunked.push(json!({"seed": seed, "out": out, "ops": n}));
    }
    let mut failed = vec![];
    let mut fail_list = case["fail"].as_array().cloned().unwrap_or_default();
    // fail_auto: {n, seed, sticky_every}: the first 10 and last 5 calls plus seeded picks, n in all (every call when n >= ops)
    if let Some(fa) = case.get("fail_auto").filter(|v| v.is_object()) {
        let n = fa["n"].as_u64().unwrap_or(40);
        let mut x = fa["seed"].as_u64().unwrap_or(1).wrapping_mul(0x9E3779B97F4A7C15) | 1;
        let se = fa["sticky_every"].as_u64().unwrap_or(4).max(1);
        let total = if fail_kinds == 0 { ops } else { kinds[["", "read", "write", "seek"][fail_kinds as usize]].as_u64().unwrap_or(0) };
        let mut ks: Vec<u64> = vec![];
        if let Some(parts) = fa.get("parts").and_then(|v| v.as_u64()).filter(|p| *p > 0) {
            // every call index of residue `part` modulo `parts`: several cases together cover every k
            let part = fa["part"].as_u64().unwrap_or(0);
            ks = (0..total).filter(|k| k % parts == part).collect();
        } else if n >= total {
            ks = (0..total).collect();
        } else {
            ks.extend(0..10.min(total));
            ks.extend(total.saturating_sub(5)..total);
            while (ks.len() as u64) < n {
                x ^= x >> 12;
                x ^= x << 25;
                x ^= x >> 27;
                let k = x.wrapping_mul(0x2545F4914F6CDD1D) % total;
                if !ks.contains(&k) {
                    ks.push(k);
                }
            }
            ks.sort();
            ks.dedup();
        }
        for (i, k) in ks.iter().enumerate() {
            fail_list.push(json!([k, (i as u64) % se == se - 1, if i % 3 == 2 { 7 } else { 0 }]));
        }
    }
    for f in fail_list {
        let k = u64_of(&f[0]);
        let sticky = f[1].as_bool().unwrap_or(false);
        let short = f.get(2).and_then(|v| v.as_u64()).unwrap_or(0);
        let plan = Plan { maxchunk: if short > 0 { maxchunk } else { 0 }, rng: short | 1, fail_at: Some(k), sticky, fail_kinds };
        let (out, n, _, kind, trace) = exec(&env, plan, want_trace);
        failed.push(json!({"k": k, "sticky": sticky, "kind": kind, "out": out, "ops": n, "trace": trace}));
    }
    json!({"r": "ok", "base": base, "ops": ops, "kinds": kinds, "chunked": chunked, "failed": failed})
}
