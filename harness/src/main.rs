//! verif-harness: runs the real c2pa-rs code on case files produced by /verif/check.
//! usage: verif-harness <property> <casefile>   (one JSON case per line in, one JSON result per line out)
use std::io::{BufRead, Write};

use serde_json::{json, Value};

mod util;
mod e2e;
mod c01;
mod c02;
mod c03;
mod c04;
mod c05;
mod c06;
mod c07;
mod c08;
mod c09;
mod c10;
mod c11;
mod c12;
mod c13;
mod c14;
mod c15;
mod c16;
mod c17;
mod c18;
mod c19;
mod c20;
mod c21;
mod c22;
mod c23;
mod c24;
mod c25;
mod c26;
mod c27;
mod c28;
mod c29;
mod c30;
mod c31;
mod c32;
mod c33;
mod c34;
mod c35;
mod c36;
mod c37;
mod c38;
mod c39;
mod c40;

type CaseFn = fn(&Value) -> Value;

fn dispatch(name: &str) -> Option<CaseFn> {
    Some(match name {
        "c01" => c01::run,
        "c02" => c02::run,
        "c03" => c03::run,
        "c04" => c04::run,
        "c05" => c05::run,
        "c06" => c06::run,
        "c07" => c07::run,
        "c08" => c08::run,
        "c09" => c09::run,
        "c10" => c10::run,
        "c11" => c11::run,
        "c12" => c12::run,
        "c13" => c13::run,
        "c14" => c14::run,
        "c15" => c15::run,
        "c16" => c16::run,
        "c17" => c17::run,
        "c18" => c18::run,
        "c19" => c19::run,
        "c20" => c20::run,
        "c21" => c21::run,
        "c22" => c22::run,
        "c23" => c23::run,
        "c24" => c24::run,
        "c25" => c25::run,
        "c26" => c26::run,
        "c27" => c27::run,
        "c28" => c28::run,
        "c29" => c29::run,
        "c30" => c30::run,
        "c31" => c31::run,
        "c32" => c32::run,
        "c33" => c33::run,
        "c34" => c34::run,
        "c35" => c35::run,
        "c36" => c36::run,
        "c37" => c37::run,
        "c38" => c38::run,
        "c39" => c39::run,
        "c40" => c40::run,
        _ => return None,
    })
}

fn main() {
    let args: Vec<String> = std::env::args().collect();
    if args.len() < 3 {
        eprintln!("usage: verif-harness <property> <casefile>");
        std::process::exit(2);
    }
    let f = match dispatch(&args[1]) {
        Some(f) => f,
        None => {
            eprintln!("unknown property {}", args[1]);
            std::process::exit(2);
        }
    };
    std::panic::set_hook(Box::new(|_| {}));
    let file = std::fs::File::open(&args[2]).expect("case file");
    let out = std::io::stdout();
    let mut out = std::io::BufWriter::new(out.lock());
    for line in std::io::BufReader::new(file).lines() {
        let line = line.expect("line");
        if line.trim().is_empty() {
            continue;
        }
        let case: Value = serde_json::from_str(&line).expect("case json");
        let id = case.get("id").cloned().unwrap_or(Value::Null);
        let res = std::panic::catch_unwind(std::panic::AssertUnwindSafe(|| f(&case)));
        let mut v = match res {
            Ok(v) => v,
            Err(e) => {
                let msg = if let Some(s) = e.downcast_ref::<String>() {
                    s.clone()
                } else if let Some(s) = e.downcast_ref::<&str>() {
                    s.to_string()
                } else {
                    "panic".to_string()
                };
                json!({"r": "panic", "msg": msg})
            }
        };
        v["id"] = id;
        writeln!(out, "{}", v).expect("write");
    }
}
