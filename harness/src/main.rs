//! verif-harness: runs the real c2pa-rs code on case files produced by /verif/check.
//! usage: verif-harness <property> <casefile>   (one JSON case per line in, one JSON result per line out)
use std::io::{BufRead, Write};

use serde_json::{json, Value};

mod util;
mod c13;

type CaseFn = fn(&Value) -> Value;

fn dispatch(name: &str) -> Option<CaseFn> {
    Some(match name {
        "c13" => c13::run,
        _ => return None,
    })
}

fn main() {
    let args: Vec<String> = std::env::args().collect();
    if args.len() < 3 {
        eprintln!("usage: verif-harness <property> <casefile>");
        std::process::exit(2);
    }
    let f = match dispatch(&args[1]) {
        Some(f) => f,
        None => {
            eprintln!("unknown property {}", args[1]);
            std::process::exit(2);
        }
    };
    std::panic::set_hook(Box::new(|_| {}));
    let file = std::fs::File::open(&args[2]).expect("case file");
    let out = std::io::stdout();
    let mut out = std::io::BufWriter::new(out.lock());
    for line in std::io::BufReader::new(file).lines() {
        let line = line.expect("line");
        if line.trim().is_empty() {
            continue;
        }
        let case: Value = serde_json::from_str(&line).expect("case json");
        let id = case.get("id").cloned().unwrap_or(Value::Null);
        let res = std::panic::catch_unwind(std::panic::AssertUnwindSafe(|| f(&case)));
        let mut v = match res {
            Ok(v) => v,
            Err(e) => {
                let msg = if let Some(s) = e.downcast_ref::<String>() {
                    s.clone()
                } else if let Some(s) = e.downcast_ref::<&str>() {
                    s.to_string()
                } else {
                    "panic".to_string()
                };
                json!({"r": "panic", "msg": msg})
            }
        };
        v["id"] = id;
        writeln!(out, "{}", v).expect("write");
    }
}
