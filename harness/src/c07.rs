//! C07/C08/C09: embedding round trip through the per-format handlers.
//! case: {fmt, asset:{hex}|{fixture}|{file}, ops:[{op:"w",store:hex}|{op:"rm"}], dump?:dir}
//! result: {r:"ok", init:{len,h,read,loc}, steps:[{op, r, kind?, len, h, hex?|file?, read, loc}]}
//! An operation that fails leaves the current asset unchanged.  `h` is a multiplicative hash
//! (33*h + byte + 1 mod 2^64) shared with the Coq model and the orchestrator.
use c2pa::{
    jumbf_io::{load_jumbf_from_memory, save_jumbf_to_memory},
    verif_hooks::c07::{verif_object_locations_from_memory, verif_remove_jumbf_from_memory},
};
use serde_json::{json, Value};

use crate::util::*;

const B: u64 = 33;

pub fn poly_hash(data: &[u8]) -> u64 {
    let mut h: u64 = 0;
    for &x in data {
        h = h.wrapping_mul(B).wrapping_add(x as u64).wrapping_add(1);
    }
    h
}

fn load_asset(a: &Value) -> Vec<u8> {
    if let Some(h) = a.get("hex") {
        return hexd(h);
    }
    if let Some(f) = a.get("fixture").and_then(|v| v.as_str()) {
        return std::fs::read(format!("/repo/sdk/tests/fixtures/{}", f)).expect("fixture");
    }
    if let Some(f) = a.get("file").and_then(|v| v.as_str()) {
        return std::fs::read(f).expect("asset file");
    }
    panic!("asset spec")
}

fn bytes_val(b: &[u8], inline: bool) -> Value {
    let mut v = json!({"len": b.len(), "h": poly_hash(b).to_string()});
    if inline {
        v["hex"] = json!(hexe(b));
    }
    v
}

fn read_val(fmt: &str, data: &[u8], inline: bool) -> Value {
    match load_jumbf_from_memory(fmt, data) {
        Ok(b) => {
            let mut v = bytes_val(&b, inline);
            v["r"] = json!("ok");
            v
        }
        Err(e) => json!({"r": "err", "kind": err_class(&e)}),
    }
}

fn loc_val(fmt: &str, data: &[u8]) -> Value {
    match verif_object_locations_from_memory(fmt, data) {
        Ok(l) => json!({"r": "ok", "list": l.iter().map(|(o, n, k)| json!([o, n, k])).collect::<Vec<_>>()}),
        Err(e) => json!({"r": "err", "kind": err_class(&e)}),
    }
}

pub fn exec(case: &Value) -> Value {
    let fmt = case["fmt"].as_str().expect("fmt");
    let mut cur = load_asset(&case["asset"]);
    let dump = case.get("dump").and_then(|v| v.as_str());
    let inline = dump.is_none();
    let id = case["id"].as_u64().unwrap_or(0);
    let want_loc = case.get("loc").and_then(|v| v.as_bool()).unwrap_or(true);
    let mut init = bytes_val(&cur, false);
    init["read"] = read_val(fmt, &cur, inline);
    if want_loc {
        init["loc"] = loc_val(fmt, &cur);
    }
    let mut steps = Vec::new();
    for (k, op) in case["ops"].as_array().expect("ops").iter().enumerate() {
        let name = op["op"].as_str().expect("op");
        let res = match name {
            "w" => save_jumbf_to_memory(fmt, &cur, &hexd(&op["store"])),
            "rm" => verif_remove_jumbf_from_memory(fmt, &cur),
            _ => panic!("unknown op"),
        };
        let mut s = match res {
            Ok(out) => {
                let mut s = bytes_val(&out, inline);
                s["r"] = json!("ok");
                if let Some(d) = dump {
                    let p = format!("{}/{}_{}.bin", d, id, k);
                    std::fs::write(&p, &out).expect("dump");
                    s["file"] = json!(p);
                }
                cur = out;
                s
            }
            Err(e) => json!({"r": "err", "kind": err_class(&e), "detail": format!("{}", e)}),
        };
        s["op"] = json!(name);
        s["read"] = read_val(fmt, &cur, inline);
        if want_loc {
            s["loc"] = loc_val(fmt, &cur);
        }
        steps.push(s);
    }
    json!({"r": "ok", "init": init, "steps": steps})
}

pub fn run(case: &Value) -> Value {
    exec(case)
}
