//! C08: same-size replacement locality.  Same case format and executor as C07 (see c07.rs):
//! the orchestrator sends two equal-length stores as consecutive operations and diffs the outputs
//! against the object locations reported after each step.
use serde_json::Value;

pub fn run(case: &Value) -> Value {
    crate::c07::exec(case)
}
