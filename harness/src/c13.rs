//! C13: range hashing.  case: {data:hex, ranges:[[start,len,marker|null]..]|null, excl:bool, alg, buf}
use c2pa::{verif_hooks::verif_hash_with_chunk, HashRange};
use serde_json::{json, Value};

use crate::util::*;

pub fn run(case: &Value) -> Value {
    let data = hexd(&case["data"]);
    let ranges = case["ranges"].as_array().map(|a| {
        a.iter()
            .map(|r| {
                let mut h = HashRange::new(u64_of(&r[0]), u64_of(&r[1]));
                if !r[2].is_null() {
                    h.set_bmff_offset(u64_of(&r[2]));
                }
                h
            })
            .collect::<Vec<_>>()
    });
    let excl = case["excl"].as_bool().unwrap_or(true);
    let alg = case["alg"].as_str().unwrap_or("sha256");
    let buf = u64_of(&case["buf"]) as usize;
    let (r, trace) = verif_hash_with_chunk(alg, &data, ranges, excl, buf);
    let trace: Vec<Value> = trace.iter().map(|(s, t)| json!([s, t])).collect();
    match r {
        Ok(d) => json!({"r": "ok", "digest": hexe(&d), "progress": trace}),
        Err(e) => json!({"r": "err", "kind": err_class(&e), "detail": format!("{}", e), "progress": trace}),
    }
}
