//! C15 placeholder (being built): smoke test of the e2e helpers.
use serde_json::{json, Value};

use crate::e2e;

pub fn run(case: &Value) -> Value {
    let fmt = case["format"].as_str().unwrap_or("image/jpeg");
    let src = e2e::fixture(case["fixture"].as_str().unwrap_or("earth_apollo17.jpg"));
    let s = e2e::signer(case["alg"].as_str().unwrap_or("ed25519"));
    match e2e::sign(e2e::context(None), &e2e::minimal_manifest("t"), fmt, &src, s.as_ref()) {
        Ok(out) => match e2e::read(e2e::context(None), fmt, &out) {
            Ok(r) => json!({"r": "ok", "report": e2e::report(&r), "len": out.len()}),
            Err(e) => json!({"r": "err", "kind": crate::util::err_class(&e)}),
        },
        Err(e) => json!({"r": "err", "kind": crate::util::err_class(&e), "detail": e.to_string()}),
    }
}
