//! C15: placeholder workflow for data-hash formats.
//! case: {format, fixture, excl: [[start,len]..] (extra exclusions besides the placeholder region),
//!        title, alg, reserve (optional extra reserve for the signer), embed_at (offset for the composed placeholder)}
//! out:  {placeholder_len, signed_len, r, readback: report}
use std::io::Cursor;

use c2pa::{Builder, HashRange, Signer, SigningAlg};
use serde_json::{json, Value};

use crate::{e2e, util::*};

struct ReserveSigner {
    inner: c2pa::BoxedSigner,
    extra: usize,
}
impl Signer for ReserveSigner {
    fn sign(&self, data: &[u8]) -> c2pa::Result<Vec<u8>> {
        self.inner.sign(data)
    }
    fn alg(&self) -> SigningAlg {
        self.inner.alg()
    }
    fn certs(&self) -> c2pa::Result<Vec<Vec<u8>>> {
        self.inner.certs()
    }
    fn reserve_size(&self) -> usize {
        self.inner.reserve_size() + self.extra
    }
}

pub fn run(case: &Value) -> Value {
    let fmt = case["format"].as_str().unwrap_or("image/jpeg");
    let src = e2e::fixture(case["fixture"].as_str().unwrap_or("earth_apollo17.jpg"));
    let alg = case["alg"].as_str().unwrap_or("ed25519");
    let extra = case["reserve"].as_u64().unwrap_or(0) as usize;
    let signer = ReserveSigner { inner: e2e::signer(alg), extra };
    let ctx = e2e::context(None).with_signer(signer);
    let def = e2e::minimal_manifest(case["title"].as_str().unwrap_or("t"));
    let mut builder = match Builder::from_context(ctx).with_definition(def.as_str()) {
        Ok(b) => b,
        Err(e) => return json!({"r": "err", "stage": "definition", "kind": err_class(&e)}),
    };
    let ph = match builder.placeholder(fmt) {
        Ok(p) => p,
        Err(e) => return json!({"r": "err", "stage": "placeholder", "kind": err_class(&e)}),
    };
    if ph.is_empty() {
        return json!({"r": "noplaceholder"});
    }
    // embed the composed placeholder at embed_at (JPEG: after SOI)
    let at = case["embed_at"].as_u64().unwrap_or(2) as usize;
    let mut asset = Vec::with_capacity(src.len() + ph.len());
    asset.extend_from_slice(&src[..at]);
    asset.extend_from_slice(&ph);
    asset.extend_from_slice(&src[at..]);
    let mut ex = vec![HashRange::new(at as u64, ph.len() as u64)];
    if let Some(a) = case["excl"].as_array() {
        for r in a {
            ex.push(HashRange::new(u64_of(&r[0]), u64_of(&r[1])));
        }
    }
    if let Err(e) = builder.set_data_hash_exclusions(ex) {
        return json!({"r": "err", "stage": "exclusions", "kind": err_class(&e), "placeholder_len": ph.len()});
    }
    if let Err(e) = builder.update_hash_from_stream(fmt, &mut Cursor::new(asset.clone())) {
        return json!({"r": "err", "stage": "hash", "kind": err_class(&e), "placeholder_len": ph.len()});
    }
    let signed = match builder.sign_embeddable(fmt) {
        Ok(s) => s,
        Err(e) => {
            return json!({"r": "err", "stage": "sign", "kind": err_class(&e), "detail": e.to_string(), "placeholder_len": ph.len()})
        }
    };
    let mut out = json!({"r": "ok", "placeholder_len": ph.len(), "signed_len": signed.len()});
    if signed.len() == ph.len() {
        asset[at..at + ph.len()].copy_from_slice(&signed);
        out["readback"] = match e2e::read(e2e::context(None), fmt, &asset) {
            Ok(r) => e2e::report(&r),
            Err(e) => json!({"err": err_class(&e)}),
        };
    }
    out
}
