//! C14: reserved-size padding.  Modes (case["mode"]):
//!  synth      {sig, kid, rest:[[label,value]..], end|null}        -> pad_cose_sig (hook) on a coset-built Sign1
//!  real_sweep {alg, tss, gaps:[[from,to]..]}                      -> pad_cose_sig (hook) on the Sign1 produced by the
//!                                                                    real signer, one call per gap, run-length encoded
//!  sign       {alg, tss, gap}                                     -> cose_sign::cose_sign (hook) with box = base + gap
//!  e2e        {alg, gap}                                          -> Builder::sign with a Signer reporting base + gap
//!  data       {name, alg, hash, excl, pad0, pad2, delta}          -> DataHash::pad_to_size (public)
//! label: {"t": text} | {"i": int};  value: {"b": n zero bytes} | {"t": n chars} | {"i": int}
use std::{
    collections::HashMap,
    panic::{catch_unwind, AssertUnwindSafe},
    sync::Mutex,
};

use c2pa::{
    assertions::DataHash,
    crypto::cose::{CoseError, TimeStampStorage},
    settings::Settings,
    verif_hooks::c14::{
        coset::{
            cbor::value::Value as CV, CoseSign1, CoseSign1Builder, HeaderBuilder, Label,
            TaggedCborSerializable,
        },
        verif_cose_sign, verif_data_hash_size, verif_pad_cose_sig,
    },
    HashRange, Signer, SigningAlg,
};
use serde_json::{json, Value};

use crate::{e2e, util::*};

fn cose_err(e: &CoseError) -> String {
    let d = format!("{:?}", e);
    let end = d.find(|c: char| !(c.is_alphanumeric() || c == '_')).unwrap_or(d.len());
    d[..end].to_string()
}

fn label_of(v: &Value) -> Label {
    if let Some(t) = v.get("t") {
        Label::Text(t.as_str().expect("label text").to_string())
    } else {
        Label::Int(v["i"].as_i64().expect("label int"))
    }
}

fn value_of(v: &Value) -> CV {
    if let Some(n) = v.get("b") {
        CV::Bytes(vec![0u8; n.as_u64().expect("b") as usize])
    } else if let Some(n) = v.get("t") {
        CV::Text("a".repeat(n.as_u64().expect("t") as usize))
    } else {
        CV::Integer(v["i"].as_i64().expect("i").into())
    }
}

fn rest_summary(s: &CoseSign1) -> Vec<Value> {
    s.unprotected
        .rest
        .iter()
        .map(|(l, v)| {
            let l = match l {
                Label::Text(t) => json!({"t": t}),
                Label::Int(i) => json!({"i": i}),
            };
            let v = match v {
                CV::Bytes(b) => json!({"b": b.len()}),
                CV::Text(t) => json!({"t": t.len()}),
                other => {
                    let mut buf = Vec::new();
                    c2pa::verif_hooks::c14::coset::cbor::ser::into_writer(other, &mut buf).expect("cbor");
                    json!({"o": buf.len()})
                }
            };
            json!([l, v])
        })
        .collect()
}

fn pad_outcome(s: &CoseSign1, end: Option<usize>, detail: bool) -> Value {
    let mut s1 = s.clone();
    let r = catch_unwind(AssertUnwindSafe(|| verif_pad_cose_sig(&mut s1, end)));
    match r {
        Err(_) => json!({"r": "panic"}),
        Ok(Err(e)) => json!({"r": "err", "kind": cose_err(&e)}),
        Ok(Ok(v)) => {
            if detail {
                match CoseSign1::from_tagged_slice(&v) {
                    Ok(p) => json!({"r": "ok", "len": v.len(), "rest": rest_summary(&p),
                                    "same_sig": p.signature == s.signature && p.protected.header == s.protected.header}),
                    Err(e) => json!({"r": "ok", "len": v.len(), "unparsable": format!("{e:?}")}),
                }
            } else {
                json!({"r": "ok", "len": v.len()})
            }
        }
    }
}

fn synth(case: &Value) -> Value {
    let sig = case["sig"].as_u64().unwrap_or(64) as usize;
    let kid = case["kid"].as_u64().unwrap_or(0) as usize;
    let protected = HeaderBuilder::new()
        .algorithm(c2pa::verif_hooks::c14::coset::iana::Algorithm::ES256)
        .build();
    let mk = |with_rest: bool| {
        let mut h = HeaderBuilder::new();
        if kid > 0 {
            h = h.key_id(vec![7u8; kid]);
        }
        let mut h = h.build();
        if with_rest {
            for e in case["rest"].as_array().expect("rest") {
                h.rest.push((label_of(&e[0]), value_of(&e[1])));
            }
        }
        CoseSign1Builder::new()
            .protected(protected.clone())
            .unprotected(h)
            .signature(vec![0x5a; sig])
            .build()
    };
    let s = mk(true);
    let size0 = s.clone().to_tagged_vec().ok().map(|v| v.len());
    let size_norest = mk(false).to_tagged_vec().expect("norest").len();
    let end = case["end"].as_u64().map(|e| e as usize);
    let mut out = pad_outcome(&s, end, true);
    out["size0"] = json!(size0);
    out["size_norest"] = json!(size_norest);
    out
}

fn tss_of(case: &Value) -> TimeStampStorage {
    if case["tss"].as_u64() == Some(1) {
        TimeStampStorage::V1_sigTst
    } else {
        TimeStampStorage::V2_sigTst2_CTT
    }
}

const PAYLOAD: &[u8] = b"verif C14 detached payload";

/// The unpadded Sign1 of the real signer: sign with a box in the succeeding range, parse, drop the pad.
fn real_base(alg: &str, tss: TimeStampStorage) -> Result<(CoseSign1, usize, usize), String> {
    static CACHE: Mutex<Option<HashMap<String, (Vec<u8>, usize, usize)>>> = Mutex::new(None);
    let key = format!("{alg}-{tss:?}");
    if let Some((bytes, base, probe)) = CACHE.lock().expect("lock").get_or_insert_with(HashMap::new).get(&key) {
        return Ok((CoseSign1::from_tagged_slice(bytes).expect("cached"), *base, *probe));
    }
    let signer = e2e::signer(alg);
    let settings = Settings::default();
    let mut last = String::new();
    for probe in [20000usize, 40000, 60000] {
        match verif_cose_sign(signer.as_ref(), PAYLOAD, probe, tss, &settings) {
            Ok(v) => {
                let mut s = CoseSign1::from_tagged_slice(&v).map_err(|e| format!("parse: {e:?}"))?;
                s.unprotected.rest.retain(|(l, _)| *l != Label::Text("pad".to_string()));
                let bytes = s.clone().to_tagged_vec().map_err(|e| format!("ser: {e:?}"))?;
                let base = bytes.len();
                CACHE.lock().expect("lock").get_or_insert_with(HashMap::new).insert(key, (bytes, base, probe));
                return Ok((s, base, probe));
            }
            Err(e) => last = format!("{e:?}"),
        }
    }
    Err(last)
}

fn describe(s: &CoseSign1, base: usize) -> Value {
    let mut s0 = s.clone();
    s0.unprotected.rest.clear();
    let norest = s0.to_tagged_vec().expect("norest").len();
    let h = &s.unprotected;
    let nfields = h.alg.is_some() as usize
        + (!h.crit.is_empty()) as usize
        + h.content_type.is_some() as usize
        + (!h.key_id.is_empty()) as usize
        + (!h.iv.is_empty()) as usize
        + (!h.partial_iv.is_empty()) as usize
        + (!h.counter_signatures.is_empty()) as usize;
    json!({"base": base, "size_norest": norest, "nfields": nfields, "rest": rest_summary(s), "sig": s.signature.len()})
}

fn real_sweep(case: &Value) -> Value {
    let alg = case["alg"].as_str().unwrap_or("ed25519");
    let (s, base, _) = match real_base(alg, tss_of(case)) {
        Ok(x) => x,
        Err(e) => return json!({"r": "nobase", "detail": e}),
    };
    let mut runs: Vec<(i64, i64, String)> = Vec::new();
    let mut n = 0u64;
    for rg in case["gaps"].as_array().expect("gaps") {
        let (a, b) = (rg[0].as_i64().expect("from"), rg[1].as_i64().expect("to"));
        for g in a..=b {
            let end = base as i64 + g;
            if end < 0 {
                continue;
            }
            let o = pad_outcome(&s, Some(end as usize), false);
            let code = match o["r"].as_str() {
                Some("ok") if o["len"].as_u64() == Some(end as u64) => "ok".to_string(),
                Some("ok") => format!("ok-badlen:{}", o["len"]),
                Some("err") => format!("err:{}", o["kind"].as_str().unwrap_or("?")),
                _ => "panic".to_string(),
            };
            n += 1;
            match runs.last_mut() {
                Some((_, hi, c)) if *c == code && *hi + 1 == g => *hi = g,
                _ => runs.push((g, g, code)),
            }
        }
    }
    let runs: Vec<Value> = runs.into_iter().map(|(a, b, c)| json!([a, b, c])).collect();
    json!({"r": "sweep", "desc": describe(&s, base), "runs": runs, "calls": n})
}

fn sign_mode(case: &Value) -> Value {
    let alg = case["alg"].as_str().unwrap_or("ed25519");
    let tss = tss_of(case);
    let (s, base, _) = match real_base(alg, tss) {
        Ok(x) => x,
        Err(e) => return json!({"r": "nobase", "detail": e}),
    };
    let end = base as i64 + case["gap"].as_i64().expect("gap");
    let signer = e2e::signer(alg);
    let mut out = match verif_cose_sign(signer.as_ref(), PAYLOAD, end.max(0) as usize, tss, &Settings::default()) {
        Ok(v) => json!({"r": "ok", "len": v.len()}),
        Err(e) => json!({"r": "err", "kind": err_class(&e)}),
    };
    out["desc"] = describe(&s, base);
    out["end"] = json!(end);
    out
}

struct ReserveSigner {
    inner: Box<dyn Signer>,
    reserve: usize,
}

impl Signer for ReserveSigner {
    fn sign(&self, data: &[u8]) -> c2pa::Result<Vec<u8>> {
        self.inner.sign(data)
    }

    fn alg(&self) -> SigningAlg {
        self.inner.alg()
    }

    fn certs(&self) -> c2pa::Result<Vec<Vec<u8>>> {
        self.inner.certs()
    }

    fn reserve_size(&self) -> usize {
        self.reserve
    }
}

fn e2e_mode(case: &Value) -> Value {
    let alg = case["alg"].as_str().unwrap_or("ed25519");
    let (s, base, _) = match real_base(alg, TimeStampStorage::V2_sigTst2_CTT) {
        Ok(x) => x,
        Err(e) => return json!({"r": "nobase", "detail": e}),
    };
    let end = (base as i64 + case["gap"].as_i64().expect("gap")).max(0) as usize;
    let signer = ReserveSigner { inner: e2e::signer(alg), reserve: end };
    let src = e2e::fixture(case["fixture"].as_str().unwrap_or("earth_apollo17.jpg"));
    let fmt = case["format"].as_str().unwrap_or("image/jpeg");
    let mut out = match e2e::sign(e2e::context(None), &e2e::minimal_manifest("c14"), fmt, &src, &signer) {
        Ok(bytes) => match e2e::read(e2e::context(None), fmt, &bytes) {
            Ok(r) => {
                let rep = e2e::report(&r);
                json!({"r": "ok", "state": rep["state"], "failure": rep["failure"], "grown": bytes.len() - src.len()})
            }
            Err(e) => json!({"r": "readerr", "kind": err_class(&e)}),
        },
        Err(e) => json!({"r": "err", "kind": err_class(&e), "detail": e.to_string()}),
    };
    out["desc"] = describe(&s, base);
    out["end"] = json!(end);
    out
}

fn data_mode(case: &Value) -> Value {
    let mk = |pad0: usize, pad2: Option<usize>| {
        let mut dh = DataHash::new(case["name"].as_str().unwrap_or("jumbf manifest"), case["alg"].as_str().unwrap_or("sha256"));
        if let Some(ex) = case["excl"].as_array() {
            for e in ex {
                dh.add_exclusion(HashRange::new(u64_of(&e[0]), u64_of(&e[1])));
            }
        }
        dh.set_hash(vec![0x11; case["hash"].as_u64().unwrap_or(32) as usize]);
        dh.add_padding(vec![0u8; pad0]);
        // pad2 is a public field of type Option<serde_bytes::ByteBuf>; build it without naming the crate
        if let Some(n) = pad2 {
            dh.pad2 = Some(vec![0u8; n].into());
        }
        dh
    };
    let pad0 = case["pad0"].as_u64().unwrap_or(0) as usize;
    let pad2 = case["pad2"].as_u64().map(|n| n as usize);
    let size_fresh = verif_data_hash_size(&mk(0, None)).expect("size");
    let mut dh = mk(pad0, pad2);
    let size0 = verif_data_hash_size(&dh).expect("size");
    let desired = (size0 as i64 + case["delta"].as_i64().expect("delta")).max(0) as usize;
    let r = dh.pad_to_size(desired);
    let mut out = match r {
        Ok(()) => json!({"r": "ok", "len": verif_data_hash_size(&dh).expect("size"),
                         "pad": dh.pad.len(), "pad2": dh.pad2.as_ref().map(|p| p.len())}),
        Err(e) => json!({"r": "err", "kind": err_class(&e)}),
    };
    out["size0"] = json!(size0);
    out["size_fresh"] = json!(size_fresh);
    out["desired"] = json!(desired);
    out
}

pub fn run(case: &Value) -> Value {
    match case["mode"].as_str().unwrap_or("") {
        "synth" => synth(case),
        "real_sweep" => real_sweep(case),
        "sign" => sign_mode(case),
        "e2e" => e2e_mode(case),
        "data" => data_mode(case),
        m => json!({"r": "badmode", "mode": m}),
    }
}
