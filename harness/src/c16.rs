//! C16: Merkle tree / proof generation / proof playback.
//! kinds:
//!  {k:"tree",  leaves:[hex], m, idx:[i..]}  -> layers, row index, proofs + verdicts for the listed indices
//!  {k:"sweep", leaves:[hex], mmax}          -> for every m in 0..=mmax and every index: verdict bits and proof lengths
//!  {k:"check", count, row:[hex], checks:[{h:hex, loc:u64|string, proof:null|[hex]}]} -> verdicts of check_merkle_tree
use c2pa::{
    assertions::{MerkleMap, VecByteBuf},
    verif_hooks::c16::{ByteBuf, C2PAMerkleTree, MerkleNode},
};
use serde_json::{json, Value};

use crate::util::*;

fn hexlist(v: &Value) -> Vec<Vec<u8>> {
    v.as_array().map(|a| a.iter().map(hexd).collect()).unwrap_or_default()
}

fn mm(count: usize, row: &[Vec<u8>]) -> MerkleMap {
    MerkleMap {
        unique_id: 0,
        local_id: 0,
        count,
        alg: Some("sha256".to_string()),
        init_hash: None,
        hashes: VecByteBuf(row.iter().map(|h| ByteBuf::from(h.clone())).collect()),
        fixed_block_size: None,
        variable_block_sizes: None,
    }
}

fn vbb(p: &[Vec<u8>]) -> VecByteBuf {
    VecByteBuf(p.iter().map(|h| ByteBuf::from(h.clone())).collect())
}

// exactly what create_merkle_map_for_mdat_box does with a generated proof
fn wrap(p: &[Vec<u8>]) -> Option<VecByteBuf> {
    if p.is_empty() {
        None
    } else {
        Some(vbb(p))
    }
}

pub fn run(case: &Value) -> Value {
    let alg = case["alg"].as_str().unwrap_or("sha256");
    match case["k"].as_str().unwrap_or("") {
        "tree" | "sweep" => {
            let leaves: Vec<MerkleNode> = hexlist(&case["leaves"]).into_iter().map(MerkleNode).collect();
            let n = leaves.len();
            let tree = C2PAMerkleTree::from_leaves(leaves, alg, false);
            let layout = C2PAMerkleTree::to_layout(n);
            if case["k"] == "tree" {
                let m = u64_of(&case["m"]) as usize;
                let r = std::cmp::min(m, tree.layers.len() - 1);
                let row: Vec<Vec<u8>> = tree.layers[r].iter().map(|x| x.0.clone()).collect();
                let map = mm(n, &row);
                let mut proofs = vec![];
                for i in case["idx"].as_array().cloned().unwrap_or_default() {
                    let i = u64_of(&i) as usize;
                    match tree.get_proof_by_index(i, m) {
                        Ok(p) => {
                            let h = tree.leaves.get(i).map(|x| x.0.clone()).unwrap_or_default();
                            let some = map.check_merkle_tree(alg, &h, i, &Some(vbb(&p)));
                            let wr = map.check_merkle_tree(alg, &h, i, &wrap(&p));
                            proofs.push(json!({"i": i, "p": p.iter().map(|x| hexe(x)).collect::<Vec<_>>(), "some": some, "wrap": wr}));
                        }
                        Err(e) => proofs.push(json!({"i": i, "err": err_class(&e)})),
                    }
                }
                let layers: Vec<Vec<String>> = tree.layers.iter().map(|l| l.iter().map(|x| hexe(&x.0)).collect()).collect();
                json!({"r": "ok", "layers": layers, "layout": layout, "row": r, "proofs": proofs})
            } else {
                let mmax = u64_of(&case["mmax"]) as usize;
                let mut some = vec![];
                let mut wr = vec![];
                let mut plen = vec![];
                for m in 0..=mmax {
                    let r = std::cmp::min(m, tree.layers.len() - 1);
                    let row: Vec<Vec<u8>> = tree.layers[r].iter().map(|x| x.0.clone()).collect();
                    let map = mm(n, &row);
                    let (mut s, mut w, mut l) = (String::new(), String::new(), vec![]);
                    for i in 0..n {
                        let p = tree.get_proof_by_index(i, m).expect("proof");
                        let h = &tree.leaves[i].0;
                        s.push(if map.check_merkle_tree(alg, h, i, &Some(vbb(&p))) { '1' } else { '0' });
                        w.push(if map.check_merkle_tree(alg, h, i, &wrap(&p)) { '1' } else { '0' });
                        l.push(p.len());
                    }
                    some.push(s);
                    wr.push(w);
                    plen.push(l);
                }
                json!({"r": "ok", "some": some, "wrap": wr, "plen": plen, "layout": layout})
            }
        }
        "check" => {
            let count = u64_of(&case["count"]) as usize;
            let row = hexlist(&case["row"]);
            let map = mm(count, &row);
            let mut out = vec![];
            for c in case["checks"].as_array().cloned().unwrap_or_default() {
                let h = hexd(&c["h"]);
                let loc = u64_of(&c["loc"]) as usize;
                let proof = if c["proof"].is_null() { None } else { Some(vbb(&hexlist(&c["proof"]))) };
                out.push(map.check_merkle_tree(alg, &h, loc, &proof));
            }
            json!({"r": "ok", "v": out})
        }
        _ => json!({"r": "badcase"}),
    }
}
