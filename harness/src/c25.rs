//! C25: settings updates.  case: {"op": ...}
//!  tree_merge {target, overlay, depth}      -> {r:"ok", v}
//!  tree_set   {target, path, value}         -> {r:"ok"|"err", v}
//!  tree_get   {target, path}                -> {r:"some", v} | {r:"none"}
//!  parse      {text, format}                -> {r:"ok", v} | {r:"err", kind}
//!  project    {value}                       -> {r:"ok", v} | {r:"err", kind, stage}
//!  default    {}                           -> {r:"ok", v}   (to_value(Settings::new()))
//!  settings   {steps:[{k, ...}]}            -> {r:"ok", steps:[{res, kind?, before, after, get?}]}
use c2pa::settings::{
    verif_get_at_path, verif_merge_json_depth, verif_parse_to_value, verif_set_at_path, verif_validate, Settings,
};
use serde_json::{json, Value};

use crate::util::*;

fn sval(s: &Settings) -> Value {
    serde_json::to_value(s).unwrap_or(Value::Null)
}

fn res(r: &c2pa::Result<()>) -> Value {
    match r {
        Ok(()) => json!({"res": "ok"}),
        Err(e) => json!({"res": "err", "kind": err_class(e), "detail": format!("{}", e).chars().take(160).collect::<String>()}),
    }
}

pub fn run(case: &Value) -> Value {
    match case["op"].as_str().unwrap_or("") {
        "tree_merge" => {
            let depth = case["depth"].as_u64().unwrap_or(0) as usize;
            let v = verif_merge_json_depth(case["target"].clone(), case["overlay"].clone(), depth);
            json!({"r": "ok", "v": v})
        }
        "tree_set" => {
            let (v, r) = verif_set_at_path(case["target"].clone(), case["path"].as_str().unwrap_or(""), case["value"].clone());
            json!({"r": if r.is_ok() { "ok" } else { "err" }, "v": v})
        }
        "tree_get" => match verif_get_at_path(&case["target"], case["path"].as_str().unwrap_or("")) {
            Some(v) => json!({"r": "some", "v": v}),
            None => json!({"r": "none"}),
        },
        "parse" => match verif_parse_to_value(case["text"].as_str().unwrap_or(""), case["format"].as_str().unwrap_or("json")) {
            Ok(v) => json!({"r": "ok", "v": v}),
            Err(e) => json!({"r": "err", "kind": err_class(&e)}),
        },
        "project" => match serde_json::from_value::<Settings>(case["value"].clone()) {
            Err(_) => json!({"r": "err", "stage": "typed"}),
            Ok(s) => match verif_validate(&s) {
                Err(e) => json!({"r": "err", "stage": "validate", "kind": err_class(&e)}),
                Ok(()) => json!({"r": "ok", "v": sval(&s)}),
            },
        },
        "default" => json!({"r": "ok", "v": sval(&Settings::new())}),
        "settings" => {
            let mut cur = Settings::new();
            let mut out = vec![];
            for st in case["steps"].as_array().cloned().unwrap_or_default() {
                let before = sval(&cur);
                let k = st["k"].as_str().unwrap_or("");
                let text = st["text"].as_str().unwrap_or("");
                let path = st["path"].as_str().unwrap_or("");
                let mut o = match k {
                    "with_json" | "with_toml" => {
                        let r = if k == "with_json" { cur.with_json(text) } else { cur.with_toml(text) };
                        let untouched = sval(&cur) == before;
                        let mut o = match r {
                            Ok(n) => {
                                cur = n;
                                json!({"res": "ok"})
                            }
                            Err(e) => res(&Err(e)),
                        };
                        o["receiver_untouched"] = json!(untouched);
                        o
                    }
                    "update" => res(&cur.update_from_str(text, st["format"].as_str().unwrap_or("json"))),
                    "with_value" => {
                        let r = cur.with_value(path, st["value"].clone());
                        let untouched = sval(&cur) == before;
                        let mut o = match r {
                            Ok(n) => {
                                cur = n;
                                json!({"res": "ok"})
                            }
                            Err(e) => res(&Err(e)),
                        };
                        o["receiver_untouched"] = json!(untouched);
                        o
                    }
                    "set_value" => res(&cur.set_value(path, st["value"].clone())),
                    // the same document in both formats, applied to the same receiver
                    "pair" => {
                        let toml = st["toml"].as_str().unwrap_or("");
                        let pv = |t: &str, f: &str| match verif_parse_to_value(t, f) {
                            Ok(v) => json!({"r": "ok", "v": v}),
                            Err(e) => json!({"r": "err", "kind": err_class(&e)}),
                        };
                        let rj = cur.with_json(text);
                        let rt = cur.with_toml(toml);
                        let side = |r: &c2pa::Result<Settings>| match r {
                            Ok(n) => json!({"res": "ok", "after": sval(n)}),
                            Err(e) => json!({"res": "err", "kind": err_class(e)}),
                        };
                        let mut o = json!({"res": if rj.is_ok() { "ok" } else { "err" }, "json": side(&rj), "toml": side(&rt),
                                           "pj": pv(text, "json"), "pt": pv(toml, "toml")});
                        o["receiver_untouched"] = json!(sval(&cur) == before);
                        if let Ok(n) = rj {
                            cur = n;
                        }
                        o
                    }
                    _ => json!({"res": "bad-step"}),
                };
                if k == "with_value" || k == "set_value" {
                    o["get"] = match cur.get_value::<Value>(path) {
                        Ok(v) => json!({"r": "ok", "v": v}),
                        Err(e) => json!({"r": "err", "kind": err_class(&e)}),
                    };
                }
                o["before"] = before;
                o["after"] = sval(&cur);
                out.push(o);
            }
            json!({"r": "ok", "steps": out})
        }
        _ => json!({"r": "bad-op"}),
    }
}
