//! C01: tamper evidence of the signed asset content.
//! A case names an asset recipe {name, src: "fixture:<file>" | "hex:<bytes>", format, binding: data|box|bmff}
//! (signed once, cached under <build>/cases/c01_assets/<name>.bin) and an operation:
//!   op "prepare": (re)sign; out: length, signed hard binding (exclusions / boxes / bmff exclusions), handler box map,
//!                 report and report-JSON digest of the untouched read.
//!   op "mut":     apply mutation m = {k: set|flip|insert|delete|splice|append|truncate, pos, val|bit|hex|n} to the signed
//!                 bytes and read back through Reader; out: state, codes, digest of the stable report JSON;
//!                 with "direct": also run the *signed* assertion's verifier directly on the mutated bytes
//!                 (DataHash/BoxHash/BmffHash::verify_stream_hash) and, with "map", return the handler box map of
//!                 the mutated bytes.
use std::{cell::RefCell, collections::HashMap, io::Cursor, rc::Rc, sync::Arc};

use c2pa::{
    verif_hooks::c01::{box_map, box_verify, hard_bindings, VerifBinding},
    Context, Reader,
};
use serde_json::{json, Value};

use crate::{e2e, util::*};

struct Asset {
    bytes: Vec<u8>,
    alg: String,
    bindings: Vec<VerifBinding>,
}

thread_local! {
    static ASSETS: RefCell<HashMap<String, Rc<Asset>>> = RefCell::new(HashMap::new());
    static CTX: Arc<Context> = Arc::new(e2e::context(None));
}

fn assets_dir() -> String {
    let b = std::env::var("VERIF_BUILD").unwrap_or_else(|_| "/verif/.build".to_string());
    format!("{b}/cases/c01_assets")
}

fn src_bytes(spec: &str) -> Vec<u8> {
    if let Some(f) = spec.strip_prefix("fixture:") {
        e2e::fixture(f)
    } else if let Some(h) = spec.strip_prefix("hex:") {
        hex::decode(h).expect("hex src")
    } else {
        panic!("bad src spec")
    }
}

fn sign_asset(recipe: &Value) -> Result<Vec<u8>, String> {
    let format = recipe["format"].as_str().unwrap_or("image/jpeg");
    let src = src_bytes(recipe["src"].as_str().unwrap_or(""));
    let binding = recipe["binding"].as_str().unwrap_or("data");
    let mut extra = json!({"builder": {"thumbnail": {"enabled": false}}});
    if binding == "box" {
        extra["core"] = json!({"prefer_compress_manifests": true});
    }
    let ctx = e2e::context(Some(&extra.to_string()));
    let signer = e2e::signer(recipe["alg"].as_str().unwrap_or("ed25519"));
    let def = e2e::minimal_manifest(recipe["name"].as_str().unwrap_or("t"));
    let first = e2e::sign(ctx, &def, format, &src, signer.as_ref()).map_err(|e| err_class(&e))?;
    if binding != "update" {
        return Ok(first);
    }
    // an update manifest on top of the data-hash manifest: the source stream becomes the parentOf ingredient
    let ctx = e2e::context(Some(&extra.to_string()));
    let def = json!({"title": "update", "claim_generator_info": [{"name": "verif-harness", "version": "0.1"}]}).to_string();
    let mut b = c2pa::Builder::from_context(ctx).with_definition(def.as_str()).map_err(|e| err_class(&e))?;
    b.set_intent(c2pa::BuilderIntent::Update);
    let mut input = Cursor::new(first);
    let mut out = Cursor::new(Vec::new());
    b.sign(signer.as_ref(), format, &mut input, &mut out).map_err(|e| format!("update: {} {}", err_class(&e), e))?;
    Ok(out.into_inner())
}

fn load(recipe: &Value, fresh: bool) -> Result<Rc<Asset>, String> {
    let name = recipe["name"].as_str().unwrap_or("asset").to_string();
    if !fresh {
        if let Some(a) = ASSETS.with(|m| m.borrow().get(&name).cloned()) {
            return Ok(a);
        }
    }
    let dir = assets_dir();
    let path = format!("{dir}/{name}.bin");
    let bytes = match (fresh, std::fs::read(&path)) {
        (false, Ok(b)) => b,
        _ => {
            let b = sign_asset(recipe)?;
            std::fs::create_dir_all(&dir).ok();
            let tmp = format!("{path}.{}.tmp", std::process::id());
            std::fs::write(&tmp, &b).map_err(|e| e.to_string())?;
            std::fs::rename(&tmp, &path).map_err(|e| e.to_string())?;
            b
        }
    };
    let format = recipe["format"].as_str().unwrap_or("image/jpeg");
    let (alg, _upd, bindings) = hard_bindings(format, &bytes).map_err(|e| format!("bindings: {}", err_class(&e)))?;
    let a = Rc::new(Asset { bytes, alg, bindings });
    ASSETS.with(|m| m.borrow_mut().insert(name, a.clone()));
    Ok(a)
}

/// JSON text with object keys sorted (Reader::json() iterates hash maps in arbitrary order)
fn canon(v: &Value) -> String {
    match v {
        Value::Object(m) => {
            let mut keys: Vec<&String> = m.keys().collect();
            keys.sort();
            let parts: Vec<String> = keys.iter().map(|k| format!("{}:{}", Value::String((*k).clone()), canon(&m[*k]))).collect();
            format!("{{{}}}", parts.join(","))
        }
        Value::Array(a) => format!("[{}]", a.iter().map(canon).collect::<Vec<_>>().join(",")),
        _ => v.to_string(),
    }
}

fn fnv(s: &str) -> String {
    let mut h: u64 = 0xcbf29ce484222325;
    for b in s.as_bytes() {
        h ^= *b as u64;
        h = h.wrapping_mul(0x100000001b3);
    }
    format!("{h:016x}")
}

fn read_report(format: &str, bytes: &[u8]) -> Value {
    let ctx = CTX.with(|c| c.clone());
    match Reader::from_shared_context(&ctx).with_stream(format, Cursor::new(bytes.to_vec())) {
        Ok(r) => {
            let rep = e2e::report(&r);
            let js = canon(&e2e::stable_json(&r));
            json!({"r": "ok", "state": rep["state"], "failure": rep["failure"], "success": rep["success"],
                   "informational": rep["informational"], "jh": fnv(&js), "jlen": js.len()})
        }
        Err(e) => json!({"r": "err", "kind": err_class(&e)}),
    }
}

fn binding_json(a: &Asset) -> Value {
    let mut out = vec![];
    for b in &a.bindings {
        out.push(match b {
            VerifBinding::Data(dh) => json!({
                "kind": "data", "alg": dh.alg,
                "exclusions": dh.exclusions.as_ref().map(|v| v.iter().map(|r| json!([r.start(), r.length()])).collect::<Vec<_>>()),
                "hash": hexe(&dh.hash)}),
            VerifBinding::Box(bh) => json!({
                "kind": "box",
                "boxes": bh.boxes.iter().map(|b| json!({"names": b.names, "alg": b.alg, "hash": hexe(&b.hash),
                                                       "excluded": b.excluded, "pad": b.pad.len()})).collect::<Vec<_>>()}),
            VerifBinding::Bmff(bm) => json!({
                "kind": "bmff", "alg": bm.alg(), "version": bm.bmff_version(),
                "hash": bm.hash().map(|h| hexe(h)),
                "merkle": bm.merkle().map(|m| m.len()),
                "exclusions": serde_json::to_value(bm.exclusions()).unwrap_or(Value::Null)}),
        });
    }
    json!(out)
}

fn map_json(format: &str, bytes: &[u8]) -> Value {
    match box_map(format, bytes) {
        Ok(m) => json!(m.iter().map(|(n, s, l, x)| json!({"names": n, "start": s, "len": l, "excluded": x})).collect::<Vec<_>>()),
        Err(e) => json!({"err": err_class(&e)}),
    }
}

pub fn mutate(base: &[u8], m: &Value) -> Vec<u8> {
    let mut v = base.to_vec();
    let pos = m["pos"].as_u64().unwrap_or(0) as usize;
    match m["k"].as_str().unwrap_or("") {
        "set" => {
            if pos < v.len() {
                v[pos] = m["val"].as_u64().unwrap_or(0) as u8;
            }
        }
        "flip" => {
            if pos < v.len() {
                v[pos] ^= 1u8 << (m["bit"].as_u64().unwrap_or(0) as u32 & 7);
            }
        }
        "insert" => {
            let ins = hexd(&m["hex"]);
            let p = pos.min(v.len());
            v.splice(p..p, ins);
        }
        "delete" => {
            let n = m["n"].as_u64().unwrap_or(1) as usize;
            let p = pos.min(v.len());
            let e = (p + n).min(v.len());
            v.drain(p..e);
        }
        "splice" => {
            // replace n bytes at pos by the given bytes
            let n = m["n"].as_u64().unwrap_or(0) as usize;
            let p = pos.min(v.len());
            let e = (p + n).min(v.len());
            v.splice(p..e, hexd(&m["hex"]));
        }
        "append" => v.extend_from_slice(&hexd(&m["hex"])),
        "truncate" => {
            let n = m["n"].as_u64().unwrap_or(1) as usize;
            let l = v.len().saturating_sub(n);
            v.truncate(l);
        }
        "none" => {}
        other => panic!("unknown mutation {other}"),
    }
    v
}

fn direct(a: &Asset, format: &str, bytes: &[u8]) -> Value {
    let mut out = vec![];
    for b in &a.bindings {
        let r = match b {
            VerifBinding::Data(dh) => dh.verify_stream_hash(&mut Cursor::new(bytes), Some(&a.alg)),
            VerifBinding::Box(bh) => box_verify(bh, format, bytes, Some(&a.alg)),
            VerifBinding::Bmff(bm) => bm.verify_stream_hash(&mut Cursor::new(bytes), Some(&a.alg)),
        };
        out.push(match r {
            Ok(()) => json!("ok"),
            Err(e) => json!(format!("err:{}:{}", err_class(&e), e)),
        });
    }
    json!(out)
}

pub fn run(case: &Value) -> Value {
    let recipe = &case["asset"];
    let format = recipe["format"].as_str().unwrap_or("image/jpeg");
    match case["op"].as_str().unwrap_or("mut") {
        "prepare" => {
            let a = match load(recipe, case["fresh"].as_bool().unwrap_or(true)) {
                Ok(a) => a,
                Err(e) => return json!({"r": "err", "stage": "sign", "kind": e}),
            };
            let t0 = std::time::Instant::now();
            let rep = read_report(format, &a.bytes);
            let ms = t0.elapsed().as_millis() as u64;
            let mut out = json!({"r": "ok", "len": a.bytes.len(), "alg": a.alg, "binding": binding_json(&a),
                                 "read": rep, "read_ms": ms, "direct": direct(&a, format, &a.bytes)});
            if case["map"].as_bool().unwrap_or(false) {
                out["map"] = map_json(format, &a.bytes);
            }
            if case["bytes"].as_bool().unwrap_or(false) {
                out["hex"] = json!(hexe(&a.bytes));
            }
            if let Ok(j) = c2pa::jumbf_io::load_jumbf_from_stream(format, &mut Cursor::new(&a.bytes)) {
                // where the manifest store payload sits in the file (first occurrence of its first 64 bytes)
                out["jumbf_len"] = json!(j.len());
            }
            out
        }
        _ => {
            let a = match load(recipe, false) {
                Ok(a) => a,
                Err(e) => return json!({"r": "err", "stage": "sign", "kind": e}),
            };
            let bytes = mutate(&a.bytes, &case["m"]);
            let mut out = read_report(format, &bytes);
            out["len"] = json!(bytes.len());
            if case["direct"].as_bool().unwrap_or(false) {
                out["direct"] = direct(&a, format, &bytes);
            }
            if case["map"].as_bool().unwrap_or(false) {
                out["map"] = map_json(format, &bytes);
            }
            out
        }
    }
}
