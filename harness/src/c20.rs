//! C20: redaction.
//!
//! A case builds an ingredient chain L0 <- L1 <- .. (each level a signed manifest with custom, redactable assertions
//! `com.verif.a<level>_<i>`, plus one labelled `com.verif.shared` at every level (index 9), whose payloads are unique
//! marker strings), then one more manifest on top that redacts, and
//! reads the result back:
//!   {"fmt": "jpeg"|"png",
//!    "levels": [n0, n1, ...],                 // custom assertions per chain level (depth = levels.len(), 1..3)
//!    "top": {"intent": "edit"|"update",
//!            "redact": [target, ...],          // ManifestDefinition.redactions (+ one c2pa.redacted action each)
//!            "craft": null | {                 // claim taken from the Builder, altered, then signed:
//!                "unlisted": [target, ...],    //   removed from the ingredient's store with no redaction entry
//!                "list": null | [target, ...]} //   the claim's redacted_assertions replaced by exactly this list
//!           },
//!    "sib": bool,                             // level 0 also carries same-label / prefix-label siblings (see SIBLINGS)
//!    "post": [[level, i], ...]}               // after signing: payload bytes overwritten in place in the output asset
//! target = {"m": level | "self" | "none", "a": assertion label}
//! out: sign result; per manifest (chain order, top last): custom assertion labels present, redaction list (as
//! [m, label] pairs); state and failure codes (active manifest and ingredients); for every marker whether its bytes occur
//! in the output asset; the same before `post` is applied.
use std::{cell::RefCell, collections::HashMap, io::Cursor, sync::Arc};

use c2pa::{verif_hooks::c20::to_assertion_uri, Builder, BuilderIntent, Context, Reader};
use serde_json::{json, Value};

use crate::{e2e, util::*};

thread_local! {
    static CTX: Arc<Context> = Arc::new(e2e::context(None));
    static CTX_NOVERIFY: Arc<Context> = Arc::new(e2e::context(Some(r#"{"verify": {"verify_after_sign": false}}"#)));
    static NONCE: RefCell<u64> = const { RefCell::new(0) };
    static SIB: std::cell::Cell<bool> = const { std::cell::Cell::new(false) };
    #[allow(clippy::type_complexity)]
    static CHAINS: RefCell<HashMap<String, (Vec<u8>, Vec<String>, String, Value)>> = RefCell::new(HashMap::new());
}

fn format_of(fmt: &str) -> (&'static str, &'static str) {
    match fmt {
        "png" => ("image/png", "libpng-test.png"),
        _ => ("image/jpeg", "no_manifest.jpg"),
    }
}

pub fn marker(nonce: &str, level: usize, i: usize) -> String {
    format!("VERIF-SECRET-{nonce}-L{level}-I{i}-PAYLOAD")
}

/// index of the assertion that carries the same label at every level
pub const SHARED: usize = 9;

/// with "sib": level 0 also carries three assertions labelled `com.verif.dup` (stored as dup, dup__1, dup__2; indices
/// 20..22) and two whose labels are prefixes of one another (`org.va` index 30, `org.vab` index 31)
pub const SIBLINGS: [(usize, &str); 5] = [(20, "com.verif.dup"), (21, "com.verif.dup"), (22, "com.verif.dup"), (30, "org.va"), (31, "org.vab")];

fn custom_assertions(nonce: &str, level: usize, n: usize) -> Vec<Value> {
    let mut v: Vec<Value> = (0..n).map(|i| json!({"label": format!("com.verif.a{level}_{i}"), "data": {"secret": marker(nonce, level, i)}})).collect();
    v.push(json!({"label": "com.verif.shared", "data": {"secret": marker(nonce, level, SHARED)}}));
    if level == 0 && SIB.with(|s| s.get()) {
        for (i, l) in SIBLINGS {
            v.push(json!({"label": l, "data": {"secret": marker(nonce, level, i)}}));
        }
    }
    v
}

fn marker_indices(level: usize, n: usize) -> Vec<usize> {
    let mut v: Vec<usize> = (0..n).collect();
    v.push(SHARED);
    if level == 0 && SIB.with(|s| s.get()) {
        v.extend(SIBLINGS.iter().map(|s| s.0));
    }
    v
}

fn level_label(nonce: &str, level: usize) -> String {
    let h = nonce.bytes().fold(0xcbf29ce484222325u64, |a, b| (a ^ b as u64).wrapping_mul(0x100000001b3));
    format!("urn:c2pa:{:08x}-{:04x}-4000-8000-{:012x}", (h >> 32) as u32, level, h & 0xffff_ffff_ffff)
}

fn sign_level(format: &str, prev: &[u8], nonce: &str, level: usize, n: usize) -> c2pa::Result<Vec<u8>> {
    let ctx = CTX.with(|c| c.clone());
    let mut assertions = custom_assertions(nonce, level, n);
    if level == 0 {
        assertions.push(json!({"label": "c2pa.actions", "data": {"actions": [{"action": "c2pa.created",
            "digitalSourceType": "http://cv.iptc.org/newscodes/digitalsourcetype/digitalCapture"}]}}));
    }
    let def = json!({"title": format!("level {level}"), "label": level_label(nonce, level), "claim_generator_info": [{"name": "verif-harness", "version": "0.1"}],
                     "assertions": assertions})
    .to_string();
    let mut b = Builder::from_shared_context(&ctx).with_definition(def)?;
    if level > 0 {
        b.set_intent(BuilderIntent::Edit);
    }
    let signer = e2e::signer("ed25519");
    let mut src = Cursor::new(prev.to_vec());
    let mut dst = Cursor::new(Vec::new());
    b.sign(signer.as_ref(), format, &mut src, &mut dst)?;
    Ok(dst.into_inner())
}

fn active_label(format: &str, bytes: &[u8]) -> String {
    let ctx = CTX.with(|c| c.clone());
    match Reader::from_shared_context(&ctx).with_stream(format, Cursor::new(bytes.to_vec())) {
        Ok(r) => r.active_label().unwrap_or("").to_string(),
        Err(_) => String::new(),
    }
}

fn uri_of(t: &Value, labels: &[String], own: &str) -> String {
    let a = t["a"].as_str().unwrap_or("");
    let m = match &t["m"] {
        Value::Number(n) => labels.get(n.as_u64().unwrap_or(0) as usize).cloned().unwrap_or_default(),
        Value::String(s) if s == "self" => own.to_string(),
        _ => "urn:c2pa:00000000-0000-4000-8000-000000000000".to_string(),
    };
    to_assertion_uri(&m, a)
}

/// [m, label]: index of the manifest a URI names (-1 unknown, top = labels.len()-1) and its last path segment
fn canon_uri(u: &str, labels: &[String]) -> Value {
    let m = labels.iter().position(|l| u.contains(&format!("/{l}/"))).map(|i| i as i64).unwrap_or(-1);
    json!([m, u.rsplit('/').next().unwrap_or("")])
}

fn read_back(format: &str, bytes: &[u8], labels: &[String], nonce: &str, levels: &[usize]) -> Value {
    let ctx = CTX.with(|c| c.clone());
    let found: Vec<Value> = levels
        .iter()
        .enumerate()
        .flat_map(|(l, n)| marker_indices(l, *n).into_iter().map(move |i| (l, i)))
        .map(|(l, i)| {
            let m = marker(nonce, l, i);
            json!([l, i, bytes.windows(m.len()).any(|w| w == m.as_bytes())])
        })
        .collect();
    match Reader::from_shared_context(&ctx).with_stream(format, Cursor::new(bytes.to_vec())) {
        Ok(r) => {
            let rep = e2e::report(&r);
            let js: Value = serde_json::from_str(&r.json()).unwrap_or(Value::Null);
            let mut manifests = vec![];
            for l in labels {
                let m = &js["manifests"][l];
                if m.is_null() {
                    manifests.push(Value::Null);
                    continue;
                }
                let mut present: Vec<String> = m["assertions"]
                    .as_array()
                    .map(|a| a.iter().filter_map(|x| x["label"].as_str()).filter(|s| s.starts_with("com.verif.") || s.starts_with("org.v")).map(|s| s.to_string()).collect())
                    .unwrap_or_default();
                present.sort();
                // payloads reported for the custom assertions
                let leaked: Vec<String> = m["assertions"]
                    .as_array()
                    .map(|a| a.iter().filter_map(|x| x["data"]["secret"].as_str()).map(|s| s.to_string()).collect())
                    .unwrap_or_default();
                let reds: Vec<Value> = m["redactions"].as_array().map(|a| a.iter().map(|u| canon_uri(u.as_str().unwrap_or(""), labels)).collect()).unwrap_or_default();
                manifests.push(json!({"present": present, "secrets": leaked, "redactions": reds,
                                      "n_ingredients": m["ingredients"].as_array().map(|a| a.len()).unwrap_or(0)}));
            }
            let ing_fail: Vec<Value> = rep["deltas"].as_array().map(|a| a.iter().map(|d| d["failure"].clone()).collect()).unwrap_or_default();
            json!({"r": "ok", "state": rep["state"], "failure": rep["failure"], "ing_failure": ing_fail, "manifests": manifests,
                   "found": found, "active": labels.iter().position(|l| Some(l.as_str()) == r.active_label()).map(|i| i as i64).unwrap_or(-1)})
        }
        Err(e) => json!({"r": "err", "kind": err_class(&e), "found": found}),
    }
}

fn sign_top(format: &str, prev: &[u8], top: &Value, labels: &[String], own_label: &str) -> c2pa::Result<Vec<u8>> {
    let craft = !top["craft"].is_null();
    let ctx = if craft { CTX_NOVERIFY.with(|c| c.clone()) } else { CTX.with(|c| c.clone()) };
    let empty = vec![];
    let redact: Vec<String> = top["redact"].as_array().unwrap_or(&empty).iter().map(|t| uri_of(t, labels, own_label)).collect();
    let acts: Vec<Value> = redact
        .iter()
        .map(|u| json!({"action": "c2pa.redacted", "reason": "c2pa.PII.present", "parameters": {"redacted": u}}))
        .collect();
    let mut def = json!({"title": "top", "label": own_label, "claim_generator_info": [{"name": "verif-harness", "version": "0.1"}],
                         "assertions": [{"label": "com.verif.top", "data": {"note": "top"}}]});
    if !acts.is_empty() {
        def["assertions"].as_array_mut().expect("arr").push(json!({"label": "c2pa.actions", "data": {"actions": acts}}));
    }
    if !top["redact"].is_null() {
        def["redactions"] = json!(redact);
    }
    let mut b = Builder::from_shared_context(&ctx).with_definition(def.to_string())?;
    b.set_intent(if top["intent"].as_str().unwrap_or("edit") == "update" { BuilderIntent::Update } else { BuilderIntent::Edit });
    let signer = e2e::signer("ed25519");
    let mut src = Cursor::new(prev.to_vec());
    let mut dst = Cursor::new(Vec::new());
    if !craft {
        b.sign(signer.as_ref(), format, &mut src, &mut dst)?;
        return Ok(dst.into_inner());
    }
    let mut claim = b.verif_c21_prepare_claim(format, &mut src)?;
    let own = claim.label().to_string();
    for t in top["craft"]["unlisted"].as_array().unwrap_or(&empty) {
        let u = uri_of(t, labels, &own);
        let m = match &t["m"] {
            Value::Number(n) => labels.get(n.as_u64().unwrap_or(0) as usize).cloned().unwrap_or_default(),
            _ => String::new(),
        };
        match claim.claim_ingredient_mut(&m) {
            Some(ing) => ing.verif_c20_redact_assertion(&u)?,
            None => return Err(c2pa::Error::NotFound),
        }
    }
    if let Some(list) = top["craft"]["list"].as_array() {
        let l: Vec<String> = list.iter().map(|t| uri_of(t, labels, &own)).collect();
        claim.verif_c20_set_redactions(if l.is_empty() { None } else { Some(l) });
    }
    b.verif_c21_sign_claim(claim, None, signer.as_ref(), format, &mut src, &mut dst)?;
    Ok(dst.into_inner())
}

pub fn run(case: &Value) -> Value {
    if case["op"].as_str() == Some("facts") {
        let (a, h) = c2pa::verif_hooks::c20::non_redactable_substrings();
        return json!({"r": "ok", "actions": a, "hashes": h});
    }
    let fmt = case["fmt"].as_str().unwrap_or("jpeg");
    let (format, fx) = format_of(fmt);
    let nonce = NONCE.with(|n| {
        *n.borrow_mut() += 1;
        format!("{:x}-{}", std::process::id(), n.borrow())
    });
    let levels: Vec<usize> = case["levels"].as_array().map(|a| a.iter().map(|x| x.as_u64().unwrap_or(0) as usize).collect()).unwrap_or_else(|| vec![1]);
    // the chain below the redacting manifest is built once per (format, layout) and process
    let sib = case["sib"].as_bool().unwrap_or(false);
    SIB.with(|s| s.set(sib));
    let key = format!("{fmt}:{levels:?}:{sib}");
    let cached = CHAINS.with(|m| m.borrow().get(&key).cloned());
    let (asset, labels_chain, nonce, before) = match cached {
        Some(t) => t,
        None => {
            let mut asset = e2e::fixture(fx);
            let mut labels = vec![];
            for (l, n) in levels.iter().enumerate() {
                asset = match sign_level(format, &asset, &nonce, l, *n) {
                    Ok(a) => a,
                    Err(e) => return json!({"r": "chain-sign-failed", "level": l, "kind": err_class(&e)}),
                };
                labels.push(level_label(&nonce, l));
            }
            let before = read_back(format, &asset, &labels, &nonce, &levels);
            if active_label(format, &asset) != *labels.last().expect("labels") {
                return json!({"r": "chain-sign-failed", "level": levels.len(), "kind": "label-not-kept"});
            }
            let t = (asset, labels, nonce.clone(), before);
            CHAINS.with(|m| m.borrow_mut().insert(key, t.clone()));
            t
        }
    };
    let mut labels = labels_chain;
    // the top manifest gets a label chosen up front so that a case can name it ("self")
    let own_label = format!("urn:c2pa:{:08x}-0000-4000-8000-{:012x}", std::process::id(), NONCE.with(|n| *n.borrow()));
    let top = &case["top"];
    let signed = sign_top(format, &asset, top, &labels, &own_label);
    let mut out = match signed {
        Ok(a) => a,
        Err(e) => {
            return json!({"r": "sign-refused", "kind": err_class(&e), "before": {"state": before["state"], "found": before["found"]}});
        }
    };
    labels.push(own_label.clone());
    let mut posted = vec![];
    let empty = vec![];
    for p in case["post"].as_array().unwrap_or(&empty) {
        let m = marker(&nonce, p[0].as_u64().unwrap_or(0) as usize, p[1].as_u64().unwrap_or(0) as usize);
        let mut hits = 0;
        let mut i = 0;
        while i + m.len() <= out.len() {
            if &out[i..i + m.len()] == m.as_bytes() {
                for b in &mut out[i..i + m.len()] {
                    *b = b'x';
                }
                hits += 1;
                i += m.len();
            } else {
                i += 1;
            }
        }
        posted.push(hits);
    }
    if let Some(p) = case["dump"].as_str() {
        std::fs::write(p, &out).ok();
    }
    let after = read_back(format, &out, &labels, &nonce, &levels);
    json!({"r": "ok", "posted": posted,
           "before": {"state": before["state"], "found": before["found"]}, "after": after})
}
