//! C17: mdat Merkle accumulator and the BMFF placeholder workflow.
//! kinds:
//!  {k:"acc", fixed:null|bytes, fixed_kb:null|kb, calls:[[mdat_id, large, hex]..]}
//!      -> recorded leaves (length, digest), pending remainders and consumed header bytes per mdat, index/class of the first failing call
//!  {k:"e2e", fixed_kb:null|kb, nleaves:int, mdats:[{large, len, seed, splits:[chunk lengths]}..]}
//!      -> generated MP4 (ftyp free mdat.. moov), Builder::placeholder / hash_bmff_mdat_bytes / update_hash_from_stream /
//!         sign_embeddable, manifest patched over the free box, read back: MerkleMaps + validation report
use std::io::Cursor;

use c2pa::{
    verif_hooks::c17::{verif_builder_bmff_hash, MerkleAccumulator},
    Builder,
};
use serde_json::{json, Map, Value};

use crate::{e2e, util::*};

pub fn payload(len: usize, seed: u64) -> Vec<u8> {
    let mut x = seed & 0x7fff_ffff;
    let mut v = Vec::with_capacity(len);
    for _ in 0..len {
        x = (x.wrapping_mul(1103515245).wrapping_add(12345)) & 0x7fff_ffff;
        v.push(((x >> 16) & 0xff) as u8);
    }
    v
}

fn bx(fourcc: &[u8; 4], body: &[u8]) -> Vec<u8> {
    let mut v = ((body.len() + 8) as u32).to_be_bytes().to_vec();
    v.extend_from_slice(fourcc);
    v.extend_from_slice(body);
    v
}

fn acc(case: &Value) -> Value {
    let mut a = MerkleAccumulator::new(case["alg"].as_str().unwrap_or("sha256")).expect("accumulator");
    if !case["fixed_kb"].is_null() {
        a.set_fixed_size(u64_of(&case["fixed_kb"]) as usize);
    }
    if !case["fixed"].is_null() {
        a.fixed_size = Some(u64_of(&case["fixed"]) as usize);
    }
    let mut first_err = Value::Null;
    for (k, c) in case["calls"].as_array().cloned().unwrap_or_default().iter().enumerate() {
        let id = u64_of(&c[0]) as usize;
        let large = c[1].as_bool().unwrap_or(false);
        let data = hexd(&c[2]);
        if let Err(e) = a.add_merkle_leaf(id, large, &data) {
            first_err = json!([k, err_class(&e)]);
            break;
        }
    }
    let mut leaves = Map::new();
    for (id, l) in a.merkle_leaves.iter() {
        leaves.insert(id.to_string(), Value::Array(l.iter().map(|(n, h)| json!([n, hexe(h)])).collect()));
    }
    let mut ids: Vec<&usize> = a.fixed_size_remainder.keys().collect();
    ids.sort();
    let mut rem = Map::new();
    for id in ids {
        rem.insert(id.to_string(), json!(hexe(&a.fixed_size_remainder[id])));
    }
    let mut ids: Vec<&usize> = a.header_skipped.keys().collect();
    ids.sort();
    let mut skipped = Map::new();
    for id in ids {
        skipped.insert(id.to_string(), json!(a.header_skipped[id]));
    }
    json!({"r": "ok", "leaves": leaves, "rem": rem, "skipped": skipped, "err": first_err, "fixed": a.fixed_size})
}

fn e2e_run(case: &Value) -> Value {
    let fmt = "video/mp4";
    let ctx = e2e::context(None).with_signer(e2e::signer("ed25519"));
    let mut builder = match Builder::from_context(ctx).with_definition(e2e::minimal_manifest("c17")) {
        Ok(b) => b,
        Err(e) => return json!({"r": "err", "at": "definition", "kind": err_class(&e)}),
    };
    if !case["fixed_kb"].is_null() {
        builder.set_bmff_hash_fixed_leaf_size(u64_of(&case["fixed_kb"]) as usize);
    }
    let ph = match builder.placeholder(fmt) {
        Ok(p) => p,
        Err(e) => return json!({"r": "err", "at": "placeholder", "kind": err_class(&e), "detail": e.to_string()}),
    };
    let nleaves = case["nleaves"].as_u64().unwrap_or(32) as usize;
    let free_size = ph.len() + 64 * nleaves + 2048;

    // ---- the asset, as an application would write it
    let mut ftyp_body = b"isom".to_vec();
    ftyp_body.extend_from_slice(&0x200u32.to_be_bytes());
    ftyp_body.extend_from_slice(b"isomiso2mp41");
    let mut asset = bx(b"ftyp", &ftyp_body);
    let free_off = asset.len();
    asset.extend_from_slice(&bx(b"free", &vec![0u8; free_size - 8]));
    let mdats = case["mdats"].as_array().cloned().unwrap_or_default();
    let mut payloads = vec![];
    for m in &mdats {
        let large = m["large"].as_bool().unwrap_or(false);
        let p = payload(u64_of(&m["len"]) as usize, m["seed"].as_u64().unwrap_or(1));
        if large {
            asset.extend_from_slice(&1u32.to_be_bytes());
            asset.extend_from_slice(b"mdat");
            asset.extend_from_slice(&((p.len() + 16) as u64).to_be_bytes());
        } else {
            asset.extend_from_slice(&((p.len() + 8) as u32).to_be_bytes());
            asset.extend_from_slice(b"mdat");
        }
        asset.extend_from_slice(&p);
        payloads.push((large, p));
    }
    let mut mvhd = vec![0u8; 100];
    mvhd[12..16].copy_from_slice(&1000u32.to_be_bytes()); // timescale
    mvhd[20..24].copy_from_slice(&0x0001_0000u32.to_be_bytes()); // rate
    mvhd[96..100].copy_from_slice(&2u32.to_be_bytes()); // next track id
    asset.extend_from_slice(&bx(b"moov", &bx(b"mvhd", &mvhd)));

    // ---- feed the mdat payloads chunk by chunk
    for (id, (m, (large, p))) in mdats.iter().zip(payloads.iter()).enumerate() {
        let mut pos = 0usize;
        for s in m["splits"].as_array().cloned().unwrap_or_default() {
            let l = u64_of(&s) as usize;
            if let Err(e) = builder.hash_bmff_mdat_bytes(id, &p[pos..pos + l], *large) {
                return json!({"r": "err", "at": "hash_bmff_mdat_bytes", "kind": err_class(&e), "detail": e.to_string()});
            }
            pos += l;
        }
        assert_eq!(pos, p.len(), "splits must cover the payload");
    }
    if let Err(e) = builder.update_hash_from_stream(fmt, &mut Cursor::new(asset.clone())) {
        return json!({"r": "err", "at": "update_hash_from_stream", "kind": err_class(&e), "detail": e.to_string()});
    }
    let maps: Vec<Value> = match verif_builder_bmff_hash(&builder) {
        Ok(bh) => bh
            .merkle()
            .map(|v| {
                v.iter()
                    .map(|mm| {
                        json!({"id": mm.local_id, "count": mm.count, "fixed": mm.fixed_block_size, "var": mm.variable_block_sizes,
                               "hashes": mm.hashes.iter().map(|h| hexe(h)).collect::<Vec<_>>()})
                    })
                    .collect()
            })
            .unwrap_or_default(),
        Err(e) => return json!({"r": "err", "at": "find_assertion", "kind": err_class(&e)}),
    };
    let signed = match builder.sign_embeddable(fmt) {
        Ok(s) => s,
        Err(e) => return json!({"r": "err", "at": "sign_embeddable", "kind": err_class(&e), "detail": e.to_string(), "maps": maps}),
    };
    if signed.len() + 8 > free_size {
        return json!({"r": "err", "at": "patch", "kind": "ManifestLargerThanFreeBox", "maps": maps});
    }
    // ---- overwrite the free box with the manifest followed by a smaller free box (same total size)
    asset[free_off..free_off + signed.len()].copy_from_slice(&signed);
    let rest = free_size - signed.len();
    let fb = bx(b"free", &vec![0u8; rest - 8]);
    asset[free_off + signed.len()..free_off + free_size].copy_from_slice(&fb);

    match e2e::read(e2e::context(None), fmt, &asset) {
        Ok(r) => json!({"r": "ok", "maps": maps, "report": e2e::report(&r), "asset_len": asset.len()}),
        Err(e) => json!({"r": "err", "at": "read", "kind": err_class(&e), "detail": e.to_string(), "maps": maps}),
    }
}

pub fn run(case: &Value) -> Value {
    match case["k"].as_str().unwrap_or("") {
        "acc" => acc(case),
        "e2e" => e2e_run(case),
        _ => json!({"r": "badcase"}),
    }
}
