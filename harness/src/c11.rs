//! C11: format hint vs. content sniffing.
//! ops:
//!  {op:"resolve", hint, data:hex}            -> detected container, hinted container, resolved format, handler present
//!  {op:"table"}                              -> get_supported_types() with the container id of each
//!  {op:"sign", fmt, fixture, out:path}       -> sign the fixture (default hashing) and write it to `out`
//!  {op:"read", hint, path | data:hex, full?} -> read under the hint: canonical report + hash of the normalised JSON
use std::hash::{Hash, Hasher};

use c2pa::verif_hooks::c11::{container_from_bytes, format_from_stream, has_handler, verif_container_from_format};
use serde_json::{json, Value};

use crate::{e2e, util::*};

fn load(case: &Value) -> Vec<u8> {
    if let Some(p) = case["path"].as_str() {
        std::fs::read(p).unwrap_or_else(|e| panic!("read {p}: {e}"))
    } else if let Some(f) = case["fixture"].as_str() {
        e2e::fixture(f)
    } else {
        hexd(&case["data"])
    }
}

pub fn run(case: &Value) -> Value {
    match case["op"].as_str().unwrap_or("resolve") {
        "resolve" => {
            let bytes = load(case);
            let hint = case["hint"].as_str().unwrap_or("");
            let resolved = format_from_stream(hint, &bytes);
            let detected = container_from_bytes(&bytes);
            json!({"r": "ok",
                   "detected": detected,
                   "detected_container": detected.and_then(verif_container_from_format),
                   "hinted": verif_container_from_format(hint),
                   "resolved": resolved,
                   "resolved_container": verif_container_from_format(&resolved),
                   "handler": has_handler(&resolved)})
        }
        "table" => {
            let mut t: Vec<(String, Option<&'static str>)> = c2pa::jumbf_io::get_supported_types()
                .into_iter()
                .map(|s| {
                    let c = verif_container_from_format(&s);
                    (s, c)
                })
                .collect();
            t.sort();
            json!({"r": "ok", "table": t})
        }
        "sign" => {
            let src = load(case);
            let fmt = case["fmt"].as_str().expect("fmt");
            let signer = e2e::signer("ed25519");
            match e2e::sign(e2e::context(None), &e2e::minimal_manifest("c11"), fmt, &src, signer.as_ref()) {
                Ok(out) => {
                    std::fs::write(case["out"].as_str().expect("out"), &out).expect("write");
                    json!({"r": "ok", "len": out.len(), "detected": container_from_bytes(&out)})
                }
                Err(e) => json!({"r": "err", "kind": err_class(&e), "detail": format!("{e}")}),
            }
        }
        "read" => {
            let bytes = load(case);
            let hint = case["hint"].as_str().unwrap_or("");
            let detected = container_from_bytes(&bytes);
            let resolved = format_from_stream(hint, &bytes);
            match e2e::read(e2e::context(None), hint, &bytes) {
                Ok(r) => {
                    let j = e2e::stable_json(&r);
                    let s = j.to_string();
                    let mut h = std::collections::hash_map::DefaultHasher::new();
                    s.hash(&mut h);
                    let mut out = json!({"r": "ok", "detected": detected, "resolved": resolved, "report": e2e::report(&r),
                                         "json_len": s.len(), "json_hash": format!("{:016x}", h.finish())});
                    if case["full"].as_bool().unwrap_or(false) {
                        out["json"] = j;
                    }
                    out
                }
                Err(e) => json!({"r": "err", "detected": detected, "resolved": resolved, "kind": err_class(&e), "detail": format!("{e}")}),
            }
        }
        other => json!({"r": "bad-op", "op": other}),
    }
}
