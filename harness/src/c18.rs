//! C18: JUMBF manifest stores round-trip canonically.
//! ops:
//!   {op:"extract", file}                         -> {r:"ok", jumbf:hex}     manifest store of a fixture
//!   {op:"build", def, settings?, src, format, alg?, ingredient?} -> {r:"ok", jumbf:hex}   Builder::sign, then extract
//!   {op:"box", data:hex}     BoxReader::read_super_box on the bytes; canonical tree; write_box; parse+write again
//!   {op:"write", tree}      boxes built with the SDK's constructors, BMFFBox::write_box -> {r:"ok", jumbf:hex}
//!   {op:"store", data:hex}   Store::from_jumbf; to_jumbf_internal; again
use std::io::Cursor;
use std::sync::mpsc;
use std::time::Duration;

use c2pa::verif_hooks::c18::*;
use serde_json::{json, Value};

use crate::e2e;
use crate::util::*;

fn perr(e: &JumbfParseError) -> String {
    let d = format!("{:?}", e);
    let end = d.find(|c: char| !(c.is_alphanumeric() || c == '_')).unwrap_or(d.len());
    d[..end].to_string()
}

fn opt_hex(o: Option<Vec<u8>>) -> Value {
    match o {
        Some(v) => Value::String(hexe(&v)),
        None => Value::Null,
    }
}

fn tree(sb: &JUMBFSuperBox) -> Value {
    let (uuid, togs, label, id, sig, salt) = sb.desc_box().verif_raw();
    let mut kids = Vec::new();
    for i in 0..sb.data_box_count() {
        let b = sb.data_box(i).expect("child");
        let a = b.as_any();
        let v = if let Some(s) = a.downcast_ref::<JUMBFSuperBox>() {
            tree(s)
        } else if let Some(x) = a.downcast_ref::<JUMBFJSONContentBox>() {
            json!({"k": "json", "d": hexe(x.json())})
        } else if let Some(x) = a.downcast_ref::<JUMBFCBORContentBox>() {
            json!({"k": "cbor", "d": hexe(x.cbor())})
        } else if let Some(x) = a.downcast_ref::<JUMBFPaddingContentBox>() {
            json!({"k": "free", "d": hexe(x.verif_raw())})
        } else if let Some(x) = a.downcast_ref::<JUMBFCodestreamContentBox>() {
            json!({"k": "jp2c", "d": hexe(x.data())})
        } else if let Some(x) = a.downcast_ref::<JUMBFBrotliContentBox>() {
            json!({"k": "brob", "d": hexe(x.data())})
        } else if let Some(x) = a.downcast_ref::<JUMBFUUIDContentBox>() {
            json!({"k": "uuid", "u": hexe(x.uuid()), "d": hexe(x.data())})
        } else if let Some(x) = a.downcast_ref::<JUMBFEmbeddedFileDescriptionBox>() {
            let (t, mt, fname) = x.verif_raw();
            json!({"k": "bfdb", "tog": t, "mt": hexe(&mt), "fn": opt_hex(fname)})
        } else if let Some(x) = a.downcast_ref::<JUMBFEmbeddedFileContentBox>() {
            json!({"k": "bidb", "d": hexe(x.data())})
        } else {
            json!({"k": "other", "type": hexe(b.box_type())})
        };
        kids.push(v);
    }
    json!({"k": "super", "uuid": hexe(&uuid), "tog": togs, "label": hexe(&label), "id": id,
           "sig": opt_hex(sig.map(|s| s.to_vec())), "salt": opt_hex(salt), "c": kids})
}

/// parse + print + re-serialise, on a helper thread so that a non-terminating parse is reported
fn parse_once(data: Vec<u8>) -> Result<Result<(Value, Vec<u8>), String>, ()> {
    let (tx, rx) = mpsc::channel();
    std::thread::Builder::new()
        .stack_size(64 << 20)
        .spawn(move || {
            let r = std::panic::catch_unwind(|| {
                let mut cur = Cursor::new(&data[..]);
                match BoxReader::read_super_box(&mut cur) {
                    Ok(sb) => {
                        let t = tree(&sb);
                        let mut out = Vec::new();
                        match sb.write_box(&mut out) {
                            Ok(()) => Ok((t, out)),
                            Err(e) => Err(format!("WriteError:{e}")),
                        }
                    }
                    Err(e) => Err(perr(&e)),
                }
            });
            let _ = tx.send(match r {
                Ok(v) => v,
                Err(_) => Err("Panic".to_string()),
            });
        })
        .expect("spawn");
    match rx.recv_timeout(Duration::from_secs(6)) {
        Ok(v) => Ok(v),
        Err(_) => Err(()),
    }
}

fn op_box(case: &Value) -> Value {
    let data = hexd(&case["data"]);
    let first = match parse_once(data.clone()) {
        Err(()) => return json!({"r": "hang"}),
        Ok(Err(e)) if e == "Panic" => return json!({"r": "panic"}),
        Ok(Err(e)) => return json!({"r": "err", "kind": e}),
        Ok(Ok(v)) => v,
    };
    let (t1, b1) = first;
    let mut out = json!({"r": "ok", "tree": t1, "enc": hexe(&b1), "enc_same_as_input": b1 == data});
    match parse_once(b1.clone()) {
        Err(()) => out["r2"] = json!("hang"),
        Ok(Err(e)) => {
            out["r2"] = json!("err");
            out["kind2"] = json!(e);
        }
        Ok(Ok((t2, b2))) => {
            out["r2"] = json!("ok");
            out["tree2_same"] = json!(t2 == out["tree"]);
            out["enc2_same"] = json!(b2 == b1);
            if t2 != out["tree"] {
                out["tree2"] = t2;
            }
            if b2 != b1 {
                out["enc2"] = json!(hexe(&b2));
            }
        }
    }
    out
}

fn store_once_inner(data: &[u8]) -> Result<Vec<u8>, String> {
    let s = verif_store_from_jumbf(data).map_err(|e| format!("from:{}", err_class(&e)))?;
    verif_store_to_jumbf(&s, 0).map_err(|e| format!("to:{}", err_class(&e)))
}

/// on a helper thread with a deadline: the box reader can loop forever on some inputs
fn store_once(data: &[u8]) -> Result<Vec<u8>, String> {
    let (tx, rx) = mpsc::channel();
    let d = data.to_vec();
    std::thread::Builder::new()
        .stack_size(64 << 20)
        .spawn(move || {
            let r = std::panic::catch_unwind(|| store_once_inner(&d));
            let _ = tx.send(match r {
                Ok(v) => v,
                Err(_) => Err("Panic".to_string()),
            });
        })
        .expect("spawn");
    match rx.recv_timeout(Duration::from_secs(20)) {
        Ok(v) => v,
        Err(_) => Err("Hang".to_string()),
    }
}

fn op_store(case: &Value) -> Value {
    let data = hexd(&case["data"]);
    let b1 = match store_once(&data) {
        Ok(b) => b,
        Err(e) if e == "Hang" => return json!({"r": "hang"}),
        Err(e) if e == "Panic" => return json!({"r": "panic"}),
        Err(e) => return json!({"r": "err", "kind": e}),
    };
    let mut out = json!({"r": "ok", "same_as_input": b1 == data, "len1": b1.len()});
    if b1 != data {
        out["enc"] = json!(hexe(&b1));
    }
    match store_once(&b1) {
        Ok(b2) => {
            out["r2"] = json!("ok");
            out["enc2_same"] = json!(b2 == b1);
            if b2 != b1 {
                out["enc2"] = json!(hexe(&b2));
            }
        }
        Err(e) => {
            out["r2"] = json!("err");
            out["kind2"] = json!(e);
        }
    }
    out
}

fn format_of(name: &str) -> String {
    name.rsplit('.').next().unwrap_or("").to_lowercase()
}

fn op_extract(case: &Value) -> Value {
    let name = case["file"].as_str().unwrap_or("");
    let bytes = e2e::fixture(name);
    match c2pa::jumbf_io::load_jumbf_from_memory(&format_of(name), &bytes) {
        Ok(j) => json!({"r": "ok", "jumbf": hexe(&j)}),
        Err(e) => json!({"r": "err", "kind": err_class(&e)}),
    }
}

fn op_build(case: &Value) -> Value {
    let def = case["def"].as_str().unwrap_or("{}");
    let settings = case["settings"].as_str();
    let src_name = case["src"].as_str().unwrap_or("earth_apollo17.jpg");
    let format = case["format"].as_str().map(|s| s.to_string()).unwrap_or_else(|| format_of(src_name));
    let alg = case["alg"].as_str().unwrap_or("ed25519");
    let signer = e2e::signer(alg);
    let ctx = e2e::context(settings);
    let src = e2e::fixture(src_name);
    let r = (|| -> c2pa::Result<Vec<u8>> {
        let mut builder = c2pa::Builder::from_context(ctx).with_definition(def)?;
        if let Some(ings) = case["ingredients"].as_array() {
            for ing in ings {
                let f = ing["file"].as_str().unwrap_or("CA.jpg");
                let j = ing["json"].as_str().unwrap_or("{}");
                let mut s = Cursor::new(e2e::fixture(f));
                builder.add_ingredient_from_stream(j, &format_of(f), &mut s)?;
            }
        }
        if let Some(res) = case["resources"].as_array() {
            for r in res {
                let id = r["id"].as_str().unwrap_or("res");
                builder.add_resource(id, Cursor::new(hexd(&r["data"])))?;
            }
        }
        let mut input = Cursor::new(src.clone());
        let mut out = Cursor::new(Vec::new());
        builder.sign(signer.as_ref(), &format, &mut input, &mut out)?;
        c2pa::jumbf_io::load_jumbf_from_memory(&format, &out.into_inner())
    })();
    match r {
        Ok(j) => json!({"r": "ok", "jumbf": hexe(&j)}),
        Err(e) => json!({"r": "err", "kind": err_class(&e), "detail": format!("{e}")}),
    }
}

/// build a box with the SDK's own constructors (what the SDK can produce: toggles 3, or 19 with a salt)
fn build_box(v: &Value) -> Result<Box<dyn BMFFBox>, String> {
    let d = |k: &str| hexd(&v[k]);
    Ok(match v["k"].as_str().unwrap_or("") {
        "super" => {
            let label = String::from_utf8(d("label")).map_err(|_| "label not utf8".to_string())?;
            let uuid = v["uuid"].as_str().unwrap_or("").to_string();
            let mut desc = JUMBFDescriptionBox::new(&label, Some(&uuid));
            if !v["salt"].is_null() {
                desc.set_salt(d("salt")).map_err(|e| format!("{e:?}"))?;
            }
            let mut sb = JUMBFSuperBox::from(desc);
            for c in v["c"].as_array().map(|a| a.as_slice()).unwrap_or(&[]) {
                sb.add_data_box(build_box(c)?);
            }
            Box::new(sb)
        }
        "json" => Box::new(JUMBFJSONContentBox::new(d("d"))),
        "cbor" => Box::new(JUMBFCBORContentBox::new(d("d"))),
        "free" => Box::new(JUMBFPaddingContentBox::new_with_vec(d("d"))),
        "jp2c" => Box::new(JUMBFCodestreamContentBox::new(d("d"))),
        "brob" => Box::new(JUMBFBrotliContentBox::new(d("d"))),
        "bidb" => Box::new(JUMBFEmbeddedFileContentBox::new(d("d"))),
        "uuid" => {
            let u: [u8; 16] = d("u").try_into().map_err(|_| "uuid length".to_string())?;
            Box::new(JUMBFUUIDContentBox::new(&u, d("d")))
        }
        "bfdb" => {
            let mt = String::from_utf8(d("mt")).map_err(|_| "mt not utf8".to_string())?;
            let fname = if v["fn"].is_null() { None } else { Some("f".to_string()) };
            Box::new(JUMBFEmbeddedFileDescriptionBox::new(mt, fname))
        }
        other => return Err(format!("kind {other}")),
    })
}

/// {op:"write", tree} -> bytes written by BMFFBox::write_box of boxes made with the SDK's constructors
fn op_write(case: &Value) -> Value {
    match build_box(&case["tree"]) {
        Ok(b) => {
            let mut out = Vec::new();
            match b.write_box(&mut out) {
                Ok(()) => json!({"r": "ok", "jumbf": hexe(&out)}),
                Err(e) => json!({"r": "err", "kind": format!("WriteError:{e}")}),
            }
        }
        Err(e) => json!({"r": "err", "kind": e}),
    }
}

pub fn run(case: &Value) -> Value {
    match case["op"].as_str().unwrap_or("") {
        "write" => op_write(case),
        "box" => op_box(case),
        "store" => op_store(case),
        "extract" => op_extract(case),
        "build" => op_build(case),
        other => json!({"r": "badop", "op": other}),
    }
}
