//! C39: ingredients carry their source manifests and validation.
//! case: {spec: builder-spec with "ingredients": [{json, src}]}
//! out:  {r:"ok", standalone: [ per ingredient {r:"ok", report, results, active, jumbf:hex} | {r:"none"|"err", kind} ],
//!        parent: {r:"ok", report, view, jumbf:hex} | {r:"sign_err"|"read_err", kind, detail}}
use std::io::Cursor;

use serde_json::{json, Value};

use crate::{e2e, util::*};

fn standalone(spec: &Value, ing: &Value) -> Value {
    let (fmt, bytes) = match e2e::materialize_cached(&ing["src"]) {
        Ok(x) => x,
        Err(e) => return json!({"r": "bad_source", "detail": e}),
    };
    let ctx = match spec.get("settings") {
        Some(s) if s.is_object() => e2e::context(Some(&s.to_string())),
        _ => e2e::context(None),
    };
    let jumbf = c2pa::jumbf_io::load_jumbf_from_memory(&fmt, &bytes).ok();
    match c2pa::Reader::from_context(ctx).with_stream(&fmt, Cursor::new(bytes.clone())) {
        Ok(reader) => {
            let mut results = serde_json::to_value(reader.validation_results()).unwrap_or(Value::Null);
            strip_time(&mut results);
            json!({"r": "ok", "report": e2e::report(&reader), "results": results, "active": reader.active_label(),
                   "labels": reader.manifests().keys().collect::<Vec<_>>(),
                   "jumbf": jumbf.map(|j| hexe(&j)), "len": bytes.len()})
        }
        Err(e) => json!({"r": if jumbf.is_none() { "none" } else { "err" }, "kind": err_class(&e),
                         "detail": format!("{e}").chars().take(200).collect::<String>(), "jumbf": jumbf.map(|j| hexe(&j)), "len": bytes.len()}),
    }
}

fn strip_time(v: &mut Value) {
    match v {
        Value::Object(m) => {
            m.remove("validation_time");
            m.remove("validationTime");
            for (_, x) in m.iter_mut() {
                strip_time(x);
            }
        }
        Value::Array(a) => a.iter_mut().for_each(strip_time),
        _ => {}
    }
}

pub fn run(case: &Value) -> Value {
    let spec = &case["spec"];
    e2e::clear_cache();
    let mut alone = vec![];
    if let Some(ings) = spec["ingredients"].as_array() {
        for ing in ings {
            alone.push(standalone(spec, ing));
        }
    }
    let parent = match e2e::sign_spec(spec) {
        Ok(s) => match e2e::read_signed(spec, &s) {
            Ok(reader) => json!({"r": "ok", "report": e2e::report(&reader), "view": e2e::full_view(&reader), "jumbf": hexe(&s.manifest)}),
            Err(e) => json!({"r": "read_err", "kind": err_class(&e), "detail": format!("{e}").chars().take(300).collect::<String>()}),
        },
        Err(e) => json!({"r": "sign_err", "kind": err_class(&e), "detail": format!("{e}").chars().take(300).collect::<String>()}),
    };
    json!({"r": "ok", "standalone": alone, "parent": parent})
}
