//! C27: redirect targets, hop limit, header stripping.  The chain engine lives in c26.rs.
//! kinds:
//!   {"kind":"chain", ...}                    as in c26.rs
//!   {"kind":"host","uri":str}                -> host_is_non_global(uri) and the host http::Uri reports
//!   {"kind":"ipparse","s":str}               -> std IpAddr::from_str + ip_is_non_global
use std::net::IpAddr;

use c2pa::{http::http::Uri, verif_hooks::c27 as hk};
use serde_json::{json, Value};

use crate::c26::{run_chain, run_ctx, uri_json};

pub fn run(case: &Value) -> Value {
    match case["kind"].as_str().unwrap_or("") {
        "chain" => run_chain(case),
        "ctx" => run_ctx(case),
        "host" => {
            let uri: Uri = match case["uri"].as_str().unwrap_or("").parse() {
                Ok(u) => u,
                Err(_) => return json!({"r": "uri_err"}),
            };
            let mut j = uri_json(&uri);
            j["r"] = json!("ok");
            j["non_global"] = json!(hk::verif_host_is_non_global(&uri));
            j
        }
        "ipparse" => match case["s"].as_str().unwrap_or("").parse::<IpAddr>() {
            Ok(IpAddr::V4(a)) => json!({"r": "ok", "v4": a.octets().to_vec(), "non_global": hk::verif_ip_is_non_global(IpAddr::V4(a))}),
            Ok(IpAddr::V6(a)) => json!({"r": "ok", "v6": a.segments().to_vec(), "non_global": hk::verif_ip_is_non_global(IpAddr::V6(a))}),
            Err(_) => json!({"r": "none"}),
        },
        _ => json!({"r": "bad_case"}),
    }
}
