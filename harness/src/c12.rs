//! C12: box maps and data-hash object locations.
//! ops:
//!  {op:"map", fmt, data:hex | path}                     -> box map + object locations + file length
//!  {op:"sign", fmt, fixture | data:hex, out:path}       -> sign with box hashing (core.prefer_compress_manifests), write to `out`
//!  {op:"read", fmt, path, append:hex?, insert:[pos,hex]?} -> mutate a copy in memory, read it, report + box map
use c2pa::verif_hooks::c12::{box_map, object_locations};
use serde_json::{json, Value};

use crate::{e2e, util::*};

fn load(case: &Value) -> Vec<u8> {
    if let Some(p) = case["path"].as_str() {
        std::fs::read(p).unwrap_or_else(|e| panic!("read {p}: {e}"))
    } else if let Some(f) = case["fixture"].as_str() {
        e2e::fixture(f)
    } else {
        hexd(&case["data"])
    }
}

fn map_json(fmt: &str, bytes: &[u8]) -> Value {
    match box_map(fmt, bytes) {
        Ok(m) => {
            let v: Vec<Value> = m
                .into_iter()
                .map(|(names, s, l, ex)| json!([names, s, l, ex]))
                .collect();
            json!({"r": "ok", "map": v})
        }
        Err(e) => json!({"r": "err", "kind": err_class(&e), "detail": format!("{e}")}),
    }
}

fn loc_json(fmt: &str, bytes: &[u8]) -> Value {
    match object_locations(fmt, bytes) {
        Ok(m) => {
            let v: Vec<Value> = m.into_iter().map(|(o, l, t)| json!([o, l, t])).collect();
            json!({"r": "ok", "loc": v})
        }
        Err(e) => json!({"r": "err", "kind": err_class(&e), "detail": format!("{e}")}),
    }
}

pub fn run(case: &Value) -> Value {
    let fmt = case["fmt"].as_str().unwrap_or("png");
    match case["op"].as_str().unwrap_or("map") {
        "map" => {
            let bytes = load(case);
            let m = map_json(fmt, &bytes);
            // the object locations are computed in a separate catch so that a panic there is attributed correctly
            let l = std::panic::catch_unwind(|| loc_json(fmt, &bytes))
                .unwrap_or_else(|_| json!({"r": "panic"}));
            json!({"r": "done", "len": bytes.len(), "box": m, "locs": l})
        }
        "sign" => {
            let src = load(case);
            let settings = json!({"core": {"prefer_compress_manifests": case["box_hash"].as_bool().unwrap_or(true)}}).to_string();
            let ctx = e2e::context(Some(&settings));
            let signer = e2e::signer("ed25519");
            match e2e::sign(ctx, &e2e::minimal_manifest("c12"), fmt, &src, signer.as_ref()) {
                Ok(out) => {
                    let p = case["out"].as_str().expect("out");
                    std::fs::write(p, &out).expect("write");
                    json!({"r": "ok", "len": out.len(), "box": map_json(fmt, &out)})
                }
                Err(e) => json!({"r": "err", "kind": err_class(&e), "detail": format!("{e}")}),
            }
        }
        "read" => {
            let mut bytes = load(case);
            if let Some(ins) = case["insert"].as_array() {
                let pos = u64_of(&ins[0]) as usize;
                let extra = hexd(&ins[1]);
                let tail = bytes.split_off(pos);
                bytes.extend_from_slice(&extra);
                bytes.extend_from_slice(&tail);
            }
            if case["append"].is_string() {
                bytes.extend_from_slice(&hexd(&case["append"]));
            }
            let m = map_json(fmt, &bytes);
            let rep = match e2e::read(e2e::context(None), fmt, &bytes) {
                Ok(r) => {
                    let mut rep = e2e::report(&r);
                    let j: Value = serde_json::from_str(&r.json()).unwrap_or(Value::Null);
                    let mut hard = vec![];
                    if let (Some(lbl), Some(ms)) = (r.active_label(), j["manifests"].as_object()) {
                        if let Some(a) = ms.get(lbl).and_then(|m| m["assertions"].as_array()) {
                            for x in a {
                                if let Some(l) = x["label"].as_str() {
                                    if l.starts_with("c2pa.hash.") {
                                        hard.push(l.to_string());
                                    }
                                }
                            }
                        }
                    }
                    rep["hard_bindings"] = json!(hard);
                    rep
                }
                Err(e) => json!({"state": "Error", "kind": err_class(&e)}),
            };
            json!({"r": "ok", "len": bytes.len(), "box": m, "report": rep})
        }
        other => json!({"r": "bad-op", "op": other}),
    }
}
