//! C21: update manifests.
//!
//! A case builds a chain of manifests on one fixture and reads the result back, untouched and under byte mutations:
//!   {"fmt": "jpeg"|"png"|"mp4",
//!    "steps": [ step, ... ],              // applied on top of a base manifest (Create intent, data/bmff hash)
//!    "muts":  [ {"zone": "pre"|"in"|"post", "num": a, "den": b, "xor": v} | {"zone": "append", "hex": ".."} ]}
//! step = {"intent": "update"|"edit",      // BuilderIntent
//!         "via": "builder"|"craft",       // craft: claim from the Builder, altered, committed without update_manifest_test
//!         "flag": bool,                    // craft only: the update-manifest flag of the committed claim
//!         "parents": 0|1|2,                // number of parentOf ingredients
//!         "comps": n,                      // extra componentOf ingredients
//!         "hash": "none"|"zero",           // craft only: add a c2pa.hash.data assertion (all-zero digest, no exclusions)
//!         "actions": ["c2pa.edited",...],  // extra actions (after the automatic c2pa.opened when there is a parent)
//!         "thumbs": n}                     // craft only: n claim-thumbnail assertions
//! out: sign result of every step, manifest labels, the manifest-store region of parent and final asset, the top-level
//! layout of the final asset, the report of the untouched read and one (state, failure codes) per mutation.
use std::{cell::RefCell, collections::HashMap, io::Cursor, sync::Arc};

use c2pa::{
    assertions::{DataHash, EmbeddedData},
    Builder, BuilderIntent, Context, Reader,
};
use serde_json::{json, Value};

use crate::{e2e, util::*};

thread_local! {
    static CTX: Arc<Context> = Arc::new(e2e::context(None));
    static CTX_NOVERIFY: Arc<Context> = Arc::new(e2e::context(Some(r#"{"verify": {"verify_after_sign": false}}"#)));
    /// per format: (base asset, its label, second independent asset) — signed once per harness process
    static COUNTER: RefCell<u64> = const { RefCell::new(0) };
    static BASES: RefCell<HashMap<String, (Vec<u8>, String, Vec<u8>)>> = RefCell::new(HashMap::new());
}

pub fn format_of(fmt: &str) -> (&'static str, &'static str) {
    match fmt {
        "png" => ("image/png", "libpng-test.png"),
        "mp4" => ("video/mp4", "video1_no_manifest.mp4"),
        _ => ("image/jpeg", "no_manifest.jpg"),
    }
}

const C2PA_UUID: [u8; 16] = [0xd8, 0xfe, 0xc3, 0xd6, 0x1b, 0x0e, 0x48, 0x3c, 0x92, 0x97, 0x58, 0x28, 0x87, 0x7e, 0xc4, 0x81];

/// top-level layout: (name, offset, length, is_c2pa)
pub fn layout(fmt: &str, d: &[u8]) -> Vec<(String, usize, usize, bool)> {
    let mut out = vec![];
    let be = |o: usize, n: usize| -> usize { d[o..o + n].iter().fold(0usize, |a, b| (a << 8) | *b as usize) };
    match fmt {
        "png" => {
            out.push(("sig".to_string(), 0, 8.min(d.len()), false));
            let mut o = 8;
            while o + 12 <= d.len() {
                let l = be(o, 4);
                let t = String::from_utf8_lossy(&d[o + 4..o + 8]).to_string();
                let n = (12 + l).min(d.len() - o);
                out.push((t.clone(), o, n, t == "caBX"));
                o += n;
            }
            if o < d.len() {
                out.push(("tail".to_string(), o, d.len() - o, false));
            }
        }
        "mp4" => {
            let mut o = 0;
            while o + 8 <= d.len() {
                let mut l = be(o, 4);
                let t = String::from_utf8_lossy(&d[o + 4..o + 8]).to_string();
                if l == 1 && o + 16 <= d.len() {
                    l = be(o + 8, 8);
                } else if l == 0 {
                    l = d.len() - o;
                }
                let l = l.max(8).min(d.len() - o);
                let c = t == "uuid" && o + 24 <= d.len() && d[o + 8..o + 24] == C2PA_UUID;
                out.push((t, o, l, c));
                o += l;
            }
            if o < d.len() {
                out.push(("tail".to_string(), o, d.len() - o, false));
            }
        }
        _ => {
            out.push(("SOI".to_string(), 0, 2.min(d.len()), false));
            let mut o = 2;
            while o + 4 <= d.len() && d[o] == 0xff {
                let m = d[o + 1];
                if m == 0xda {
                    break;
                }
                let l = (2 + be(o + 2, 2)).min(d.len() - o);
                let c = m == 0xeb && o + 6 <= d.len() && &d[o + 4..o + 6] == b"JP";
                out.push((format!("{m:02x}"), o, l, c));
                o += l;
            }
            if o < d.len() {
                out.push(("scan".to_string(), o, d.len() - o, false));
            }
        }
    }
    out
}

/// [start, length) of the run of C2PA segments (0,0 when there is none)
pub fn region(l: &[(String, usize, usize, bool)]) -> (usize, usize) {
    let mut s = None;
    let mut e = 0;
    for (_, o, n, c) in l {
        if *c {
            if s.is_none() {
                s = Some(*o);
            }
            e = o + n;
        }
    }
    match s {
        Some(s) => (s, e - s),
        None => (0, 0),
    }
}

pub fn read_report(format: &str, bytes: &[u8], labels: &[String], full: bool) -> Value {
    let ctx = CTX.with(|c| c.clone());
    match Reader::from_shared_context(&ctx).with_stream(format, Cursor::new(bytes.to_vec())) {
        Ok(r) => {
            let rep = e2e::report(&r);
            // which manifest carried the hard-binding verdict: (code, index of the manifest in the chain), from the
            // unfiltered validation log (the report drops statuses already recorded in ingredient assertions)
            let mut binding = vec![];
            let items = if full { c2pa::verif_hooks::c21::full_validation_log(format, bytes, &ctx).1 } else { vec![] };
            for (c, u, _f) in items {
                if c.contains("Hash.m") || c.contains("hardBindings") {
                    let idx = labels.iter().position(|l| u.contains(l.as_str())).map(|i| i as i64).unwrap_or(-1);
                    binding.push(json!([c, idx]));
                }
            }
            let ing_fail: Vec<Value> = rep["deltas"].as_array().map(|a| a.iter().map(|d| d["failure"].clone()).collect()).unwrap_or_default();
            json!({"r": "ok", "state": rep["state"], "failure": rep["failure"], "binding": binding, "ing_failure": ing_fail,
                   "active": labels.iter().position(|l| Some(l.as_str()) == r.active_label()).map(|i| i as i64).unwrap_or(-1)})
        }
        Err(e) => json!({"r": "err", "kind": err_class(&e)}),
    }
}

fn new_label() -> String {
    let n = COUNTER.with(|c| {
        *c.borrow_mut() += 1;
        *c.borrow()
    });
    format!("urn:c2pa:{:08x}-0000-4000-8000-{:012x}", std::process::id(), n)
}

fn definition(title: &str, label: &str, actions: &[String]) -> String {
    let mut d = json!({
        "title": title,
        "label": label,
        "claim_generator_info": [{"name": "verif-harness", "version": "0.1"}],
        "assertions": [{"label": "com.verif.note", "data": {"note": title}}]
    });
    if !actions.is_empty() {
        let acts: Vec<Value> = actions.iter().map(|a| json!({"action": a})).collect();
        d["assertions"].as_array_mut().expect("arr").push(json!({"label": "c2pa.actions", "data": {"actions": acts}}));
    }
    d.to_string()
}

/// one step on top of `prev` (a signed asset); returns the new asset
fn step(format: &str, prev: &[u8], other: &[u8], st: &Value, k: usize, label: &str) -> c2pa::Result<Vec<u8>> {
    let craft = st["via"].as_str().unwrap_or("builder") == "craft";
    let ctx = if craft { CTX_NOVERIFY.with(|c| c.clone()) } else { CTX.with(|c| c.clone()) };
    let actions: Vec<String> = st["actions"].as_array().map(|a| a.iter().map(|x| x.as_str().unwrap_or("").to_string()).collect()).unwrap_or_default();
    let parents = st["parents"].as_u64().unwrap_or(1);
    let mut acts = actions.clone();
    if parents == 0 {
        // keeps the Builder from adding the parent ingredient on its own
        acts.insert(0, "c2pa.opened".to_string());
    }
    let mut b = Builder::from_shared_context(&ctx).with_definition(definition(&format!("step {k}"), label, &acts))?;
    b.set_intent(if st["intent"].as_str().unwrap_or("update") == "edit" { BuilderIntent::Edit } else { BuilderIntent::Update });
    if parents >= 2 {
        b.add_ingredient_from_stream(json!({"relationship": "parentOf", "label": "p0"}).to_string(), format, &mut Cursor::new(prev.to_vec()))?;
        for i in 1..parents {
            b.add_ingredient_from_stream(json!({"relationship": "parentOf", "label": format!("p{i}")}).to_string(), format, &mut Cursor::new(other.to_vec()))?;
        }
    }
    for i in 0..st["comps"].as_u64().unwrap_or(0) {
        b.add_ingredient_from_stream(json!({"relationship": "componentOf", "label": format!("c{i}")}).to_string(), format, &mut Cursor::new(other.to_vec()))?;
    }
    let signer = e2e::signer("ed25519");
    let mut src = Cursor::new(prev.to_vec());
    let mut dst = Cursor::new(Vec::new());
    if !craft {
        b.sign(signer.as_ref(), format, &mut src, &mut dst)?;
        return Ok(dst.into_inner());
    }
    let mut claim = b.verif_c21_prepare_claim(format, &mut src)?;
    if st["hash"].as_str().unwrap_or("none") == "zero" {
        let mut dh = DataHash::new("jumbf manifest", "sha256");
        dh.set_hash(vec![0u8; 32]);
        claim.add_assertion(&dh)?;
    }
    for _ in 0..st["thumbs"].as_u64().unwrap_or(0) {
        claim.add_assertion(&EmbeddedData::new("c2pa.thumbnail.claim", "image/jpeg", e2e::fixture("thumbnail.jpg")[..600].to_vec()))?;
    }
    let flag = st["flag"].as_bool().unwrap_or(true);
    b.verif_c21_sign_claim(claim, Some(flag), signer.as_ref(), format, &mut src, &mut dst)?;
    Ok(dst.into_inner())
}

pub fn base_asset(format: &str, src: &[u8], title: &str, label: &str) -> c2pa::Result<Vec<u8>> {
    let def = json!({
        "title": title,
        "label": label,
        "claim_generator_info": [{"name": "verif-harness", "version": "0.1"}],
        "assertions": [
            {"label": "c2pa.actions", "data": {"actions": [{"action": "c2pa.created",
              "digitalSourceType": "http://cv.iptc.org/newscodes/digitalsourcetype/digitalCapture"}]}},
            {"label": "com.verif.note", "data": {"note": title}}
        ]
    })
    .to_string();
    let ctx = CTX.with(|c| c.clone());
    let mut b = Builder::from_shared_context(&ctx).with_definition(def)?;
    let mut input = Cursor::new(src.to_vec());
    let mut out = Cursor::new(Vec::new());
    b.sign(e2e::signer("ed25519").as_ref(), format, &mut input, &mut out)?;
    Ok(out.into_inner())
}

pub fn active_label(format: &str, bytes: &[u8]) -> String {
    let ctx = CTX.with(|c| c.clone());
    match Reader::from_shared_context(&ctx).with_stream(format, Cursor::new(bytes.to_vec())) {
        Ok(r) => r.active_label().unwrap_or("").to_string(),
        Err(_) => String::new(),
    }
}

pub fn run(case: &Value) -> Value {
    if case["op"].as_str() == Some("facts") {
        return json!({"r": "ok", "allowed": c2pa::verif_hooks::c21::allowed_update_manifest_actions()});
    }
    let fmt = case["fmt"].as_str().unwrap_or("jpeg");
    let (format, fx) = format_of(fmt);
    let cached = BASES.with(|m| m.borrow().get(fmt).cloned());
    let (mut asset, base_label, other) = match cached {
        Some(t) => t,
        None => {
            let src = e2e::fixture(fx);
            let bl = new_label();
            let a = match base_asset(format, &src, "base", &bl) {
                Ok(a) => a,
                Err(e) => return json!({"r": "base-sign-failed", "kind": err_class(&e)}),
            };
            // a second, independent signed asset (second parent / components)
            let o = match base_asset(format, &src, "other", &new_label()) {
                Ok(a) => a,
                Err(e) => return json!({"r": "base-sign-failed", "kind": err_class(&e)}),
            };
            if active_label(format, &a) != bl {
                return json!({"r": "base-sign-failed", "kind": "label-not-kept"});
            }
            let t = (a.clone(), bl, o);
            BASES.with(|m| m.borrow_mut().insert(fmt.to_string(), t.clone()));
            t
        }
    };
    let mut labels = vec![base_label];
    let mut signs = vec![];
    let mut parent_region = region(&layout(fmt, &asset));
    let mut regions = vec![json!([parent_region.0, parent_region.1])];
    let empty = vec![];
    for (k, st) in case["steps"].as_array().unwrap_or(&empty).iter().enumerate() {
        let lbl = new_label();
        match step(format, &asset, &other, st, k, &lbl) {
            Ok(a) => {
                parent_region = region(&layout(fmt, &asset));
                asset = a;
                let rg = region(&layout(fmt, &asset));
                regions.push(json!([rg.0, rg.1]));
                labels.push(lbl);
                signs.push(json!("ok"));
            }
            Err(e) => {
                signs.push(json!(err_class(&e)));
                return json!({"r": "sign-refused", "signs": signs, "detail": format!("{e}").chars().take(160).collect::<String>()});
            }
        }
    }
    if let Some(p) = case["dump"].as_str() {
        std::fs::write(p, &asset).ok();
    }
    let lay = layout(fmt, &asset);
    let (rs, rl) = region(&lay);
    let base = read_report(format, &asset, &labels, true);
    let mut muts = vec![];
    for m in case["muts"].as_array().unwrap_or(&empty) {
        let mut a = asset.clone();
        let zone = m["zone"].as_str().unwrap_or("post");
        let mut in_c2pa = false;
        let (pos, seg) = if zone == "append" {
            a.extend_from_slice(&hexd(&m["hex"]));
            (asset.len(), "append".to_string())
        } else {
            let (zs, zl) = match zone {
                "pre" => (0, rs),
                "in" => (rs, rl),
                "seg" => {
                    // the k-th top-level segment with the given name
                    let name = m["name"].as_str().unwrap_or("");
                    let k = m["k"].as_u64().unwrap_or(0) as usize;
                    lay.iter().filter(|s| s.0 == name).nth(k).map(|s| (s.1, s.2)).unwrap_or((0, 0))
                }
                _ => (rs + rl, asset.len() - rs - rl),
            };
            if zl == 0 {
                muts.push(json!({"r": "empty-zone"}));
                continue;
            }
            let num = m["num"].as_u64().unwrap_or(0) as u128;
            let den = m["den"].as_u64().unwrap_or(1).max(1) as u128;
            let pos = zs + (((zl as u128 - 1) * num.min(den)) / den) as usize;
            a[pos] ^= (m["xor"].as_u64().unwrap_or(1) as u8).max(1);
            let sg = lay.iter().find(|(_, o, n, _)| *o <= pos && pos < o + n);
            in_c2pa = sg.map(|s| s.3).unwrap_or(false);
            (pos, sg.map(|s| s.0.clone()).unwrap_or_default())
        };
        let mut r = read_report(format, &a, &labels, false);
        r["c2pa"] = json!(in_c2pa);
        r["pos"] = json!(pos);
        r["seg"] = json!(seg);
        muts.push(r);
    }
    json!({"r": "ok", "signs": signs, "n_manifests": labels.len(), "len": asset.len(), "region": [rs, rl],
           "parent_region": [parent_region.0, parent_region.1], "regions": regions,
           "layout": lay.iter().map(|(t, o, n, c)| json!([t, o, n, c])).collect::<Vec<_>>(),
           "base": base, "muts": muts})
}
