//! C22: archive save/restore chains through the public API.
//! case: {spec: builder-spec (see e2e.rs), chain: n}
//! out:  {r:"ok", base: <run>, restored: <run>}   where <run> = {r:"ok", report, view, manifest_len, archives:[sizes]}
//!                                                            | {r:"sign_err"|"read_err", kind, detail}
use serde_json::{json, Value};

use crate::{e2e, util::*};

fn one(spec: &Value) -> Value {
    let signed = match e2e::sign_spec(spec) {
        Ok(s) => s,
        Err(e) => return json!({"r": "sign_err", "kind": err_class(&e), "detail": format!("{e}").chars().take(300).collect::<String>()}),
    };
    match e2e::read_signed(spec, &signed) {
        Ok(reader) => json!({"r": "ok", "report": e2e::report(&reader), "view": e2e::full_view(&reader),
                             "manifest_len": signed.manifest.len(), "asset_len": signed.asset.len(), "archives": signed.archive_sizes}),
        Err(e) => json!({"r": "read_err", "kind": err_class(&e), "detail": format!("{e}").chars().take(300).collect::<String>()}),
    }
}

pub fn run(case: &Value) -> Value {
    e2e::clear_cache();
    let mut base = case["spec"].clone();
    base["archive_chain"] = json!(0);
    let mut chained = case["spec"].clone();
    chained["archive_chain"] = json!(case["chain"].as_u64().unwrap_or(1));
    let b = std::panic::catch_unwind(|| one(&base)).unwrap_or_else(|_| json!({"r": "panic"}));
    let r = std::panic::catch_unwind(|| one(&chained)).unwrap_or_else(|_| json!({"r": "panic"}));
    json!({"r": "ok", "base": b, "restored": r})
}
