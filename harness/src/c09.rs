//! C09: media preservation.  Same case format and executor as C07 (see c07.rs); the outputs are
//! dumped/inlined and the orchestrator applies independent per-format media extractors to them.
use serde_json::Value;

pub fn run(case: &Value) -> Value {
    crate::c07::exec(case)
}
