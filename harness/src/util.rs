#![allow(dead_code)]
use serde_json::Value;

pub fn hexd(v: &Value) -> Vec<u8> {
    hex::decode(v.as_str().unwrap_or("")).expect("hex")
}
pub fn hexe(b: &[u8]) -> String {
    hex::encode(b)
}
pub fn u64_of(v: &Value) -> u64 {
    match v {
        Value::String(s) => s.parse().expect("u64"),
        _ => v.as_u64().expect("u64"),
    }
}
/// Map an SDK error to a short stable class name (variant name only).
pub fn err_class(e: &c2pa::Error) -> String {
    let d = format!("{:?}", e);
    let end = d.find(|c: char| !(c.is_alphanumeric() || c == '_')).unwrap_or(d.len());
    d[..end].to_string()
}
