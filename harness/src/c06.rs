//! C06: certificate-profile violations.  Same case format and engine as C05 (see c05.rs).
use serde_json::Value;

pub fn run(case: &Value) -> Value {
    crate::c05::engine(case)
}
