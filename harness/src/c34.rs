//! C34: JUMBF URIs and manifest labels.  Strings are JSON strings (valid UTF-8); numbers may be decimal strings.
//!  {k:"parts", guid, v1:bool, cgi:null|str, version:null|n, reason:null|n} -> label, parse of label, parse of its manifest URI
//!  {k:"parse", s}            -> manifest_label_to_parts(s)
//!  {k:"uri", m, a}           -> every builder on (m, a) and every parser on every built URI
//!  {k:"str", m, u}           -> every parser / converter on the raw string u
//!  {k:"inst", m, label, n}   -> label_with_instance and assertion_label_from_link (bare and inside an assertion URI)
use c2pa::verif_hooks::c34 as h;
use serde_json::{json, Value};

use crate::util::u64_of;

fn s<'a>(v: &'a Value) -> &'a str {
    v.as_str().expect("string")
}
fn opt_n(v: &Value) -> Option<usize> {
    if v.is_null() {
        None
    } else {
        Some(u64_of(v) as usize)
    }
}
fn parts_json(p: Option<h::Parts>) -> Value {
    match p {
        None => Value::Null,
        Some((guid, v1, cgi, ver, reason)) => json!([guid, v1, cgi, ver.map(|x| x.to_string()), reason.map(|x| x.to_string())]),
    }
}
fn parsers(m: &str, u: &str) -> Value {
    let (l, n) = h::assertion_label_from_link(u);
    json!({
        "norm": h::to_normalized_uri(u),
        "abs": h::to_absolute_uri(m, u),
        "rel": h::to_relative_uri(u),
        "man": h::manifest_label_from_uri(u),
        "asrt": h::assertion_label_from_uri(u),
        "box": h::box_name_from_uri(u),
        "link": [l, n.to_string()],
    })
}

pub fn run(case: &Value) -> Value {
    match case["k"].as_str().unwrap_or("") {
        "parts" => {
            let p: h::Parts = (
                s(&case["guid"]).to_string(),
                case["v1"].as_bool().expect("v1"),
                case["cgi"].as_str().map(|x| x.to_string()),
                opt_n(&case["version"]),
                opt_n(&case["reason"]),
            );
            let label = h::show_parts(p);
            let parsed = parts_json(h::manifest_label_to_parts(&label));
            let parsed_uri = parts_json(h::manifest_label_to_parts(&h::to_manifest_uri(&label)));
            json!({"r": "ok", "label": label, "parsed": parsed, "parsed_uri": parsed_uri})
        }
        "parse" => json!({"r": "ok", "parsed": parts_json(h::manifest_label_to_parts(s(&case["s"])))}),
        "uri" => {
            let (m, a) = (s(&case["m"]), s(&case["a"]));
            let built = vec![
                h::to_manifest_uri(m),
                h::to_assertion_uri(m, a),
                h::to_signature_uri(m),
                h::to_databox_uri(m, a),
                h::to_verifiable_credential_uri(m, a),
            ];
            let parsed: Vec<Value> = built.iter().map(|u| parsers(m, u)).collect();
            // relative -> absolute again, under the same manifest label
            let back: Vec<String> = built.iter().map(|u| h::to_absolute_uri(m, &h::to_relative_uri(u))).collect();
            json!({"r": "ok", "built": built, "parsed": parsed, "back": back})
        }
        "str" => {
            let mut v = parsers(s(&case["m"]), s(&case["u"]));
            v["r"] = json!("ok");
            v
        }
        "inst" => {
            let (m, label) = (s(&case["m"]), s(&case["label"]));
            let n = u64_of(&case["n"]) as usize;
            let li = h::label_with_instance(label, n);
            let (l1, n1) = h::assertion_label_from_link(&li);
            let (l2, n2) = h::assertion_label_from_link(&h::to_assertion_uri(m, &li));
            json!({"r": "ok", "li": li, "bare": [l1, n1.to_string()], "in_uri": [l2, n2.to_string()]})
        }
        _ => json!({"r": "badcase"}),
    }
}
