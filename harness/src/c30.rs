//! C30: remote manifest references through XMP.  case: {"op": ...}
//!  rt      {xmp|null, key|null, value, others:[key..]}  add then extract on XMP strings (key null = add_provenance/
//!                                       extract_provenance; xmp null = MIN_XMP); others = keys read before and after
//!                                       -> {r:"ok", out, got|null, others_before, others_after} | {r:"err", kind}
//!  extract {xmp, key|null}                                             -> {r:"ok", got|null}
//!  handler {format, fixture, url}       embed_reference_to_stream + XmpInfo::from_source
//!                                       -> {r:"ok", got|null, xmp_before|null, xmp_after|null} | {r:"err", kind}
//!  api     {format, fixture, url}       Builder::set_remote_url + set_no_embed + sign, then Reader
//!                                       -> {r:"ok", reader:"RemoteManifestUrl"|..., got|null, embedded: Url::parse(url).to_string()}
use std::io::Cursor;

use c2pa::{verif_hooks::c30 as hk, Builder, Error, Reader};
use serde_json::{json, Value};

use crate::{e2e, util::*};

fn opt(v: Option<String>) -> Value {
    match v {
        Some(s) => Value::String(s),
        None => Value::Null,
    }
}

pub fn run(case: &Value) -> Value {
    let key = case["key"].as_str();
    match case["op"].as_str().unwrap_or("") {
        "rt" => {
            let xmp = case["xmp"].as_str().unwrap_or(hk::MIN_XMP);
            let value = case["value"].as_str().unwrap_or("");
            let out = match key {
                None => hk::xmp_add_provenance(xmp, value),
                Some(k) => hk::verif_add_xmp_key(xmp, k, value),
            };
            match out {
                Err(e) => json!({"r": "err", "kind": err_class(&e)}),
                Ok(out) => {
                    let got = match key {
                        None => hk::xmp_extract_provenance(&out),
                        Some(k) => hk::verif_extract_xmp_key(&out, k),
                    };
                    let others: Vec<&str> = case["others"].as_array().map(|a| a.iter().filter_map(|k| k.as_str()).collect()).unwrap_or_default();
                    let ob: Vec<Value> = others.iter().map(|k| opt(hk::verif_extract_xmp_key(xmp, k))).collect();
                    let oa: Vec<Value> = others.iter().map(|k| opt(hk::verif_extract_xmp_key(&out, k))).collect();
                    json!({"r": "ok", "out": out, "got": opt(got), "others_before": ob, "others_after": oa})
                }
            }
        }
        "extract" => {
            let xmp = case["xmp"].as_str().unwrap_or(hk::MIN_XMP);
            let got = match key {
                None => hk::xmp_extract_provenance(xmp),
                Some(k) => hk::verif_extract_xmp_key(xmp, k),
            };
            json!({"r": "ok", "got": opt(got)})
        }
        "handler" => {
            let format = case["format"].as_str().unwrap_or("jpg");
            let src = e2e::fixture(case["fixture"].as_str().unwrap_or("IMG_0003.jpg"));
            let url = case["url"].as_str().unwrap_or("");
            let before = hk::read_xmp(format, &src);
            match hk::embed_xmp_reference(format, &src, url) {
                Err(e) => json!({"r": "err", "kind": err_class(&e), "xmp_before": opt(before)}),
                Ok(out) => json!({"r": "ok", "got": opt(hk::xmp_info_provenance(format, &out)),
                                  "xmp_before": opt(before), "xmp_after": opt(hk::read_xmp(format, &out))}),
            }
        }
        "api" => {
            let format = case["format"].as_str().unwrap_or("jpg");
            let src = e2e::fixture(case["fixture"].as_str().unwrap_or("IMG_0003.jpg"));
            let url = case["url"].as_str().unwrap_or("");
            let embedded = opt(hk::normalized_remote_url(url));
            let signer = e2e::signer("ed25519");
            let ctx = e2e::context(Some(r#"{"verify": {"remote_manifest_fetch": false}}"#));
            let mut builder = match Builder::from_context(ctx).with_definition(e2e::minimal_manifest("c30").as_str()) {
                Ok(b) => b,
                Err(e) => return json!({"r": "err", "stage": "definition", "kind": err_class(&e)}),
            };
            builder.set_remote_url(url);
            builder.set_no_embed(true);
            let mut input = Cursor::new(src);
            let mut out = Cursor::new(Vec::new());
            if let Err(e) = builder.sign(signer.as_ref(), format, &mut input, &mut out) {
                return json!({"r": "err", "stage": "sign", "kind": err_class(&e), "detail": format!("{}", e), "embedded": embedded});
            }
            let signed = out.into_inner();
            let rctx = e2e::context(Some(r#"{"verify": {"remote_manifest_fetch": false}}"#));
            match Reader::from_context(rctx).with_stream(format, Cursor::new(signed)) {
                Ok(_) => json!({"r": "ok", "reader": "Ok", "got": Value::Null, "embedded": embedded}),
                Err(Error::RemoteManifestUrl(u)) => json!({"r": "ok", "reader": "RemoteManifestUrl", "got": u, "embedded": embedded}),
                Err(e) => json!({"r": "ok", "reader": err_class(&e), "got": Value::Null, "embedded": embedded}),
            }
        }
        _ => json!({"r": "bad-op"}),
    }
}
