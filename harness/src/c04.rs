//! C04: validation state from validation codes.
//! A status is `[code, kind(0 success|1 informational|2 failure), ingredient_uri|null]`.
//! case kinds:
//!  {k:"results", active:null|[S,I,F], deltas:null|[[uri,S,I,F]..], ops:[status..], extra:status|null,
//!   decoy_status:null|[codes], decoy_state:null|str}
//!      -> state after build+ops, dump of the buckets, state after adding `extra`, state through Reader::from_json
//!  {k:"legacy", status:null|[codes], verify_trust:bool, stored_state:null|str}   (no validation_results object)
//!  {k:"logkind", code}
use c2pa::{
    status_tracker::LogKind,
    validation_results::{
        validation_codes::log_kind, IngredientDeltaValidationResult, StatusCodes, ValidationResults,
        ValidationState,
    },
    validation_status::ValidationStatus,
    Context, Reader,
};
use serde_json::{json, Value};

fn kind_of(k: u64) -> LogKind {
    match k {
        0 => LogKind::Success,
        1 => LogKind::Informational,
        _ => LogKind::Failure,
    }
}
fn kind_no(k: &LogKind) -> u64 {
    match k {
        LogKind::Success => 0,
        LogKind::Informational => 1,
        LogKind::Failure => 2,
    }
}

fn mk(st: &Value) -> ValidationStatus {
    // public construction path: deserialize {"code":..}, then the public setters
    let mut s: ValidationStatus =
        serde_json::from_value(json!({"code": st[0].as_str().expect("code")})).expect("status");
    s = s.set_kind(kind_of(st[1].as_u64().unwrap_or(0)));
    if let Some(u) = st[2].as_str() {
        s = s.set_ingredient_uri(u);
    }
    s
}

fn sc_from(s: &Value, i: &Value, f: &Value) -> StatusCodes {
    let mut sc = StatusCodes::default();
    for x in s.as_array().expect("S") {
        sc = sc.add_success_val(mk(x));
    }
    for x in i.as_array().expect("I") {
        sc = sc.add_informational_val(mk(x));
    }
    for x in f.as_array().expect("F") {
        sc = sc.add_failure_val(mk(x));
    }
    sc
}

fn dump_list(l: &[ValidationStatus]) -> Value {
    Value::Array(
        l.iter()
            .map(|s| json!([s.code(), kind_no(s.kind()), s.ingredient_uri()]))
            .collect(),
    )
}
fn dump_sc(sc: &StatusCodes) -> Value {
    json!([dump_list(sc.success()), dump_list(sc.informational()), dump_list(sc.failure())])
}
fn dump(r: &ValidationResults) -> Value {
    json!({
        "active": r.active_manifest().map(dump_sc),
        "deltas": r.ingredient_deltas().map(|ds| ds.iter().map(|d| {
            let sc = d.validation_deltas();
            json!([d.ingredient_assertion_uri(), dump_list(sc.success()), dump_list(sc.informational()), dump_list(sc.failure())])
        }).collect::<Vec<_>>()),
    })
}
fn st_name(s: ValidationState) -> &'static str {
    match s {
        ValidationState::Invalid => "Invalid",
        ValidationState::Valid => "Valid",
        ValidationState::Trusted => "Trusted",
    }
}

pub fn run(case: &Value) -> Value {
    match case["k"].as_str().unwrap_or("") {
        "results" => {
            // Some(vec![]) for the deltas is only reachable through deserialization
            let mut r: ValidationResults = if case["deltas"].as_array().is_some_and(|d| d.is_empty()) {
                serde_json::from_value(json!({"ingredientDeltas": []})).expect("de")
            } else {
                ValidationResults::default()
            };
            if let Some(a) = case["active"].as_array() {
                r = r.add_active_manifest(sc_from(&a[0], &a[1], &a[2]));
            }
            if let Some(ds) = case["deltas"].as_array() {
                for d in ds {
                    r = r.add_ingredient_delta(IngredientDeltaValidationResult::new(
                        d[0].as_str().expect("uri"),
                        sc_from(&d[1], &d[2], &d[3]),
                    ));
                }
            }
            if let Some(ops) = case["ops"].as_array() {
                for o in ops {
                    r.add_status(mk(o));
                }
            }
            let state = r.validation_state();
            let d = dump(&r);
            // the same results through a Reader (dispatch of Reader::validation_state, serde round trip)
            let mut rj = json!({"manifests": {}, "validation_results": serde_json::to_value(&r).expect("ser")});
            if let Some(ds) = case["decoy_status"].as_array() {
                rj["validation_status"] = Value::Array(ds.iter().map(|c| json!({"code": c})).collect());
            }
            if let Some(s) = case["decoy_state"].as_str() {
                rj["validation_state"] = json!(s);
            }
            let reader_state = match Reader::from_json(&rj.to_string()) {
                Ok(rd) => st_name(rd.validation_state()).to_string(),
                Err(e) => format!("err:{}", crate::util::err_class(&e)),
            };
            let state_extra = if case["extra"].is_array() {
                r.add_status(mk(&case["extra"]));
                Some(st_name(r.validation_state()))
            } else {
                None
            };
            json!({"r": "ok", "state": st_name(state), "dump": d, "reader_state": reader_state, "state_extra": state_extra})
        }
        "legacy" => {
            let mut rj = json!({"manifests": {}});
            if let Some(ds) = case["status"].as_array() {
                rj["validation_status"] = Value::Array(ds.iter().map(|c| json!({"code": c})).collect());
            }
            if let Some(s) = case["stored_state"].as_str() {
                rj["validation_state"] = json!(s);
            }
            let vt = case["verify_trust"].as_bool().unwrap_or(true);
            let rd = if vt && !case["hook"].as_bool().unwrap_or(false) {
                Reader::from_json(&rj.to_string())
            } else {
                let ctx = Context::new()
                    .with_settings(json!({"verify": {"verify_trust": vt}}))
                    .expect("settings");
                Reader::verif_from_json_with_context(&rj.to_string(), ctx)
            };
            match rd {
                Ok(rd) => json!({"r": "ok", "state": st_name(rd.validation_state()),
                                 "has_results": rd.validation_results().is_some()}),
                Err(e) => json!({"r": "err", "kind": crate::util::err_class(&e)}),
            }
        }
        "logkind" => {
            json!({"r": "ok", "kind": kind_no(&log_kind(case["code"].as_str().expect("code")))})
        }
        _ => json!({"r": "badcase"}),
    }
}
