//! C29: resource / archive / export operations run in a per-case temporary tree with symbolic links.
//! Input  {op, tree:[[path,"d"]|[path,"f",content]|[path,"l",target]], base, rroot?, ident, data, label?, dest?, zip?}
//!        (paths relative to the case directory; "$T" in a link target is the case directory)
//! Output {r, obs.., created_dirs, created_files, modified, removed, real_root} — locations are real
//!        (the snapshot walk does not follow links), relative to the case directory.
use std::collections::BTreeMap;
use std::io::Cursor;
use std::path::{Path, PathBuf};

use c2pa::{Builder, Reader, ResourceStore};
use serde_json::{json, Value};

use crate::util::err_class;

#[derive(Clone, PartialEq, Debug)]
enum Ent {
    Dir,
    File(String),
    Link(String),
}

fn snapshot(root: &Path) -> BTreeMap<String, Ent> {
    let mut out = BTreeMap::new();
    let mut stack = vec![root.to_path_buf()];
    while let Some(d) = stack.pop() {
        let rd = match std::fs::read_dir(&d) {
            Ok(r) => r,
            Err(_) => continue,
        };
        for e in rd.flatten() {
            let p = e.path();
            let rel = p.strip_prefix(root).expect("prefix").to_string_lossy().into_owned();
            let md = match std::fs::symlink_metadata(&p) {
                Ok(m) => m,
                Err(_) => continue,
            };
            if md.file_type().is_symlink() {
                let t = std::fs::read_link(&p).map(|t| t.to_string_lossy().into_owned()).unwrap_or_default();
                out.insert(rel, Ent::Link(t));
            } else if md.is_dir() {
                out.insert(rel, Ent::Dir);
                stack.push(p);
            } else {
                let c = std::fs::read(&p).unwrap_or_default();
                let s = if c.len() > 64 { format!("<{} bytes>", c.len()) } else { String::from_utf8_lossy(&c).into_owned() };
                out.insert(rel, Ent::File(s));
            }
        }
    }
    out
}

fn build_tree(t: &Path, tree: &Value) {
    let ts = t.to_string_lossy().into_owned();
    for e in tree.as_array().expect("tree") {
        let p = t.join(e[0].as_str().expect("path"));
        match e[1].as_str().expect("kind") {
            "d" => std::fs::create_dir_all(&p).expect("mkdir"),
            "f" => {
                if let Some(parent) = p.parent() {
                    std::fs::create_dir_all(parent).expect("mkdir parent");
                }
                std::fs::write(&p, e[2].as_str().unwrap_or("")).expect("write");
            }
            "l" => {
                if let Some(parent) = p.parent() {
                    std::fs::create_dir_all(parent).expect("mkdir parent");
                }
                let target = e[2].as_str().expect("target").replace("$T", &ts);
                std::os::unix::fs::symlink(target, &p).expect("symlink");
            }
            k => panic!("unknown tree kind {k}"),
        }
    }
}

fn strip_t(s: &str, t: &Path) -> String {
    s.replace(&*t.to_string_lossy(), "$T")
}

fn err_json(e: &c2pa::Error, t: &Path) -> Value {
    let payload = match e {
        c2pa::Error::ResourceNotFound(s) => strip_t(s, t),
        _ => String::new(),
    };
    json!({"r": "err", "kind": err_class(e), "payload": payload})
}

pub fn run(case: &Value) -> Value {
    let op = case["op"].as_str().expect("op");
    let ident = case["ident"].as_str().unwrap_or("");
    // purely lexical operations need no tree
    match op {
        "sanitize" => {
            return match c2pa::verif_hooks::c29::sanitize_archive_path(ident) {
                Ok(s) => json!({"r": "ok", "path": s}),
                Err(e) => json!({"r": "err", "kind": err_class(&e)}),
            };
        }
        "uri_to_path" => {
            return match c2pa::verif_hooks::c29::uri_to_path(ident, case["label"].as_str()) {
                Ok(p) => json!({"r": "ok", "path": p.to_string_lossy()}),
                Err(e) => json!({"r": "err", "kind": err_class(&e)}),
            };
        }
        "normalize" => {
            let p = c2pa::verif_hooks::c29::normalize_lexically(Path::new(ident));
            return json!({"r": "ok", "path": p.to_string_lossy(),
                          "starts_with": case["label"].as_str().map(|b| p.starts_with(c2pa::verif_hooks::c29::normalize_lexically(Path::new(b))))});
        }
        _ => {}
    }
    let td = tempfile::tempdir().expect("tempdir");
    let t: PathBuf = td.path().canonicalize().expect("canonical tempdir");
    build_tree(&t, &case["tree"]);
    let ident_owned = ident.replace("$T", &t.to_string_lossy());
    let ident: &str = &ident_owned;
    let base = t.join(case["base"].as_str().unwrap_or("root"));
    let rroot = case["rroot"].as_str().map(|r| t.join(r));
    let data = case["data"].as_str().unwrap_or("DATA").as_bytes().to_vec();
    let before = snapshot(&t);

    let mut store = ResourceStore::new();
    store.set_base_path(&base);
    if let Some(r) = &rroot {
        store.set_resource_root(r);
    }
    let mut res = match op {
        "add" => match store.add(ident, data) {
            Ok(_) => json!({"r": "ok"}),
            Err(e) => err_json(&e, &t),
        },
        "get" => match store.get(ident) {
            Ok(v) => json!({"r": "ok", "content": String::from_utf8_lossy(&v)}),
            Err(e) => err_json(&e, &t),
        },
        "write_stream" => {
            let mut out = Cursor::new(Vec::new());
            match store.write_stream(ident, &mut out) {
                Ok(n) => json!({"r": "ok", "content": String::from_utf8_lossy(out.get_ref()), "n": n}),
                Err(e) => err_json(&e, &t),
            }
        }
        "exists" => json!({"r": "ok", "exists": store.exists(ident)}),
        "path_for_id" => match store.path_for_id(ident) {
            Some(p) => json!({"r": "ok", "path": strip_t(&p.to_string_lossy(), &t)}),
            None => json!({"r": "ok", "path": Value::Null}),
        },
        "resolve" => {
            let root = rroot.clone().unwrap_or_else(|| base.clone());
            match c2pa::verif_hooks::c29::resolve_within_root(&base, &root, ident) {
                Ok(p) => json!({"r": "ok", "path": strip_t(&p.to_string_lossy(), &t)}),
                Err(e) => err_json(&e, &t),
            }
        }
        "builder_add" => {
            let mut b = Builder::from_context(crate::e2e::context(None));
            b.set_base_path(&base);
            match b.add_resource(ident, Cursor::new(data)) {
                Ok(_) => json!({"r": "ok"}),
                Err(e) => err_json(&e, &t),
            }
        }
        "archive" => {
            let zip = hex::decode(case["zip"].as_str().unwrap_or("")).expect("zip hex");
            let mut b0 = Builder::from_context(crate::e2e::context(None));
            b0.set_base_path(&base);
            match b0.with_archive(Cursor::new(zip)) {
                Ok(b) => {
                    let (ids, has_base) = c2pa::verif_hooks::c29::builder_resources(&b);
                    json!({"r": "ok", "ids": ids, "has_base": has_base})
                }
                Err(e) => err_json(&e, &t),
            }
        }
        "to_folder" | "to_folder_list" => {
            let bytes = crate::e2e::fixture(case["fixture"].as_str().unwrap_or("C.jpg"));
            let reader = Reader::from_context(crate::e2e::context(None))
                .with_stream("image/jpeg", Cursor::new(bytes))
                .expect("fixture reads");
            let dest = t.join(case["dest"].as_str().unwrap_or("dest"));
            match reader.to_folder(&dest) {
                Ok(_) => json!({"r": "ok"}),
                Err(e) => err_json(&e, &t),
            }
        }
        other => panic!("unknown op {other}"),
    };
    let after = snapshot(&t);
    let mut created_dirs = vec![];
    let mut created_files = vec![];
    let mut created_links = vec![];
    let mut modified = vec![];
    let mut removed = vec![];
    for (p, a) in &after {
        match before.get(p) {
            None => match a {
                Ent::Dir => created_dirs.push(json!(p)),
                Ent::File(c) => created_files.push(json!([p, c])),
                Ent::Link(l) => created_links.push(json!([p, l])),
            },
            Some(b) if b != a => modified.push(json!([p, format!("{:?}", a)])),
            _ => {}
        }
    }
    for p in before.keys() {
        if !after.contains_key(p) {
            removed.push(json!(p));
        }
    }
    res["created_dirs"] = json!(created_dirs);
    res["created_files"] = json!(created_files);
    res["created_links"] = json!(created_links);
    res["modified"] = json!(modified);
    res["removed"] = json!(removed);
    let root = rroot.unwrap_or(base);
    res["real_root"] = match root.canonicalize() {
        Ok(p) => json!(p.strip_prefix(&t).map(|x| x.to_string_lossy().into_owned()).unwrap_or_else(|_| "<outside the case directory>".into())),
        Err(_) => Value::Null,
    };
    res
}
