//! C23: cancellation is always reported as cancellation.
//! case: {op, asset, format, [sidecar], [fragment], [settings], [alg],
//!        cancel: {kind:"none"} | {kind:"cb", k} | {kind:"flag", k} | {kind:"pre"} | {kind:"thread", delay_us}}
//!   cb     - the progress callback returns false at its k-th invocation (1-based), true otherwise
//!   flag   - the callback calls Context::cancel() during its k-th invocation and returns true
//!   pre    - Context::cancel() before the operation starts
//!   thread - Context::cancel() from another thread after delay_us microseconds
//!   prep:"sign"  - the asset is first signed with a plain context (no callback); the operation runs on the result
//!   serve:{url,file} - the context gets a resolver that answers `url` with the fixture `file` (404 otherwise)
//! out: {r:"ok"|"err", kind, trace:[[phase,step,total,flag_seen]..], state, failure:[codes], stage}
use std::{
    io::Cursor,
    sync::{Arc, Mutex},
};

use c2pa::{Builder, Context, ProgressPhase, Reader};
use serde_json::{json, Value};

use crate::{e2e, util::*};

#[derive(Clone, Default)]
struct Shared {
    trace: Arc<Mutex<Vec<(String, u32, u32, bool)>>>,
    ctx: Arc<Mutex<Option<Arc<Context>>>>,
}

fn make_context(case: &Value, sh: &Shared, with_signer: bool) -> Arc<Context> {
    let extra = case.get("settings").filter(|s| !s.is_null()).map(|s| s.to_string());
    let mut ctx = e2e::context_merged(extra.as_deref());
    if with_signer {
        ctx = ctx.with_signer(e2e::signer(case["alg"].as_str().unwrap_or("ed25519")));
    }
    if case["serve"].is_object() {
        let mut r = crate::c28::RecordingResolver::default();
        r.serve_url = case["serve"]["url"].as_str().map(|s| s.to_string());
        if let Some(f) = case["serve"]["file"].as_str() {
            r.body = Arc::new(e2e::fixture(f));
        }
        ctx = ctx.with_resolver(r);
    }
    let kind = case["cancel"]["kind"].as_str().unwrap_or("none").to_string();
    let k = case["cancel"]["k"].as_u64().unwrap_or(0) as usize;
    let sh2 = sh.clone();
    let ctx = ctx.with_progress_callback(move |phase: ProgressPhase, step: u32, total: u32| {
        let slot = sh2.ctx.lock().unwrap().clone();
        let seen = slot.as_ref().map(|c| c.is_cancelled()).unwrap_or(false);
        let n = {
            let mut t = sh2.trace.lock().unwrap();
            t.push((format!("{phase:?}"), step, total, seen));
            t.len()
        };
        match kind.as_str() {
            "cb" => n != k,
            "flag" => {
                if n == k {
                    if let Some(c) = slot {
                        c.cancel();
                    }
                }
                true
            }
            _ => true,
        }
    });
    let ctx = Arc::new(ctx);
    *sh.ctx.lock().unwrap() = Some(ctx.clone());
    ctx
}

fn finish(sh: &Shared, res: Result<Value, (String, c2pa::Error)>) -> Value {
    // break the Arc cycle (callback -> slot -> context -> callback)
    *sh.ctx.lock().unwrap() = None;
    let trace: Vec<Value> = sh.trace.lock().unwrap().iter().map(|(p, s, t, f)| json!([p, s, t, f])).collect();
    match res {
        Ok(mut v) => {
            v["r"] = json!("ok");
            v["trace"] = json!(trace);
            v
        }
        Err((stage, e)) => json!({"r": "err", "kind": err_class(&e), "detail": format!("{e}").chars().take(200).collect::<String>(),
                                  "stage": stage, "trace": trace}),
    }
}

fn reader_summary(r: &Reader) -> Value {
    let rep = e2e::report(r);
    json!({"state": rep["state"], "failure": rep["failure"]})
}

fn ingredient_summary(b: &Builder) -> Value {
    // the imported ingredient's recorded validation status (codes), through the builder's JSON definition
    let v = serde_json::to_value(&b.definition).unwrap_or(Value::Null);
    let mut codes = vec![];
    if let Some(ings) = v["ingredients"].as_array() {
        for i in ings {
            if let Some(vs) = i["validation_status"].as_array() {
                for s in vs {
                    codes.push(s["code"].as_str().unwrap_or("").to_string());
                }
            }
        }
    }
    codes.sort();
    json!({"state": "Ingredient", "failure": codes})
}

pub fn run(case: &Value) -> Value {
    let op = case["op"].as_str().unwrap_or("read");
    let format = case["format"].as_str().unwrap_or("image/jpeg").to_string();
    let mut asset = e2e::fixture(case["asset"].as_str().expect("asset"));
    if case["prep"].as_str() == Some("sign") {
        let ctx = e2e::context_merged(Some(r#"{"verify":{"verify_after_sign":false},"builder":{"thumbnail":{"enabled":false}}}"#));
        let signer = e2e::signer("ed25519");
        asset = e2e::sign(ctx, &e2e::minimal_manifest("c23-prep"), &format, &asset, signer.as_ref()).expect("prep sign");
    }
    let sh = Shared::default();
    let ctx = make_context(case, &sh, op == "embeddable");
    let kind = case["cancel"]["kind"].as_str().unwrap_or("none");
    if kind == "pre" {
        ctx.cancel();
    }
    let canceller = if kind == "thread" {
        let c = ctx.clone();
        let d = case["cancel"]["delay_us"].as_u64().unwrap_or(0);
        Some(std::thread::spawn(move || {
            std::thread::sleep(std::time::Duration::from_micros(d));
            c.cancel();
        }))
    } else {
        None
    };
    let res: Result<Value, (String, c2pa::Error)> = (|| match op {
        "read" => {
            let r = Reader::from_shared_context(&ctx).with_stream(&format, Cursor::new(asset.clone())).map_err(|e| ("read".to_string(), e))?;
            Ok(reader_summary(&r))
        }
        "read_sidecar" => {
            let side = e2e::fixture(case["sidecar"].as_str().expect("sidecar"));
            let r = Reader::from_shared_context(&ctx)
                .with_manifest_data_and_stream(&side, &format, Cursor::new(asset.clone()))
                .map_err(|e| ("read".to_string(), e))?;
            Ok(reader_summary(&r))
        }
        "read_fragment" => {
            let frag = e2e::fixture(case["fragment"].as_str().expect("fragment"));
            let r = Reader::from_shared_context(&ctx)
                .with_fragment(&format, Cursor::new(asset.clone()), Cursor::new(frag))
                .map_err(|e| ("read".to_string(), e))?;
            Ok(reader_summary(&r))
        }
        "sign" => {
            let signer = e2e::signer(case["alg"].as_str().unwrap_or("ed25519"));
            let mut b = Builder::from_shared_context(&ctx)
                .with_definition(e2e::minimal_manifest("c23"))
                .map_err(|e| ("definition".to_string(), e))?;
            if case["no_embed"].as_bool().unwrap_or(false) {
                b.set_no_embed(true);
            }
            if let Some(u) = case["remote_url"].as_str() {
                b.set_remote_url(u);
            }
            let mut src = Cursor::new(asset.clone());
            let mut out = Cursor::new(Vec::new());
            let m = b.sign(signer.as_ref(), &format, &mut src, &mut out).map_err(|e| ("sign".to_string(), e))?;
            Ok(json!({"state": "Signed", "failure": [], "manifest_len": m.len(), "out_len": out.get_ref().len()}))
        }
        "ingredient" => {
            let mut b = Builder::from_shared_context(&ctx)
                .with_definition(e2e::minimal_manifest("c23"))
                .map_err(|e| ("definition".to_string(), e))?;
            let mut src = Cursor::new(asset.clone());
            b.add_ingredient_from_stream(json!({"title": "ing", "relationship": "componentOf"}).to_string(), &format, &mut src)
                .map_err(|e| ("ingredient".to_string(), e))?;
            Ok(ingredient_summary(&b))
        }
        "embeddable" => {
            // placeholder -> (caller embeds) -> update_hash_from_stream -> sign_embeddable
            let mut b = Builder::from_shared_context(&ctx)
                .with_definition(e2e::minimal_manifest("c23"))
                .map_err(|e| ("definition".to_string(), e))?;
            let _ph = b.placeholder(&format).map_err(|e| ("placeholder".to_string(), e))?;
            let mut src = Cursor::new(asset.clone());
            b.update_hash_from_stream(&format, &mut src).map_err(|e| ("update_hash".to_string(), e))?;
            let m = b.sign_embeddable(&format).map_err(|e| ("sign_embeddable".to_string(), e))?;
            Ok(json!({"state": "Signed", "failure": [], "manifest_len": m.len()}))
        }
        _ => panic!("unknown op {op}"),
    })();
    if let Some(h) = canceller {
        let _ = h.join();
    }
    finish(&sh, res)
}
