//! C33: CAWG identity assertions bind exactly the referenced assertions.
//!
//! op "e2e": build an asset whose manifest carries an X.509 CAWG identity assertion made by the SDK's own
//!   `IdentityAssertionBuilder` + `X509CredentialHolder`, optionally altered
//!     * `pre`  - inside `DynamicAssertion::content`, i.e. before the claim hashes it (the C2PA manifest stays
//!                consistent: only the CAWG layer can notice), or
//!     * `post` - in the bytes of the finished asset,
//!   then read it (sync / async; inline decoding or `post_validate_async` with `CawgValidator`) under the
//!   case's CAWG trust settings.
//!   case: {op, fmt, asset, c2pa_alg, cawg_alg, extra:[{label,data}], refs:[label], roles:[..],
//!          pre: mutation|null, post: mutation|null, trust:{verify, anchors:"c2pa"|"partial"|"none"},
//!          decode: bool, mode:"sync"|"async", post_validate: bool}
//!   mutation: {k:"flip", field, idx, off, xor}        field: pad1 pad2 sigval sig_protected sig_other
//!                                                             ref_hash ref_url sig_type role ref_data(post only, token)
//!             {k:"dup_ref", idx, resign} {k:"drop_hard", resign} {k:"add_missing", resign}
//!             {k:"alter_hash", idx, resign} {k:"sig_type", value, resign} {k:"pad", which, len, long_pad2, zero}
//!   `reserve_extra`: bytes added to the reserved assertion size (the SDK then writes a long zero pad1); flips and `pad`
//!   take `at` = first|mid|last|p4095|p4096|late to place the byte
//! op "unit": `IdentityAssertion::validate_partial_claim` (hook) on a synthetic claim and identity assertion.
//!   case: {op, claim:[[url,hashhex]], refs:[[url,hashhex]], sig_type, roles, pad1:hex, pad2:hex|null,
//!          sig:"valid"|"other"|"garbage"|"nocert"|"empty", cawg_alg, stop:bool, trust:{..}}
//!   out:  {r, res:"ok"|error variant, items:[[code,kind]]}
use std::{
    future::Future,
    io::Cursor,
    sync::{Arc, Mutex},
    task::{Context as TaskContext, Poll, Wake, Waker},
};

use c2pa::{
    dynamic_assertion::{DynamicAssertion, DynamicAssertionContent, PartialClaim},
    identity::{
        builder::{CredentialHolder, IdentityAssertionBuilder},
        validator::CawgValidator,
        x509::X509CredentialHolder,
        SignerPayload,
    },
    status_tracker::{ErrorBehavior, LogKind, StatusTracker},
    verif_hooks::c33 as hook,
    Builder, Context, HashedUri, RawSigner, RawSignerError, Reader, Signer, SigningAlg,
};
use serde_json::{json, Value};

use crate::{e2e, util::*};

// ------------------------------------------------------------------------------------------------ executor

struct ThreadWaker(std::thread::Thread);
impl Wake for ThreadWaker {
    fn wake(self: Arc<Self>) {
        self.0.unpark();
    }
}

/// Minimal single-future executor (the CAWG X.509 path performs no I/O).
pub fn block_on<F: Future>(f: F) -> F::Output {
    let mut f = std::pin::pin!(f);
    let waker: Waker = Arc::new(ThreadWaker(std::thread::current())).into();
    let mut cx = TaskContext::from_waker(&waker);
    loop {
        match f.as_mut().poll(&mut cx) {
            Poll::Ready(v) => return v,
            Poll::Pending => std::thread::park_timeout(std::time::Duration::from_millis(5)),
        }
    }
}

// ------------------------------------------------------------------------------------------------ CAWG signer pieces

/// The raw signature primitive of a fixture signer (`Signer::sign` of `create_signer::from_keys` is the raw signature).
struct RawFromSigner(c2pa::BoxedSigner, usize);
impl RawSigner for RawFromSigner {
    fn sign(&self, data: &[u8]) -> Result<Vec<u8>, RawSignerError> {
        self.0.sign(data).map_err(|e| RawSignerError::InternalError(e.to_string()))
    }
    fn alg(&self) -> SigningAlg {
        self.0.alg()
    }
    fn max_signature_size(&self) -> usize {
        self.1
    }
}

fn sig_size(alg: &str) -> usize {
    match alg {
        "es256" => 64,
        "es384" => 96,
        "es512" => 132,
        "ed25519" => 64,
        _ => 512,
    }
}

fn holder(alg: &str) -> X509CredentialHolder {
    let s = e2e::signer(alg);
    let chain = s.certs().expect("cawg certs");
    X509CredentialHolder::from_raw_signer(Box::new(RawFromSigner(s, sig_size(alg))), chain)
}

#[derive(Default)]
struct Record {
    cbor: Option<Vec<u8>>,
    original: Option<Vec<u8>>,
    note: Option<String>,
    claim: Vec<(String, String)>,
    size: Option<usize>,
}

struct MutDyn {
    inner: IdentityAssertionBuilder,
    holder: X509CredentialHolder,
    pre: Value,
    rec: Arc<Mutex<Record>>,
    reserve_extra: usize,
}

fn find(hay: &[u8], needle: &[u8]) -> Option<usize> {
    if needle.is_empty() || needle.len() > hay.len() {
        return None;
    }
    hay.windows(needle.len()).position(|w| w == needle)
}

fn rfind(hay: &[u8], needle: &[u8]) -> Option<usize> {
    if needle.is_empty() || needle.len() > hay.len() {
        return None;
    }
    hay.windows(needle.len()).rposition(|w| w == needle)
}

/// (start, len) of the content of the byte string that follows the text key `key` in `cbor`.
fn bstr_after_key(cbor: &[u8], key: &str) -> Option<(usize, usize)> {
    let mut k = vec![0x60u8 + key.len() as u8];
    k.extend_from_slice(key.as_bytes());
    let p = find(cbor, &k)? + k.len();
    let h = *cbor.get(p)?;
    if h >> 5 != 2 {
        return None;
    }
    let ai = h & 0x1f;
    let (n, hl) = match ai {
        0..=23 => (ai as usize, 1),
        24 => (*cbor.get(p + 1)? as usize, 2),
        25 => (u16::from_be_bytes([*cbor.get(p + 1)?, *cbor.get(p + 2)?]) as usize, 3),
        26 => (u32::from_be_bytes([*cbor.get(p + 1)?, *cbor.get(p + 2)?, *cbor.get(p + 3)?, *cbor.get(p + 4)?]) as usize, 5),
        _ => return None,
    };
    Some((p + hl, n))
}

/// Byte range (start, len) of a named field inside the CBOR of an identity assertion, plus a note.
fn field_range(cbor: &[u8], field: &str, idx: usize) -> Result<(usize, usize, String), String> {
    let (sp, sig, _p1, _p2) = hook::ia_from_cbor(cbor).map_err(|e| format!("decode: {e}"))?;
    let spc = hook::signer_payload_cbor(&sp).map_err(|e| format!("{e}"))?;
    let sp_at = find(cbor, &spc).ok_or("payload not found")?;
    let sig_at = rfind(cbor, &sig).ok_or("signature not found")?;
    let within_payload = |needle: &[u8], nth: usize| -> Option<usize> {
        let mut from = 0;
        let mut hit = None;
        for _ in 0..=nth {
            let p = find(&spc[from..], needle)? + from;
            hit = Some(p);
            from = p + 1;
        }
        hit.map(|p| sp_at + p)
    };
    match field {
        "pad1" | "pad2" => {
            let (s, n) = bstr_after_key(cbor, field).ok_or(format!("{field} absent"))?;
            Ok((s, n, String::new()))
        }
        "payload" => Ok((sp_at, spc.len(), String::new())),
        "signature" => Ok((sig_at, sig.len(), String::new())),
        "sigval" | "sig_protected" | "sig_other" => {
            use c2pa::verif_hooks::c14::coset::{CoseSign1, TaggedCborSerializable, CborSerializable};
            let s1 = CoseSign1::from_tagged_slice(&sig).or_else(|_| CoseSign1::from_slice(&sig)).map_err(|e| format!("cose: {e:?}"))?;
            let sv = rfind(&sig, &s1.signature).ok_or("sigval not found")?;
            let prot = s1.protected.original_data.clone().unwrap_or_default();
            let pv = find(&sig, &prot);
            match field {
                "sigval" => Ok((sig_at + sv, s1.signature.len(), String::new())),
                "sig_protected" => {
                    let p = pv.ok_or("protected header not found")?;
                    Ok((sig_at + p, prot.len(), String::new()))
                }
                _ => {
                    // everything of the COSE_Sign1 that is neither the protected header nor the signature value
                    let p = pv.map(|p| p + prot.len()).unwrap_or(0);
                    if sv <= p {
                        return Err("no unprotected part".into());
                    }
                    Ok((sig_at + p, sv - p, String::new()))
                }
            }
        }
        "ref_hash" => {
            let r = sp.referenced_assertions.get(idx % sp.referenced_assertions.len().max(1)).ok_or("no refs")?;
            let h = r.hash();
            let p = within_payload(&h, 0).ok_or("hash not found")?;
            Ok((p, h.len(), r.url()))
        }
        "ref_url" => {
            let r = sp.referenced_assertions.get(idx % sp.referenced_assertions.len().max(1)).ok_or("no refs")?;
            let u = r.url();
            let p = within_payload(u.as_bytes(), 0).ok_or("url not found")?;
            // only the label part (after the last '/'): the prefix is shared by every reference
            let lab = u.rfind('/').map(|i| i + 1).unwrap_or(0);
            Ok((p + lab, u.len() - lab, u))
        }
        "sig_type" => {
            let p = within_payload(sp.sig_type.as_bytes(), 0).ok_or("sig_type not found")?;
            Ok((p, sp.sig_type.len(), String::new()))
        }
        "role" => {
            let r = sp.roles.get(idx % sp.roles.len().max(1)).ok_or("no roles")?;
            let p = within_payload(r.as_bytes(), 0).ok_or("role not found")?;
            Ok((p, r.len(), r.clone()))
        }
        _ => Err(format!("unknown field {field}")),
    }
}

fn flip_in(cbor: &mut [u8], m: &Value) -> Result<String, String> {
    let field = m["field"].as_str().unwrap_or("");
    let (s, n, note) = field_range(cbor, field, m["idx"].as_u64().unwrap_or(0) as usize)?;
    if n == 0 {
        return Err(format!("{field} is empty"));
    }
    let off = resolve_off(m, n)?;
    let x = (m["xor"].as_u64().unwrap_or(1) as u8).max(1);
    cbor[s + off] ^= x;
    Ok(format!("{field}[{off}/{n}] {note}"))
}

/// Position inside a field of `n` bytes: `at` = "first" | "mid" | "last" | "p4095" | "p4096" | "late" (4096 + off mod rest),
/// otherwise `off` modulo n.
fn resolve_off(m: &Value, n: usize) -> Result<usize, String> {
    let off = m["off"].as_u64().unwrap_or(0) as usize;
    match m["at"].as_str() {
        Some("first") => Ok(0),
        Some("mid") => Ok(n / 2),
        Some("last") => Ok(n - 1),
        Some("p4095") if n > 4095 => Ok(4095),
        Some("p4096") if n > 4096 => Ok(4096),
        Some("late") if n > 4097 => Ok(4096 + off % (n - 4096)),
        Some(a @ ("p4095" | "p4096" | "late")) => Err(format!("field of {n} bytes has no position {a}")),
        _ => Ok(off % n),
    }
}

/// Re-assemble an identity assertion of exactly `size` bytes (the SDK's own padding recipe) or unpadded.
fn assemble(sp: SignerPayload, sig: Vec<u8>, size: Option<usize>, pad_override: &Value) -> Result<Vec<u8>, String> {
    let e = |x: c2pa::Error| format!("{x}");
    let bare = hook::ia_to_cbor(sp.clone(), sig.clone(), vec![], None).map_err(e)?;
    let Some(size) = size else {
        if pad_override["k"].as_str() == Some("pad") {
            let n = pad_override["len"].as_u64().unwrap_or(4) as usize;
            let mut p = vec![0u8; n];
            p[n / 2] = 0x5a;
            return if pad_override["which"].as_u64() == Some(2) {
                hook::ia_to_cbor(sp, sig, vec![0u8; 3], Some(p)).map_err(e)
            } else {
                hook::ia_to_cbor(sp, sig, p, None).map_err(e)
            };
        }
        return Ok(bare);
    };
    if bare.len() + 21 > size {
        return Err(format!("altered assertion ({}) does not fit the reserved size {size}", bare.len()));
    }
    if pad_override["long_pad2"].as_bool().unwrap_or(false) {
        // the reserved space goes to pad2 instead of pad1
        let pad1 = vec![0u8; 3];
        let room = size - bare.len();
        for l in (room.saturating_sub(40)..=room).rev() {
            let c = hook::ia_to_cbor(sp.clone(), sig.clone(), pad1.clone(), Some(vec![0u8; l])).map_err(e)?;
            if c.len() == size {
                return Ok(c);
            }
        }
        return Err("no pad2 length fills the reserved size".into());
    }
    let pad1 = vec![0u8; size - bare.len() - 15];
    let c1 = hook::ia_to_cbor(sp.clone(), sig.clone(), pad1.clone(), None).map_err(e)?;
    let pad2 = vec![0u8; size - c1.len() - 6];
    let c2 = hook::ia_to_cbor(sp, sig, pad1, Some(pad2)).map_err(e)?;
    if c2.len() != size {
        return Err(format!("padding recipe gave {} for {size}", c2.len()));
    }
    Ok(c2)
}

impl MutDyn {
    fn mutate(&self, cbor: Vec<u8>, size: Option<usize>, claim: &PartialClaim) -> Result<(Vec<u8>, String), String> {
        let m = &self.pre;
        let k = m["k"].as_str().unwrap_or("none");
        if k == "none" {
            return Ok((cbor, String::new()));
        }
        if k == "flip" {
            let mut c = cbor;
            let note = flip_in(&mut c, m)?;
            return Ok((c, note));
        }
        let (mut sp, sig, _p1, _p2) = hook::ia_from_cbor(&cbor).map_err(|e| format!("{e}"))?;
        let n = sp.referenced_assertions.len();
        let idx = (m["idx"].as_u64().unwrap_or(0) as usize) % n.max(1);
        let mut note = String::new();
        match k {
            "dup_ref" => {
                let r = sp.referenced_assertions.get(idx).ok_or("no refs")?.clone();
                note = r.url();
                let at = (m["at"].as_u64().unwrap_or(n as u64) as usize).min(n);
                sp.referenced_assertions.insert(at, r);
            }
            "drop_hard" => sp.referenced_assertions.retain(|r| !r.url().contains("c2pa.hash.")),
            "add_missing" => {
                let base = claim.assertions().next().map(|a| a.url()).unwrap_or_default();
                let pre = base.rfind('/').map(|i| &base[..=i]).unwrap_or("");
                let url = format!("{pre}{}", m["label"].as_str().unwrap_or("verif.not.in.claim"));
                note = url.clone();
                sp.referenced_assertions.push(HashedUri::new(url, None, &[7u8; 32]));
            }
            "alter_hash" => {
                let r = sp.referenced_assertions.get(idx).ok_or("no refs")?.clone();
                let mut h = r.hash();
                let l = h.len().max(1);
                h[(m["off"].as_u64().unwrap_or(0) as usize) % l] ^= 0x01;
                note = r.url();
                sp.referenced_assertions[idx] = HashedUri::new(r.url(), r.alg(), &h);
            }
            "sig_type" => sp.sig_type = m["value"].as_str().unwrap_or("cawg.x509.cosf").to_string(),
            "pad" => {}
            _ => return Err(format!("unknown mutation {k}")),
        }
        let sig = if m["resign"].as_bool().unwrap_or(true) {
            self.holder.sign(&sp).map_err(|e| format!("resign: {e}"))?
        } else {
            sig
        };
        if k == "pad" {
            // non-zero padding written by the producer: same parts, pad of the requested field carries one non-zero byte
            let mut c = assemble(sp, sig, size, m)?;
            if size.is_some() {
                let field = if m["which"].as_u64() == Some(2) { "pad2" } else { "pad1" };
                let (s, n, _) = field_range(&c, field, 0)?;
                if n == 0 {
                    return Err(format!("{field} is empty"));
                }
                if !m["zero"].as_bool().unwrap_or(false) {
                    let off = resolve_off(m, n)?;
                    c[s + off] = 0x5a;
                    return Ok((c, format!("pad {field}[{off}/{n}]")));
                }
            }
            return Ok((c, "pad".into()));
        }
        Ok((assemble(sp, sig, size, &Value::Null)?, note))
    }
}

impl DynamicAssertion for MutDyn {
    fn label(&self) -> String {
        self.inner.label()
    }

    fn reserve_size(&self) -> c2pa::Result<usize> {
        Ok(self.inner.reserve_size()? + self.reserve_extra)
    }

    fn content(&self, label: &str, size: Option<usize>, claim: &PartialClaim) -> c2pa::Result<DynamicAssertionContent> {
        let c = self.inner.content(label, size, claim)?;
        let DynamicAssertionContent::Cbor(cbor) = c else {
            return Ok(c);
        };
        let mut rec = self.rec.lock().unwrap();
        rec.original = Some(cbor.clone());
        rec.size = size;
        rec.claim = claim.assertions().map(|a| (a.url(), hex::encode(a.hash()))).collect();
        match self.mutate(cbor.clone(), size, claim) {
            Ok((c2, note)) => {
                rec.note = Some(note);
                rec.cbor = Some(c2.clone());
                Ok(DynamicAssertionContent::Cbor(c2))
            }
            Err(why) => {
                rec.note = Some(format!("NOT-APPLIED: {why}"));
                rec.cbor = Some(cbor.clone());
                Ok(DynamicAssertionContent::Cbor(cbor))
            }
        }
    }
}

struct CawgSigner {
    inner: c2pa::BoxedSigner,
    cawg_alg: String,
    refs: Vec<String>,
    roles: Vec<String>,
    pre: Value,
    rec: Arc<Mutex<Record>>,
    reserve_extra: usize,
}

impl Signer for CawgSigner {
    fn sign(&self, data: &[u8]) -> c2pa::Result<Vec<u8>> {
        self.inner.sign(data)
    }
    fn alg(&self) -> SigningAlg {
        self.inner.alg()
    }
    fn certs(&self) -> c2pa::Result<Vec<Vec<u8>>> {
        self.inner.certs()
    }
    fn reserve_size(&self) -> usize {
        self.inner.reserve_size()
    }
    fn dynamic_assertions(&self) -> Vec<Box<dyn DynamicAssertion>> {
        let mut iab = IdentityAssertionBuilder::for_credential_holder(holder(&self.cawg_alg));
        let r: Vec<&str> = self.refs.iter().map(|s| s.as_str()).collect();
        if !r.is_empty() {
            iab.add_referenced_assertions(&r);
        }
        let ro: Vec<&str> = self.roles.iter().map(|s| s.as_str()).collect();
        if !ro.is_empty() {
            iab.add_roles(&ro);
        }
        vec![Box::new(MutDyn { inner: iab, holder: holder(&self.cawg_alg), pre: self.pre.clone(), rec: self.rec.clone(), reserve_extra: self.reserve_extra })]
    }
}

// ------------------------------------------------------------------------------------------------ settings

fn anchors_pem(kind: &str) -> Option<String> {
    let all = String::from_utf8(e2e::fixture("certs/trust/test_cert_root_bundle.pem")).expect("utf8");
    match kind {
        "c2pa" => Some(all),
        // only the first root of the bundle
        "partial" => all.find("-----END CERTIFICATE-----").map(|i| all[..i + 25].to_string() + "\n"),
        _ => None,
    }
}

fn read_settings(case: &Value) -> String {
    let t = &case["trust"];
    let mut cawg = serde_json::Map::new();
    cawg.insert("verify_trust_list".into(), json!(t["verify"].as_bool().unwrap_or(true)));
    if let Some(p) = anchors_pem(t["anchors"].as_str().unwrap_or("none")) {
        cawg.insert((if t["user"].as_bool().unwrap_or(false) { "user_anchors" } else { "trust_anchors" }).into(), json!(p));
    }
    json!({"cawg_trust": cawg, "core": {"decode_identity_assertions": case["decode"].as_bool().unwrap_or(true)},
           "verify": {"ocsp_fetch": false, "remote_manifest_fetch": false}})
    .to_string()
}

fn sorted_codes(v: &[c2pa::validation_status::ValidationStatus]) -> Vec<String> {
    let mut c: Vec<String> = v.iter().map(|s| s.code().to_string()).collect();
    c.sort();
    c
}

fn summary(r: &Reader) -> Value {
    let mut out = json!({"state": format!("{:?}", r.validation_state()), "failure": [], "success": [], "informational": [], "deltas": []});
    if let Some(vr) = r.validation_results() {
        if let Some(a) = vr.active_manifest() {
            out["failure"] = json!(sorted_codes(a.failure()));
            out["success"] = json!(sorted_codes(a.success()).into_iter().filter(|c| c.starts_with("cawg.") || c.starts_with("claimSignature")).collect::<Vec<_>>());
            out["informational"] = json!(sorted_codes(a.informational()).into_iter().filter(|c| c.starts_with("cawg.")).collect::<Vec<_>>());
        }
        if let Some(ds) = vr.ingredient_deltas() {
            let mut all = vec![];
            for d in ds {
                all.extend(sorted_codes(d.validation_deltas().failure()));
            }
            out["deltas"] = json!(all);
        }
    }
    // was the identity assertion rendered as a validated summary (validation returned Ok) ?
    let mut decoded = Value::Null;
    if let Some(m) = r.active_manifest() {
        for a in m.assertions() {
            if a.label() == "cawg.identity" || a.label().starts_with("cawg.identity__") {
                if let Ok(v) = a.value() {
                    decoded = json!(v.get("signature_info").is_some() || v.get("signer_payload").map(|p| p.get("referenced_assertions").is_some()).unwrap_or(false) && v.get("signature").is_none());
                }
            }
        }
    }
    out["validated_summary"] = decoded;
    out
}

// ------------------------------------------------------------------------------------------------ e2e

fn run_e2e(case: &Value) -> Value {
    let fmt = case["fmt"].as_str().unwrap_or("image/jpeg");
    let src = e2e::fixture(case["asset"].as_str().unwrap_or("C.jpg"));
    let mut def: Value = serde_json::from_str(&e2e::minimal_manifest("c33")).unwrap();
    if let Some(extra) = case["extra"].as_array() {
        for a in extra {
            def["assertions"].as_array_mut().unwrap().push(a.clone());
        }
    }
    let rec = Arc::new(Mutex::new(Record::default()));
    let strs = |v: &Value| -> Vec<String> { v.as_array().map(|a| a.iter().filter_map(|x| x.as_str().map(String::from)).collect()).unwrap_or_default() };
    let signer = CawgSigner {
        inner: e2e::signer(case["c2pa_alg"].as_str().unwrap_or("es256")),
        cawg_alg: case["cawg_alg"].as_str().unwrap_or("ed25519").to_string(),
        refs: strs(&case["refs"]),
        roles: strs(&case["roles"]),
        pre: case["pre"].clone(),
        rec: rec.clone(),
        reserve_extra: case["reserve_extra"].as_u64().unwrap_or(0) as usize,
    };
    let sctx = e2e::context_merged(Some(r#"{"verify":{"verify_after_sign":false},"builder":{"thumbnail":{"enabled":false}}}"#));
    let mut asset = match e2e::sign(sctx, &def.to_string(), fmt, &src, &signer) {
        Ok(a) => a,
        Err(e) => {
            let note = rec.lock().unwrap().note.clone();
            return json!({"r": "err", "stage": "sign", "kind": err_class(&e), "detail": format!("{e}").chars().take(200).collect::<String>(), "note": note});
        }
    };
    let (cbor, original, note, claim, size) = {
        let r = rec.lock().unwrap();
        (r.cbor.clone().unwrap_or_default(), r.original.clone().unwrap_or_default(), r.note.clone().unwrap_or_default(), r.claim.clone(), r.size)
    };
    // post mutation: in the bytes of the finished asset
    let mut post_note = Value::Null;
    let mut final_cbor = cbor.clone();
    let post = &case["post"];
    if post["k"].as_str() == Some("flip") {
        let res: Result<String, String> = (|| {
            if post["field"].as_str() == Some("ref_data") {
                let tok = post["token"].as_str().ok_or("token")?.as_bytes();
                let p = find(&asset, tok).ok_or("token not found in asset")?;
                let off = (post["off"].as_u64().unwrap_or(0) as usize) % tok.len();
                asset[p + off] ^= (post["xor"].as_u64().unwrap_or(1) as u8).max(1);
                return Ok(format!("ref_data[{off}]"));
            }
            let at = find(&asset, &cbor).ok_or("identity assertion not contiguous in asset")?;
            let mut c = cbor.clone();
            let n = flip_in(&mut c, post)?;
            asset[at..at + c.len()].copy_from_slice(&c);
            final_cbor = c;
            Ok(n)
        })();
        post_note = match res {
            Ok(n) => json!(n),
            Err(w) => json!(format!("NOT-APPLIED: {w}")),
        };
    }
    let mut ia = json!({"len": final_cbor.len(), "note": note, "size": size, "changed": final_cbor != original});
    if let Ok((sp, sig, p1, p2)) = hook::ia_from_cbor(&final_cbor) {
        ia["refs"] = json!(sp.referenced_assertions.iter().map(|r| json!([r.url(), hex::encode(r.hash())])).collect::<Vec<_>>());
        ia["sig_type"] = json!(sp.sig_type);
        ia["roles"] = json!(sp.roles);
        ia["sig_len"] = json!(sig.len());
        ia["pad1"] = json!(p1.len());
        ia["pad2"] = json!(p2.as_ref().map(|p| p.len()));
        ia["pad1_zero"] = json!(p1.iter().all(|b| *b == 0));
        ia["pad2_zero"] = json!(p2.as_ref().map(|p| p.iter().all(|b| *b == 0)).unwrap_or(true));
    } else {
        ia["undecodable"] = json!(true);
    }
    ia["claim"] = json!(claim.iter().map(|(u, h)| json!([u, h])).collect::<Vec<_>>());
    let rs = read_settings(case);
    let ctx = Arc::new(e2e::context_merged(Some(&rs)));
    let is_async = case["mode"].as_str() == Some("async");
    let rd = if is_async {
        block_on(Reader::from_shared_context(&ctx).with_stream_async(fmt, Cursor::new(asset.clone())))
    } else {
        Reader::from_shared_context(&ctx).with_stream(fmt, Cursor::new(asset.clone()))
    };
    let mut reader = match rd {
        Ok(r) => r,
        Err(e) => return json!({"r": "err", "stage": "read", "kind": err_class(&e), "detail": format!("{e}").chars().take(200).collect::<String>(), "ia": ia, "post_note": post_note}),
    };
    let first = summary(&reader);
    let mut after = Value::Null;
    if case["post_validate"].as_bool().unwrap_or(false) {
        let v = CawgValidator::new(&ctx);
        match block_on(reader.post_validate_async(&v)) {
            Ok(()) => after = summary(&reader),
            Err(e) => after = json!({"err": err_class(&e)}),
        }
    }
    json!({"r": "ok", "read": first, "post": after, "ia": ia, "post_note": post_note})
}

// ------------------------------------------------------------------------------------------------ unit

fn refs_of(v: &Value) -> Vec<HashedUri> {
    v.as_array()
        .map(|a| a.iter().map(|p| HashedUri::new(p[0].as_str().unwrap_or("").to_string(), None, &hexd(&p[1]))).collect())
        .unwrap_or_default()
}

fn run_unit(case: &Value) -> Value {
    let claim = hook::partial_claim(&refs_of(&case["claim"]));
    let strs = |v: &Value| -> Vec<String> { v.as_array().map(|a| a.iter().filter_map(|x| x.as_str().map(String::from)).collect()).unwrap_or_default() };
    let sp = SignerPayload { referenced_assertions: refs_of(&case["refs"]), sig_type: case["sig_type"].as_str().unwrap_or("cawg.x509.cose").to_string(), roles: strs(&case["roles"]) };
    let h = holder(case["cawg_alg"].as_str().unwrap_or("ed25519"));
    let sig = match case["sig"].as_str().unwrap_or("valid") {
        "valid" => h.sign(&sp).expect("sign"),
        "other" => {
            let mut o = sp.clone();
            o.roles.push("verif.other".into());
            h.sign(&o).expect("sign")
        }
        // a well-formed COSE_Sign1 without an algorithm / with an algorithm (EdDSA) but without a certificate chain
        "garbage" => vec![0xd2, 0x84, 0x41, 0xa0, 0xa0, 0xf6, 0x43, 1, 2, 3],
        "nocert" => vec![0xd2, 0x84, 0x43, 0xa1, 0x01, 0x27, 0xa0, 0xf6, 0x43, 1, 2, 3],
        _ => vec![],
    };
    let pad2 = if case["pad2"].is_null() { None } else { Some(hexd(&case["pad2"])) };
    let cbor = match hook::ia_to_cbor(sp, sig, hexd(&case["pad1"]), pad2) {
        Ok(c) => c,
        Err(e) => return json!({"r": "err", "stage": "encode", "kind": err_class(&e)}),
    };
    let mut tr = StatusTracker::with_error_behavior(if case["stop"].as_bool().unwrap_or(false) { ErrorBehavior::StopOnFirstError } else { ErrorBehavior::ContinueWhenPossible });
    let ctx = e2e::context_merged(Some(&read_settings(case)));
    let res = match hook::validate_partial_claim(&cbor, &claim, &mut tr, &ctx) {
        Ok(r) => r,
        Err(e) => return json!({"r": "err", "stage": "decode", "kind": err_class(&e)}),
    };
    let items: Vec<Value> = tr
        .logged_items()
        .iter()
        .map(|i| {
            json!([i.validation_status.as_deref().unwrap_or(""), match i.kind {
                LogKind::Success => "S",
                LogKind::Informational => "I",
                LogKind::Failure => "F",
            }])
        })
        .collect();
    let res = match res {
        Ok(_) => "ok".to_string(),
        Err(e) => {
            let d = format!("{e:?}");
            d[..d.find(|c: char| !(c.is_alphanumeric() || c == '_')).unwrap_or(d.len())].to_string()
        }
    };
    json!({"r": "ok", "res": res, "items": items})
}

pub fn run(case: &Value) -> Value {
    let mut out = match case["op"].as_str().unwrap_or("e2e") {
        "unit" => run_unit(case),
        _ => run_e2e(case),
    };
    out["id"] = case["id"].clone();
    out
}
