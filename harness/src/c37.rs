//! C37: revocation evidence is bound to the signing certificate.
//!
//! Stapled route: the scripted signer of C36 (`c36::ScriptedSigner`) returns the prepared OCSP response from
//! `Signer::ocsp_val`, optionally together with a time-stamp token (which fixes the signing time the response is
//! judged at).  Asserted route: manifest A is signed first; manifest B takes A as its parent ingredient with
//! `builder.certificate_status_fetch = "all"` and a Context whose HTTP resolver answers the OCSP request of A's
//! signing certificate (AIA URL) with the prepared response, so that B carries a c2pa.certificate-status assertion.
//! Reading never fetches: `verify.ocsp_fetch = false` and a recording resolver; any request is reported.
//!
//! case: C36 fields (cred, anchors, claim_v, token, ocsp, override) +
//!       read_serve: hex | null (fetch route at read time), url,
//!       assert: null | { serve: hex, cred2: {chain,key,alg} | null, token2, ocsp2: hex | null, build_override: bool }
//! out:  C36 report + { requests:[..], build_requests:[..] }
use std::io::Cursor;

use c2pa::Builder;
use serde_json::{json, Value};

use crate::{c28::RecordingResolver, c36, e2e, util::*};

/// Answers every GET below `prefix` with `body` (the OCSP responder of the build step); records all requests.
#[derive(Clone, Default)]
struct Responder {
    inner: RecordingResolver,
}

fn requests(r: &RecordingResolver) -> Vec<String> {
    r.log.lock().map(|g| g.iter().map(|(m, u)| format!("{m} {}", u.chars().take(60).collect::<String>())).collect()).unwrap_or_default()
}

/// Reading context: the resolver records every request; it answers 404 unless the case asks for the fetch route
/// (`read_serve`: hex response served below `url`; the case then also switches `verify.ocsp_fetch` on via `read_settings`).
fn read_ctx(case: &Value, rec: &RecordingResolver) -> c2pa::Context {
    let mut inner = rec.clone();
    if let Some(h) = case["read_serve"].as_str() {
        inner.serve_url = Some(case["url"].as_str().unwrap_or("http://ocsp.verif.invalid/").to_string());
        inner.body = std::sync::Arc::new(hex::decode(h).expect("read_serve hex"));
    }
    e2e::context(Some(&c36::settings_doc(case, false))).with_resolver(Responder { inner })
}

mod serve {
    use std::io::{Cursor, Read};

    use c2pa::http::{
        http::{Request, Response},
        HttpResolverError, SyncHttpResolver,
    };

    use super::Responder;

    impl SyncHttpResolver for Responder {
        fn http_resolve(&self, request: Request<Vec<u8>>) -> Result<Response<Box<dyn Read>>, HttpResolverError> {
            let url = request.uri().to_string();
            self.inner.log.lock().unwrap().push((request.method().to_string(), url.clone()));
            let hit = self.inner.serve_url.as_ref().map(|p| url.starts_with(p.as_str())).unwrap_or(false);
            let (status, body): (u16, Vec<u8>) = if hit { (200, self.inner.body.as_ref().clone()) } else { (404, vec![]) };
            let len = body.len();
            let b: Box<dyn Read> = Box::new(Cursor::new(body));
            Response::builder().status(status).header("content-length", len.to_string()).body(b).map_err(HttpResolverError::Http)
        }
    }
}

fn asserted(case: &Value) -> Value {
    let a = &case["assert"];
    // manifest A
    let (fmt, signed_a, seen_a) = match c36::sign_asset(case, "c37-A") {
        Ok(x) => x,
        Err(e) => return e,
    };
    // manifest B: parent ingredient A; the builder fetches A's certificate status through the resolver
    let mut case_b = case.clone();
    if a["cred2"].is_object() {
        case_b["cred"] = a["cred2"].clone();
    }
    case_b["token"] = a["token2"].clone();
    case_b["ocsp"] = a["ocsp2"].clone();
    let mut sdoc: Value = serde_json::from_str(&c36::settings_doc(&case_b, true)).expect("settings");
    sdoc["builder"] = json!({"certificate_status_fetch": a["fetch_scope"].as_str().unwrap_or("all"),
                             "certificate_status_should_override": a["build_override"].as_bool().unwrap_or(true)});
    let responder = Responder {
        inner: RecordingResolver {
            log: Default::default(),
            serve_url: Some(a["url"].as_str().unwrap_or("http://ocsp.verif.invalid/").to_string()),
            body: std::sync::Arc::new(a["serve"].as_str().map(|h| hex::decode(h).expect("serve hex")).unwrap_or_default()),
        },
    };
    let ctx_b = e2e::context(Some(&sdoc.to_string())).with_resolver(responder.clone());
    let signer_b = match c36::signer_of(&case_b) {
        Ok(s) => s,
        Err(e) => return e,
    };
    let def_b = json!({"title": "c37-B", "claim_generator_info": [{"name": "verif-harness", "version": "0.1"}], "assertions": []});
    let built = (|| -> c2pa::Result<Vec<u8>> {
        let mut b = Builder::from_context(ctx_b).with_definition(def_b.to_string())?;
        let mut s = Cursor::new(signed_a.clone());
        b.add_ingredient_from_stream(json!({"title": "A", "relationship": "parentOf"}).to_string(), &fmt, &mut s)?;
        let mut input = Cursor::new(signed_a.clone());
        let mut out = Cursor::new(Vec::new());
        b.sign(&signer_b, &fmt, &mut input, &mut out)?;
        Ok(out.into_inner())
    })();
    let build_requests = requests(&responder.inner);
    let signed_b = match built {
        Ok(b) => b,
        Err(e) => {
            return json!({"r": "err", "stage": "sign-b", "kind": err_class(&e), "detail": e.to_string().chars().take(200).collect::<String>(),
                          "build_requests": build_requests})
        }
    };
    if let Some(p) = case["dump"].as_str() {
        let _ = std::fs::write(p, &signed_b);
    }
    let rec = RecordingResolver::default();
    let mut rep = c36::read_report(case, read_ctx(case, &rec), &fmt, &signed_b);
    rep["requests"] = json!(requests(&rec));
    rep["build_requests"] = json!(build_requests);
    rep["seen"] = json!(seen_a);
    // did B get a certificate-status assertion?
    rep["has_status_assertion"] = json!(String::from_utf8_lossy(&signed_b).contains("c2pa.certificate-status"));
    // A alone, for reference (what the asserted evidence is supposed to change)
    let rec_a = RecordingResolver::default();
    let rep_a = c36::read_report(case, read_ctx(case, &rec_a), &fmt, &signed_a);
    rep["a_alone"] = json!({"r": rep_a["r"], "state": rep_a["state"], "failure": rep_a["failure"], "informational": rep_a["informational"], "kind": rep_a["kind"]});
    rep
}

pub fn run(case: &Value) -> Value {
    if case["assert"].is_object() {
        return asserted(case);
    }
    let (fmt, signed, seen) = match c36::sign_asset(case, "c37") {
        Ok(x) => x,
        Err(e) => return e,
    };
    let rec = RecordingResolver::default();
    let mut rep = c36::read_report(case, read_ctx(case, &rec), &fmt, &signed);
    rep["seen"] = json!(seen);
    rep["requests"] = json!(requests(&rec));
    rep
}
