//! C19: ingredient-graph walks on crafted manifest stores.
//!
//! A case describes a graph: `nodes[i] = {"u": update?, "h": hash-binding assertion?, "ings": [[target, has_manifest, rel, hash_ok?], ...]}`
//! (`rel`: 0 componentOf, 1 parentOf, 2 inputTo; targets `>= nodes.len()` are labels of manifests that are not in the store).
//!
//! modes:
//!   "walk"  — unsigned in-memory `Store` (claims inserted with `insert_restored_claim`), runs
//!             `get_claim_referenced_manifests` (through the hook) and `get_hash_binding_manifest` from `root`;
//!             reports result class, cyclic path, collected manifest map, reference map, log (code, label), binding, µs.
//!   "jumbf" — the same unsigned store serialised with `to_jumbf_internal` and read back with
//!             `Reader::with_stream("application/c2pa")` (used by the stack probe: nothing is signed, the walks run before
//!             any signature check).
//!   "e2e"   — every manifest signed (ed25519 fixture), targets hashed where `hash_ok`, root embedded last in a JPEG;
//!             read with `Reader` (state, codes) and with `Store::from_stream` (log of `ingredient_checks`).
use std::collections::HashMap;
use std::io::Cursor;
use std::time::Instant;

use c2pa::status_tracker::{ErrorBehavior, LogKind, StatusTracker};
use c2pa::verif_hooks::c19::*;
use c2pa::{ClaimGeneratorInfo, Context, DigitalSourceType, HashedUri, Reader, Relationship, ValidationResults};
use serde_json::{json, Value};

use crate::e2e;
use crate::util::*;

struct Node {
    update: bool,
    hashbind: bool,
    ings: Vec<(usize, bool, u64, bool)>,
}

fn parse_nodes(case: &Value) -> Vec<Node> {
    case["nodes"]
        .as_array()
        .expect("nodes")
        .iter()
        .map(|n| Node {
            update: n["u"].as_u64().unwrap_or(0) != 0,
            hashbind: n["h"].as_u64().unwrap_or(0) != 0,
            ings: n["ings"]
                .as_array()
                .expect("ings")
                .iter()
                .map(|r| {
                    (
                        r[0].as_u64().expect("tgt") as usize,
                        r[1].as_u64().unwrap_or(1) != 0,
                        r[2].as_u64().unwrap_or(0),
                        r.get(3).and_then(|x| x.as_u64()).unwrap_or(1) != 0,
                    )
                })
                .collect(),
        })
        .collect()
}

fn rel_of(r: u64) -> Relationship {
    match r {
        1 => Relationship::ParentOf,
        2 => Relationship::InputTo,
        _ => Relationship::ComponentOf,
    }
}

struct Names {
    labels: Vec<String>,
    index: HashMap<String, usize>,
}

impl Names {
    fn label(&self, i: usize) -> String {
        if i < self.labels.len() {
            self.labels[i].clone()
        } else {
            format!("verif:urn:c2pa:00000000-0000-4000-8000-{:012x}", i)
        }
    }
    /// index of a node label (missing labels map back to their index too)
    fn idx(&self, l: &str) -> Value {
        if let Some(i) = self.index.get(l) {
            return json!(i);
        }
        if let Some(h) = l.strip_prefix("verif:urn:c2pa:00000000-0000-4000-8000-") {
            if let Ok(i) = usize::from_str_radix(h, 16) {
                return json!(i);
            }
        }
        json!(l)
    }
    /// canonical form of a log label: a bare manifest label -> index; an assertion URI -> [src, assertion label]
    fn canon(&self, l: &str) -> Value {
        if let Some(rest) = l.strip_prefix("self#jumbf=/c2pa/") {
            let mut it = rest.splitn(2, '/');
            let m = it.next().unwrap_or("");
            let tail = it.next().unwrap_or("");
            let a = tail.strip_prefix("c2pa.assertions/").unwrap_or(tail);
            return json!([self.idx(m), a]);
        }
        self.idx(l)
    }
}

/// unsigned claims (v2 ingredient assertions with an all-zero hash), inserted in index order, root inserted last
fn craft_unsigned(nodes: &[Node], root: usize) -> (Store, Names) {
    let mut claims: Vec<Claim> = (0..nodes.len()).map(|_| Claim::new("verif-harness", Some("verif"), 2)).collect();
    let labels: Vec<String> = claims.iter().map(|c| c.label().to_owned()).collect();
    let index = labels.iter().cloned().enumerate().map(|(i, l)| (l, i)).collect();
    let names = Names { labels, index };
    for (i, n) in nodes.iter().enumerate() {
        let c = &mut claims[i];
        c.add_claim_generator_info(ClaimGeneratorInfo::new("verif"));
        if n.update {
            set_update_manifest(c, true);
        }
        if n.hashbind {
            let mut dh = DataHash::new("jumbf manifest", "sha256");
            dh.set_hash(vec![0u8; 32]);
            c.add_assertion(&dh).expect("data hash");
        }
        for (t, has_manifest, rel, _) in &n.ings {
            let uri = if *has_manifest {
                Some(HashedUri::new(to_manifest_uri(&names.label(*t)), Some("sha256".to_string()), &[0u8; 32]))
            } else {
                None
            };
            add_ingredient_v2(c, rel_of(*rel), uri).expect("ingredient assertion");
        }
    }
    let mut store = Store::new();
    let mut slots: Vec<Option<Claim>> = claims.into_iter().map(Some).collect();
    for i in (0..nodes.len()).filter(|i| *i != root).chain(std::iter::once(root)) {
        let c = slots[i].take().expect("claim");
        insert_restored_claim(&mut store, names.label(i), c);
    }
    (store, names)
}

fn log_json(log: &StatusTracker, names: &Names, only_fn: Option<&[&str]>) -> Vec<Value> {
    log.logged_items()
        .iter()
        .filter(|i| only_fn.map(|f| f.contains(&i.function.as_ref())).unwrap_or(true))
        .map(|i| {
            let k = match i.kind {
                LogKind::Success => "s",
                LogKind::Informational => "i",
                LogKind::Failure => "f",
            };
            json!([k, i.validation_status.as_deref().unwrap_or(""), names.canon(i.label.as_ref())])
        })
        .collect()
}

fn walk(case: &Value) -> Value {
    let nodes = parse_nodes(case);
    let root = case["root"].as_u64().unwrap_or(0) as usize;
    let stop = case["stop"].as_u64().unwrap_or(0) != 0;
    let (store, names) = craft_unsigned(&nodes, root);
    let claim = store.get_claim(&names.label(root)).expect("root claim");
    let mut log = StatusTracker::with_error_behavior(if stop { ErrorBehavior::StopOnFirstError } else { ErrorBehavior::ContinueWhenPossible });
    let t0 = Instant::now();
    let (r, map, refs) = store.verif_c19_referenced(claim, &mut log);
    let us_ref = t0.elapsed().as_micros() as u64;
    let t1 = Instant::now();
    let binding = store.verif_c19_hash_binding_manifest(claim);
    let us_bind = t1.elapsed().as_micros() as u64;
    let mut map: Vec<Value> = map.iter().map(|l| names.idx(l)).collect();
    map.sort_by_key(|v| v.as_u64().unwrap_or(u64::MAX));
    let mut refs: Vec<(u64, Vec<u64>)> = refs
        .iter()
        .map(|(k, v)| {
            let mut s: Vec<u64> = v.iter().map(|l| names.idx(l).as_u64().unwrap_or(u64::MAX)).collect();
            s.sort();
            (names.idx(k).as_u64().unwrap_or(u64::MAX), s)
        })
        .collect();
    refs.sort();
    let (rc, detail) = match &r {
        Ok(()) => ("ok".to_string(), Value::Null),
        Err(c2pa::Error::CyclicIngredients { claim_label_path }) => (
            "CyclicIngredients".to_string(),
            Value::Array(claim_label_path.iter().map(|l| names.idx(l)).collect()),
        ),
        Err(c2pa::Error::ClaimMissing { label }) => ("ClaimMissing".to_string(), names.idx(label)),
        Err(e) => (err_class(e), json!(format!("{e}"))),
    };
    json!({"r": rc, "detail": detail, "map": map, "refs": refs, "log": log_json(&log, &names, None),
           "binding": binding.map(|l| names.idx(&l)), "us_ref": us_ref, "us_bind": us_bind})
}

fn jumbf(case: &Value) -> Value {
    let nodes = parse_nodes(case);
    let root = case["root"].as_u64().unwrap_or(0) as usize;
    let (store, _names) = craft_unsigned(&nodes, root);
    let bytes = to_jumbf(&store, 0).expect("jumbf");
    let len = bytes.len();
    let t0 = Instant::now();
    let r = Reader::from_context(Context::new()).with_stream("application/c2pa", Cursor::new(bytes));
    let us = t0.elapsed().as_micros() as u64;
    match r {
        Ok(reader) => json!({"r": "ok", "state": format!("{:?}", reader.validation_state()), "len": len, "us": us}),
        Err(e) => json!({"r": "err", "kind": err_class(&e), "len": len, "us": us}),
    }
}

pub fn run(case: &Value) -> Value {
    match case["mode"].as_str().unwrap_or("walk") {
        "walk" => walk(case),
        "jumbf" => jumbf(case),
        "e2e" => e2e_case(case),
        m => json!({"r": "bad-mode", "mode": m}),
    }
}

// ------------------------------------------------------------------------------------------------ signed stores

/// Builds the store manifest by manifest in `order` (root last): v3 ingredient assertions carrying the real manifest /
/// signature box hashes of already built targets where `hash_ok`, a created action plus one edited action per
/// ingredient (the recipe of the SDK's own shared-ingredient test), each manifest signed with the ed25519 fixture
/// by `Store::save_to_stream` into the JPEG fixture.  Returns the final asset and the label table.
fn craft_signed(nodes: &[Node], order: &[usize]) -> c2pa::Result<(Vec<u8>, Names)> {
    let signer = e2e::signer("ed25519");
    let bctx = e2e::context(Some(r#"{"verify": {"verify_after_sign": false, "verify_after_reading": false}}"#));
    let jpeg = e2e::fixture("IMG_0003.jpg");
    let mut claims: Vec<Option<Claim>> = (0..nodes.len()).map(|_| Some(Claim::new("verif-harness", Some("verif"), 2))).collect();
    let labels: Vec<String> = claims.iter().map(|c| c.as_ref().expect("claim").label().to_owned()).collect();
    let index = labels.iter().cloned().enumerate().map(|(i, l)| (l, i)).collect();
    let names = Names { labels, index };
    let mut store = Store::from_context(&bctx);
    let mut asset = Vec::new();
    for &idx in order {
        let n = &nodes[idx];
        let mut claim = claims[idx].take().expect("each manifest is built once");
        claim.add_claim_generator_info(ClaimGeneratorInfo::new("verif"));
        if n.update {
            set_update_manifest(&mut claim, true);
        }
        for (t, has_manifest, rel, hash_ok) in &n.ings {
            let tl = names.label(*t);
            let (mh, sh) = if *hash_ok {
                let tc = store.get_claim(&tl).expect("hash_ok target must be built before its referrer");
                manifest_box_hashes(&store, tc)
            } else {
                (vec![0u8; 32], vec![0u8; 32])
            };
            let sig = HashedUri::new(to_signature_uri(&tl), Some("sha256".to_string()), &sh);
            if *has_manifest {
                let active = HashedUri::new(to_manifest_uri(&tl), Some("sha256".to_string()), &mh);
                add_ingredient_v3(&mut claim, rel_of(*rel), Some(active), Some(sig), Some(ValidationResults::default()))?;
            } else {
                add_ingredient_v2(&mut claim, rel_of(*rel), None)?;
            }
        }
        let mut actions = Actions::new().add_action(Action::new("c2pa.created").set_source_type(DigitalSourceType::Empty));
        let mut uris = Vec::new();
        for ia in claim.ingredient_assertions() {
            uris.push(HashedUri::new(to_assertion_uri(claim.label(), &ia.label()), Some(claim.alg().to_owned()), ia.hash()));
        }
        for u in uris {
            actions = actions.add_action(Action::new("c2pa.edited").set_parameter("ingredients", vec![u])?);
        }
        claim.add_assertion(&actions)?;
        store.commit_claim(claim)?;
        asset = save_to_stream(&mut store, "image/jpeg", &jpeg, signer.as_ref(), &bctx)?;
    }
    Ok((asset, names))
}

fn e2e_case(case: &Value) -> Value {
    let nodes = parse_nodes(case);
    let order: Vec<usize> = case["order"].as_array().expect("order").iter().map(|v| v.as_u64().expect("idx") as usize).collect();
    let t0 = Instant::now();
    let (asset, names) = match craft_signed(&nodes, &order) {
        Ok(x) => x,
        Err(e) => return json!({"r": "craft-failed", "kind": err_class(&e), "detail": format!("{e}")}),
    };
    let us_craft = t0.elapsed().as_micros() as u64;
    // 1. the public reader (what an application sees)
    let t1 = Instant::now();
    let read = e2e::read(e2e::context(None), "image/jpeg", &asset);
    let us_read = t1.elapsed().as_micros() as u64;
    let reader = match &read {
        Ok(r) => json!({"r": "ok", "report": e2e::report(r)}),
        Err(e) => json!({"r": "err", "kind": err_class(e)}),
    };
    // 2. the same read through Store::from_stream with our own tracker: the ordered log of the ingredient walks
    let mut log = StatusTracker::default();
    let t2 = Instant::now();
    let sr = store_from_stream("image/jpeg", &asset, &mut log, &e2e::context(None));
    let us_store = t2.elapsed().as_micros() as u64;
    let (src, detail) = match &sr {
        Ok(_) => ("ok".to_string(), Value::Null),
        Err(c2pa::Error::CyclicIngredients { claim_label_path }) => (
            "CyclicIngredients".to_string(),
            Value::Array(claim_label_path.iter().map(|l| names.idx(l)).collect()),
        ),
        Err(e) => (err_class(e), json!(format!("{e}"))),
    };
    let walks = log_json(&log, &names, Some(&["ingredient_checks", "get_claim_referenced_manifests"]));
    let failures: Vec<Value> = log
        .logged_items()
        .iter()
        .filter(|i| matches!(i.kind, LogKind::Failure))
        .map(|i| json!([i.validation_status.as_deref().unwrap_or(""), i.function.as_ref()]))
        .collect();
    let nsig = log.logged_items().iter().filter(|i| i.validation_status.as_deref() == Some("claimSignature.validated")).count();
    json!({"r": "done", "len": asset.len(), "reader": reader, "nsig": nsig, "store": src, "detail": detail, "walks": walks, "failures": failures,
           "us_craft": us_craft, "us_read": us_read, "us_store": us_store})
}
