(* Properties/C12.v — Hash-binding layout maps are ordered, disjoint and cover the file.
   Statements only; every theorem is closed by [exact] of a lemma in Proofs/.

   PNG: the model (Model/BoxMap.v) is byte level — get_png_chunk_positions, PngIO::get_box_map and
   PngIO::get_object_locations_from_stream on an arbitrary byte string — so the PNG theorems quantify over
   every input file.
   JPEG: the model (Model/BoxMapJpeg.v) takes the file as FF D8 ++ concat (map enc_seg segs) ++ trailer; the
   external segment reader (jfifdump) is represented by its specification [jfif_segments], the handler's own
   code (naming, C2PA run, placeholder, sizes re-read from the bytes) is transcribed.

   Layout predicates (Proofs/BoxMapProofs.v):
     sorted_map m    — range_start is non-decreasing along the list
     disjoint_map m  — every earlier entry ends at or before the start of every later entry
     in_file n m     — every entry ends at or before offset n
     cover_count i m — number of entries whose range contains byte i  (1 = covered exactly once)
   The theorems show that *all* entries, the C2PA entry included, tile the mapped span; so every byte outside the
   C2PA entry is in exactly one non-C2PA entry.

   Known classes where the property fails on the real code (each with a witness below, replayed on the
   implementation by ./check):
     trailing  — bytes after the last parsed structure (after PNG IEND, JPEG EOI, …) belong to no entry
     gap       — JPEG bytes the segment reader skips between segments (fill bytes, short APP11, JPGn payload)
     RST       — JPEG restart markers get their own entries although the SOS entry already spans them
     split run — a C2PA APP11 run interrupted by another segment is still summed into one entry *)
From Coq Require Import List NArith Bool Lia.
From C2PA Require Import Base.Bytes Generated.C12_facts Model.BoxMap Model.BoxMapJpeg
     Proofs.BoxMapProofs Proofs.BoxMapJpegProofs Proofs.BoxMapJpegTiling.
Import ListNotations.
Open Scope N_scope.

(* ---------------------------------------------------------------- PNG, every byte string *)

Theorem c12_png_sorted : forall b m, png_box_map b = Ok m -> sorted_map m.
Proof. exact png_sorted. Qed.

Theorem c12_png_disjoint : forall b m, png_box_map b = Ok m -> disjoint_map m.
Proof. exact png_disjoint. Qed.

Theorem c12_png_in_file : forall b m, png_box_map b = Ok m -> in_file (len b) m.
Proof. exact png_in_file. Qed.

(* the entries tile [0, span_end m): every byte up to the end of the last chunk read is in exactly one entry,
   every byte after it in none *)
Theorem c12_png_cover :
  forall b m, png_box_map b = Ok m ->
    span_end m <= len b
    /\ (forall i, i < span_end m -> cover_count i m = 1%nat)
    /\ (forall i, span_end m <= i -> cover_count i m = 0%nat).
Proof. exact png_cover. Qed.

(* outside the known class [trailing] the whole file is covered exactly once *)
Theorem c12_png_cover_full :
  forall b m, png_box_map b = Ok m -> ~ trailing (len b) m -> forall i, i < len b -> cover_count i m = 1%nat.
Proof. exact png_cover_full. Qed.

(* the file as signature ++ encoded chunks ++ trailer (well-formed chunks, IEND last and only last):
   the map ends exactly where the trailer begins, so the class [trailing] is precisely "bytes after IEND" *)
Theorem c12_png_trailing_is_trailer :
  forall cs tr m, Forall wf_pchunk cs -> iend_last cs ->
    png_box_map (png_file cs tr) = Ok m ->
    span_end m + len tr = len (png_file cs tr) /\ (trailing (len (png_file cs tr)) m <-> tr <> []).
Proof. exact png_file_span. Qed.

Theorem c12_png_trailing_refuted :
  exists b m, png_box_map b = Ok m /\ trailing (len b) m /\ exists i, i < len b /\ cover_count i m = 0%nat.
Proof. exact png_trailing_refuted. Qed.

(* data-hash object locations: [Cai; Other before; Other after] tile [0, total), total = file length (plus the
   12-byte placeholder chunk when the file has no manifest): the manifest region is inside and disjoint from the rest *)
Theorem c12_png_cai_location :
  forall b ls, png_locations b = Ok ls ->
    exists ps o l r,
      png_positions b = Ok ps
      /\ ls = [L o l Cai; L 0 o Other; L (o + l) r Other]
      /\ o + l + r = (if existsb is_cai ps then len b else len b + PNG_HDR_LEN)
      /\ PNG_HDR_LEN <= l /\ 8 <= o.
Proof. exact png_locations_spec. Qed.

Theorem c12_png_locations_no_panic : forall b, png_locations b <> Panic.
Proof. exact png_locations_no_panic. Qed.

(* ---------------------------------------------------------------- JPEG *)

(* plain segments, at most one contiguous C2PA run, plain segments; no fill bytes, no RSTn, no trailer,
   not ending in SOS: ordered, disjoint, inside the file, every byte covered exactly once *)
Theorem c12_jpeg_layout :
  forall A R B m,
    forallb plain_seg A = true -> c2pa_run R = true -> forallb plain_seg B = true ->
    no_final_sos (A ++ R ++ B) = true ->
    jpeg_box_map (A ++ R ++ B) [] = Ok m ->
    let n := len (jpeg_file (A ++ R ++ B) []) in
    sorted_map m /\ disjoint_map m /\ in_file n m /\ (forall i, i < n -> cover_count i m = 1%nat).
Proof. exact jpeg_clean_layout. Qed.

Theorem c12_jpeg_tiling :
  forall A R B m,
    forallb plain_seg A = true -> c2pa_run R = true -> forallb plain_seg B = true ->
    no_final_sos (A ++ R ++ B) = true ->
    jpeg_box_map (A ++ R ++ B) [] = Ok m ->
    chain 0 m = Some (len (jpeg_file (A ++ R ++ B) [])).
Proof. exact jpeg_clean_tiling. Qed.

Theorem c12_jpeg_trailing_refuted :
  exists segs tr m, jwf segs tr = true /\ jpeg_box_map segs tr = Ok m
    /\ trailing (len (jpeg_file segs tr)) m
    /\ exists i, i < len (jpeg_file segs tr) /\ cover_count i m = 0%nat.
Proof. exact jpeg_trailing_refuted. Qed.

Theorem c12_jpeg_gap_refuted :
  exists segs m, jwf segs [] = true /\ jpeg_box_map segs [] = Ok m
    /\ ~ trailing (len (jpeg_file segs [])) m
    /\ exists i, i < len (jpeg_file segs []) /\ cover_count i m = 0%nat.
Proof. exact jpeg_gap_refuted. Qed.

Theorem c12_jpeg_rst_overlap_refuted :
  exists segs m, jwf segs [] = true /\ jpeg_box_map segs [] = Ok m /\ exists i, cover_count i m = 2%nat.
Proof. exact jpeg_rst_overlap_refuted. Qed.

Theorem c12_jpeg_split_run_refuted :
  exists segs m, jwf segs [] = true /\ jpeg_box_map segs [] = Ok m /\ exists i, cover_count i m = 2%nat.
Proof. exact jpeg_split_run_refuted. Qed.

(* non-vacuity: the hypotheses of c12_jpeg_layout hold for a signed-shaped and an unsigned file whose maps are returned *)
Example c12_example :
  forallb plain_seg ex_A = true /\ c2pa_run ex_R = true /\ forallb plain_seg ex_B = true
  /\ no_final_sos (ex_A ++ ex_R ++ ex_B) = true
  /\ (exists m, jpeg_box_map (ex_A ++ ex_R ++ ex_B) [] = Ok m /\ length m = 9%nat)
  /\ (exists m, jpeg_box_map (ex_A ++ [] ++ ex_B) [] = Ok m /\ length m = 9%nat).
Proof. exact jpeg_clean_example. Qed.
