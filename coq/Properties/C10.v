(* Properties/C10.v — Untrusted input never crashes, hangs or exhausts memory.
   Statements only; every theorem is closed by [exact] of a lemma in Proofs/.

   Scope (partial by nature): three untrusted-input parsers are modelled over machine integers with the outcomes
   Ok / Err / Panic (debug overflow, slice index, unwrap) / OutOfFuel (non-termination) and an allocation counter:
     Model/C10Jumbf.v  BoxReader::read_header / read_desc_box / content boxes / read_super_box_impl   (jumbf/boxes.rs)
     Model/C10Png.v    get_png_chunk_positions + get_cai_data                                         (png_io.rs)
     Model/C10Bmff.v   BoxHeaderLite::read, read_ftyp_box, build_bmff_tree, BMFFArena::from_stream     (bmff_io.rs)
   [buf] ranges over all byte strings ([len buf <= U64MAX]: a stream length is a u64).  Everything else
   (CBOR/COSE/X.509, brotli, ID3, XML, TIFF, the stack and the allocator) is reached only by the mutational run of
   ./check C10, which is exploration, not proof.

   Findings mirrored here: the JUMBF reader as coded ([strict = false], [cadd = false]) hangs on a known class
   of tails and, in a debug build, panics on `start_pos + jumb_header.size`. *)
From Coq Require Import List NArith Bool Lia.
From C2PA Require Import Base.Bytes Generated.C10_facts Model.C10Mach Model.C10Jumbf Model.C10Png Model.C10Bmff
     Proofs.C10JumbfProofs Proofs.C10JumbfLoop Proofs.C10PngProofs Proofs.C10BmffProofs Proofs.C10Summary.
Import ListNotations.
Open Scope N_scope.

(* ------------------------------------------------------------------ JUMBF box reader *)

(* FINDING (hang): totality is false of the reader as coded — a 41-byte input on which no amount of fuel suffices,
   in debug and release, with or without a checked dest_pos. *)
Theorem c10_jumbf_total_refuted :
  exists buf, known_short_tail buf /\ forall cadd dbg fuel, jread_super_box false cadd dbg fuel buf = OutOfFuel.
Proof. exact jumbf_total_refuted. Qed.

(* FINDING (debug panic): outside the hang class, a 59-byte input makes `start_pos + jumb_header.size` overflow. *)
Theorem c10_jumbf_no_panic_refuted :
  exists buf, ~ known_short_tail buf /\
              jread_super_box false false true (jfuel buf) buf = Panic SITE_DEST_POS 43 U64MAX.
Proof. exact jumbf_no_panic_refuted. Qed.

(* The strongest true statement for the reader as coded (any [strict], [cadd], [dbg]): outside the known class
   [len + 2] units of fuel are enough and the outcome is Ok or Err; the only possible panic is the unchecked
   dest_pos addition of a debug build, with start_pos + size above u64::MAX. *)
Theorem c10_jumbf_total :
  forall strict cadd dbg buf,
    len buf <= U64MAX -> ~ known_short_tail buf ->
    match jread_super_box strict cadd dbg (jfuel buf) buf with
    | Ok _ => True
    | Err _ => True
    | Panic s x y => cadd = false /\ dbg = true /\ s = SITE_DEST_POS /\ x <= len buf /\ U64MAX < x + y
    | OutOfFuel => False
    end.
Proof. exact jumbf_total. Qed.

(* release builds (wrapping arithmetic): never a panic outside the known class *)
Theorem c10_jumbf_total_release :
  forall strict cadd buf,
    len buf <= U64MAX -> ~ known_short_tail buf ->
    is_result (jread_super_box strict cadd false (jfuel buf) buf).
Proof. exact jumbf_release_total. Qed.

(* with the two proposed repairs (header read filled or rejected; dest_pos by checked_add) the reader is total
   on EVERY byte string, in debug and release: the repairs are sufficient *)
Theorem c10_jumbf_total_repaired :
  forall dbg buf, len buf <= U64MAX -> is_result (jread_super_box true true dbg (jfuel buf) buf).
Proof. exact jumbf_repaired_total. Qed.

(* allocation: 8 bytes of input per box and one per retained content byte — linear in the input *)
Theorem c10_jumbf_alloc :
  forall strict cadd dbg buf p b a d,
    len buf <= U64MAX -> ~ known_short_tail buf ->
    jread_super_box strict cadd dbg (jfuel buf) buf = Ok (p, b, a, d) ->
    8 * b + a <= len buf /\ p <= len buf.
Proof. exact jumbf_alloc. Qed.

(* depth: no superbox deeper than MAX_JUMB_DEPTH - 1 is ever entered, and the check precedes every read *)
Theorem c10_jumbf_depth :
  forall strict cadd dbg buf p b a d,
    len buf <= U64MAX -> ~ known_short_tail buf ->
    jread_super_box strict cadd dbg (jfuel buf) buf = Ok (p, b, a, d) -> d < MAX_JUMB_DEPTH.
Proof. exact jumbf_depth. Qed.

Theorem c10_jumbf_depth_refused :
  forall strict cadd dbg depth buf pos,
    MAX_JUMB_DEPTH <= depth -> jsuper_head strict cadd dbg depth buf pos = Err EBoxNestingTooDeep.
Proof. exact too_deep. Qed.

(* ------------------------------------------------------------------ PNG chunk walker *)

Theorem c10_png_total :
  forall dbg buf, len buf <= U64MAX -> is_result (png_read dbg buf).
Proof. exact png_total. Qed.

(* 12 bytes of input per chunk entry; get_cai_data allocates at most the input length, never panics *)
Theorem c10_png_alloc :
  forall dbg buf n p c,
    len buf <= U64MAX -> png_read dbg buf = Ok (n, p, c) ->
    8 + 12 * n <= len buf /\ is_result c /\ (forall l, c = Ok l -> l <= len buf).
Proof. exact png_alloc. Qed.

(* ------------------------------------------------------------------ BMFF header reader and tree builder *)

Theorem c10_bmff_total :
  forall dbg buf, len buf <= U64MAX -> is_result (bmff_read dbg buf).
Proof. exact bmff_total. Qed.

(* at most one arena node per input byte, four bytes per compatible brand, recursion within MAX_BOX_DEPTH *)
Theorem c10_bmff_alloc_depth :
  forall dbg buf nodes deep brands,
    len buf <= U64MAX -> bmff_read dbg buf = Ok (nodes, deep, brands) ->
    len nodes <= len buf /\ 4 * brands <= len buf /\ deep <= MAX_BOX_DEPTH.
Proof. exact bmff_alloc_depth. Qed.

Theorem c10_bmff_depth_refused :
  forall dbg f rl buf pos e acc deep,
    MAX_BOX_DEPTH <= rl -> rl < U64MAX -> bt_call dbg (S f) rl buf pos e acc deep = Err BTooDeep.
Proof. exact bt_call_too_deep. Qed.

(* ------------------------------------------------------------------ the models compute non-trivial cases *)

Example c10_models_run :
  jread_super_box false false true (jfuel jumbf_example) jumbf_example = Ok (89, 4, 3, 1)
  /\ ~ known_short_tail jumbf_example
  /\ png_read true png_example = Ok (3, 48, Ok 3)
  /\ bmff_read true bmff_example = Ok ([(0, 16); (16, 16); (24, 8); (32, 11)], 2, 0).
Proof.
  split; [exact jumbf_example_runs|]. split; [unfold known_short_tail; rewrite jumbf_example_advancing; discriminate|].
  split; [exact png_example_runs|exact bmff_example_runs].
Qed.
