(* Properties/C10.v — Untrusted input never crashes, hangs or exhausts memory.
   Statements only; every theorem is closed by [exact] of a lemma in Proofs/.

   Scope (partial by nature): three untrusted-input parsers are modelled over machine integers with the outcomes
   Ok / Err / Panic (debug overflow, slice index, unwrap) / OutOfFuel (non-termination) and an allocation counter:
     Model/C10Jumbf.v  BoxReader::read_header / read_desc_box / content boxes / read_super_box_impl   (jumbf/boxes.rs)
     Model/C10Png.v    get_png_chunk_positions + get_cai_data                                         (png_io.rs)
     Model/C10Bmff.v   BoxHeaderLite::read, read_ftyp_box, build_bmff_tree, BMFFArena::from_stream     (bmff_io.rs)
   [buf] ranges over all byte strings ([len buf <= U64MAX]: a stream length is a u64).  Everything else
   (CBOR/COSE/X.509, brotli, ID3, XML, TIFF, the stack and the allocator) is reached only by the mutational run of
   ./check C10, which is exploration, not proof.

   The JUMBF reader had two defects (an endless loop on a class of 5..7-byte tails; a debug-build overflow panic on
   `start_pos + jumb_header.size`), repaired in the source by commit 7b268693b: the theorems below are about the
   repaired reader and hold for every byte string; the old behaviour is kept as explicit statements about the old
   function.  Still open and outside the proved part: build_bmff_tree costs quadratic time in the number of sibling
   boxes (the model counts iterations, not the cost of the arena append). *)
From Coq Require Import List NArith Bool Lia.
From C2PA Require Import Base.Bytes Generated.C10_facts Model.C10Mach Model.C10Jumbf Model.C10Png Model.C10Bmff
     Proofs.C10JumbfProofs Proofs.C10JumbfLoop Proofs.C10PngProofs Proofs.C10BmffProofs Proofs.C10Summary.
Import ListNotations.
Open Scope N_scope.

(* ------------------------------------------------------------------ JUMBF box reader *)

(* [jread_as_coded dbg buf] is the reader with the two flags regenerated from the source
   (SHORT_HEADER_IS_ERROR, DEST_POS_IS_CHECKED): since commit 7b268693b both are true. *)

(* totality: on EVERY byte string [len + 2] units of fuel are enough and the outcome is Ok or Err, in debug and
   release builds: no hang, no panic, no known class *)
Theorem c10_jumbf_total :
  forall dbg buf, len buf <= U64MAX -> is_result (jread_as_coded dbg buf).
Proof. exact jumbf_as_coded_total. Qed.

(* allocation: 8 bytes of input per box and one per retained content byte (linear in the input);
   depth: no superbox deeper than MAX_JUMB_DEPTH - 1 is ever entered *)
Theorem c10_jumbf_alloc_depth :
  forall dbg buf p b a d,
    len buf <= U64MAX -> jread_as_coded dbg buf = Ok (p, b, a, d) ->
    8 * b + a <= len buf /\ p <= len buf /\ d < MAX_JUMB_DEPTH.
Proof. exact jumbf_as_coded_bounds. Qed.

(* the depth check precedes every read *)
Theorem c10_jumbf_depth_refused :
  forall strict cadd dbg depth buf pos,
    MAX_JUMB_DEPTH <= depth -> jsuper_head strict cadd dbg depth buf pos = Err EBoxNestingTooDeep.
Proof. exact too_deep. Qed.

(* the same for the model with any setting of the two flags, e.g. a build with only one of the repairs *)
Theorem c10_jumbf_total_repaired :
  forall dbg buf, len buf <= U64MAX -> is_result (jread_super_box true true dbg (jfuel buf) buf).
Proof. exact jumbf_repaired_total. Qed.

(* --- history: the reader before 7b268693b ([strict = false], [cadd = false]); statements about the OLD function *)

(* FIXED finding C10-F-JUMBF-HANG: a 41-byte input on which no amount of fuel sufficed, debug and release *)
Theorem c10_jumbf_old_reader_hang :
  exists buf, known_short_tail buf /\ forall cadd dbg fuel, jread_super_box false cadd dbg fuel buf = OutOfFuel.
Proof. exact jumbf_total_refuted. Qed.

(* FIXED finding C10-F-DESTPOS-OVERFLOW: `start_pos + jumb_header.size` overflowed in a debug build (59 bytes) *)
Theorem c10_jumbf_old_reader_overflow :
  exists buf, ~ known_short_tail buf /\
              jread_super_box false false true (jfuel buf) buf = Panic SITE_DEST_POS 43 U64MAX.
Proof. exact jumbf_no_panic_refuted. Qed.

(* what was true of the old reader: total outside the short-tail class, the only panic being that addition *)
Theorem c10_jumbf_old_reader_total :
  forall strict cadd dbg buf,
    len buf <= U64MAX -> ~ known_short_tail buf ->
    match jread_super_box strict cadd dbg (jfuel buf) buf with
    | Ok _ => True
    | Err _ => True
    | Panic s x y => cadd = false /\ dbg = true /\ s = SITE_DEST_POS /\ x <= len buf /\ U64MAX < x + y
    | OutOfFuel => False
    end.
Proof. exact jumbf_total. Qed.

(* both old witnesses are ordinary errors for the reader as it stands *)
Theorem c10_jumbf_old_witnesses_rejected :
  forall dbg,
    jread_as_coded dbg hang_witness = Err EInvalidJumbfHeader /\
    jread_as_coded dbg overflow_witness = Err EInvalidJumbBox.
Proof. exact old_witnesses_rejected. Qed.

(* ------------------------------------------------------------------ PNG chunk walker *)

Theorem c10_png_total :
  forall dbg buf, len buf <= U64MAX -> is_result (png_read dbg buf).
Proof. exact png_total. Qed.

(* 12 bytes of input per chunk entry; get_cai_data allocates at most the input length, never panics *)
Theorem c10_png_alloc :
  forall dbg buf n p c,
    len buf <= U64MAX -> png_read dbg buf = Ok (n, p, c) ->
    8 + 12 * n <= len buf /\ is_result c /\ (forall l, c = Ok l -> l <= len buf).
Proof. exact png_alloc. Qed.

(* ------------------------------------------------------------------ BMFF header reader and tree builder *)

Theorem c10_bmff_total :
  forall dbg buf, len buf <= U64MAX -> is_result (bmff_read dbg buf).
Proof. exact bmff_total. Qed.

(* at most one arena node per input byte, four bytes per compatible brand, recursion within MAX_BOX_DEPTH *)
Theorem c10_bmff_alloc_depth :
  forall dbg buf nodes deep brands,
    len buf <= U64MAX -> bmff_read dbg buf = Ok (nodes, deep, brands) ->
    len nodes <= len buf /\ 4 * brands <= len buf /\ deep <= MAX_BOX_DEPTH.
Proof. exact bmff_alloc_depth. Qed.

Theorem c10_bmff_depth_refused :
  forall dbg f rl buf pos e acc deep,
    MAX_BOX_DEPTH <= rl -> rl < U64MAX -> bt_call dbg (S f) rl buf pos e acc deep = Err BTooDeep.
Proof. exact bt_call_too_deep. Qed.

(* ------------------------------------------------------------------ the models compute non-trivial cases *)

Example c10_models_run :
  jread_as_coded true jumbf_example = Ok (89, 4, 3, 1)
  /\ png_read true png_example = Ok (3, 48, Ok 3)
  /\ bmff_read true bmff_example = Ok ([(0, 16); (16, 16); (24, 8); (32, 11)], 2, 0).
Proof.
  split; [vm_compute; reflexivity|]. split; [exact png_example_runs|exact bmff_example_runs].
Qed.
