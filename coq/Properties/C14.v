(* Properties/C14.v — Reserved-size padding is exact; which reserves succeed.
   Statements only; every theorem is closed by [exact] of a lemma in Proofs/.

   Models: Model/PadCose.v (crypto/cose/sign.rs :: pad_cose_sig over a COSE_Sign1 abstracted to its
   CBOR size arithmetic, Base/Cbor.v) and Model/PadData.v (DataHash::pad_to_size).
   Constants PAD, PAD2, PAD_OFFSET, the literal 10, the serde keys and the divisor 2 come from
   Generated/C14_facts.v, rewritten from the source on every run.

   Reading guide.  [ser_size s] is `to_tagged_vec().len()` (None = serialisation error);
   [has_pad s = false] says the unprotected header has no "pad" entry yet, which is how the SDK
   calls the routine (sign_v1 / sign_v2_embedded build the header from sigTst/sigTst2/rVals only);
   [small_map s] says the unprotected map stays below 24 entries.  gap = reserve - unpadded size. *)
From Coq Require Import List NArith ZArith Bool Lia.
From C2PA Require Import Base.Bytes Base.Cbor Generated.C14_facts Model.PadCose Model.PadData
     Proofs.CborProofs Proofs.PadCoseProofs Proofs.PadDataProofs.
Import ListNotations.
Open Scope N_scope.

(* ---- COSE signature padding ------------------------------------------------------------- *)

(* Exactness, every input (pre-padded or not), every fuel: an Ok result is the serialisation of a
   structure of exactly the requested size that differs from the input in padding entries only. *)
Theorem c14_cose_exact :
  forall fuel s e s' n,
    pad_cose_sig fuel s e = POk s' n ->
    ser_size s' = Some n /\ (forall E, e = Some E -> n = E) /\ same_but_padding s s'.
Proof. exact pad_cose_exact. Qed.

(* Exact characterisation of the result for every reserve E, for a Sign1 of unpadded size c0:
   Ok unchanged when E = c0; BoxSizeTooSmall when E < c0 + 7; otherwise one "pad" entry of
   g = E - c0 - 7 bytes when head(g) + (growth of the map head) = 3, and BoxSizeTooSmall in every
   other case — the adjust loop and the second pad are unreachable (the recursive call re-applies
   the too-small test to the already padded structure). *)
Theorem c14_cose_char :
  forall f s c0 E,
    has_pad s = false -> ser_size s = Some c0 ->
    pad_cose_sig (S (S f)) s (Some E) = cose_spec s c0 E.
Proof. exact cose_char. Qed.

(* "any ample reserve succeeds", outside the known class F-PADCOSE (1 <= gap <= 262 or gap >= 65543) *)
Theorem c14_cose_ample_ok :
  forall s c0 E,
    has_pad s = false -> ser_size s = Some c0 -> small_map s ->
    c0 <= E -> ~ known_gap (E - c0) ->
    exists s', pad_cose_sig_top s (Some E) = POk s' E.
Proof. exact cose_ample_ok. Qed.

(* the known class is exact: inside it the routine always reports a size error *)
Theorem c14_cose_known_fails :
  forall s c0 E,
    has_pad s = false -> ser_size s = Some c0 -> small_map s ->
    c0 <= E -> known_gap (E - c0) ->
    pad_cose_sig_top s (Some E) = PErr BoxSizeTooSmall.
Proof. exact cose_known_fails. Qed.

(* a reserve below the unpadded size is refused *)
Theorem c14_cose_below_min_fails :
  forall s c0 E,
    has_pad s = false -> ser_size s = Some c0 -> E < c0 ->
    pad_cose_sig_top s (Some E) = PErr BoxSizeTooSmall.
Proof. exact cose_below_fails. Qed.

(* monotonicity holds outside the known class ... *)
Theorem c14_cose_monotone :
  forall s c0 E1 E2 s1,
    has_pad s = false -> ser_size s = Some c0 -> small_map s ->
    pad_cose_sig_top s (Some E1) = POk s1 E1 -> E1 <= E2 -> ~ known_gap (E2 - c0) ->
    exists s2, pad_cose_sig_top s (Some E2) = POk s2 E2.
Proof. exact cose_monotone_outside_known. Qed.

(* ... and is false as stated in the property: reserve = minimum succeeds, minimum + 1 fails,
   minimum + 263 succeeds, minimum + 65543 fails (witness sizes of the Ed25519 test signer; the
   same inputs are replayed on the implementation by ./check, corpus/C14.jsonl) *)
Theorem c14_cose_monotone_refuted :
  exists s c0 E1 E2 E3 E4 s1 s3,
    has_pad s = false /\ small_map s /\ ser_size s = Some c0 /\
    c0 <= E1 /\ E1 < E2 /\ E2 < E3 /\ E3 < E4 /\
    pad_cose_sig_top s (Some E1) = POk s1 E1 /\
    pad_cose_sig_top s (Some E2) = PErr BoxSizeTooSmall /\
    pad_cose_sig_top s (Some E3) = POk s3 E3 /\
    pad_cose_sig_top s (Some E4) = PErr BoxSizeTooSmall.
Proof. exact cose_monotone_refuted. Qed.

(* never a panic (the `last_pad - 10` underflow is unreachable) and never out of fuel, for every
   Sign1 without a "pad" entry and every reserve, including None *)
Theorem c14_cose_no_panic :
  forall s e, has_pad s = false ->
    pad_cose_sig_top s e <> PPanic /\ pad_cose_sig_top s e <> POutOfFuel.
Proof. exact cose_no_panic. Qed.

(* termination for every input whatsoever: the fuel of the model is never exhausted *)
Theorem c14_cose_total : forall s e, pad_cose_sig_top s e <> POutOfFuel.
Proof. exact cose_total. Qed.

(* model observation (confirmed on the implementation through the hook): a Sign1 that already
   carries a "pad" shorter than 10 bytes can reach the underflow.  Not a violation: outside the
   routine's calling context. *)
Theorem c14_cose_prepadded_panics :
  ser_size prepadded = Some 79 /\ pad_cose_sig_top prepadded (Some (79 + 24)) = PPanic.
Proof. exact cose_prepadded_panics. Qed.

(* ---- data-hash padding -------------------------------------------------------------------- *)

(* exactness, every input: an Ok result has exactly the desired size, other fields untouched *)
Theorem c14_data_exact :
  forall fuel d desired d',
    pad_to_size fuel d desired = DOk d' -> dh_size d' = desired /\ dbase d' = dbase d.
Proof. exact pad_to_size_exact. Qed.

(* exact and total: for a DataHash without a second pad (any current `pad`), every target size
   >= the current size is reached — through the four skipped byte-string sizes as well *)
Theorem c14_data_exact_total :
  forall b p desired,
    dh_size (DH b p None) <= desired ->
    exists d', pad_to_size_top (DH b p None) desired = DOk d'
               /\ dh_size d' = desired /\ dbase d' = b.
Proof. exact pad_to_size_exact_total. Qed.

Theorem c14_data_too_small :
  forall f d desired, desired < dh_size d -> pad_to_size (S f) d desired = DErr.
Proof. exact pad_to_size_too_small. Qed.

(* ---- the CBOR fact both halves rest on ---------------------------------------------------- *)

(* a definite-length byte string can have every encoded size except 0, 25, 258, 65539, 65540 and
   2^32+5 .. 2^32+8 *)
Theorem c14_bstr_sizes : forall t, (exists p, bstr_size p = t) <-> ~ skipped t.
Proof. exact bstr_image. Qed.

(* tie of the generated constants to the arithmetic used in the proofs *)
Theorem c14_constants :
  PAD_OFFSET = 7 /\ PAD2_SUB = 10 /\ label_size pad_label = 4 /\ DH_PAD2_DIV = 2
  /\ tstr_size (len DH_PAD2_KEY) = 5 /\ label_eqb pad2_label pad_label = false.
Proof.
  exact (conj pad_offset_val (conj pad2_sub_val (conj pad_label_size (conj pad2_div (conj pad2_key_size pad2_not_pad))))).
Qed.

(* non-vacuity: the hypotheses are met and the model computes non-trivial cases *)
Example c14_example :
  has_pad wit = false /\ small_map wit /\ ser_size wit = Some 1230
  /\ pad_cose_sig_top wit (Some 1530) = POk (push wit (pad_label, VBytes 293)) 1530
  /\ pad_to_size_top (DH 103 0 None) (104 + 24) = DOk (DH 103 6 (Some 12))
  /\ dh_size (DH 103 6 (Some 12)) = 128.
Proof. unfold small_map. vm_compute. repeat split; reflexivity. Qed.
