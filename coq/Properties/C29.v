(* Properties/C29.v — Resource files are confined to the manifest directory.
   Model: Model/FsPaths.v.  Strings are byte lists, a file system is a finite map from real locations to
   Dir | File | Link, [canon] is canonicalize(), and each operation returns what the caller sees together with
   the real locations it read (TRead), reported the existence of (TProbe), created (TMkdir) or wrote (TWrite),
   and where each symbolic link followed on a written path led (TFollow).
   All theorems quantify over every file system (any links: inside, outside, chained, dangling, looping), every
   base / root directory and every identifier string.  Races between check and use are not modelled. *)
From Coq Require Import List NArith Bool.
From C2PA Require Import Model.FsPaths Proofs.FsPathsProofs Proofs.FsWriteProofs.
Import ListNotations.
Open Scope N_scope.

(* ---- lexical functions never yield a path that leaves the base ---- *)

(* sanitize_archive_path: an accepted identifier is a non-empty list of plain names
   (not empty, not "." or "..", no '/' and no '\') ... *)
Theorem c29_lexical_sanitize :
  forall s ns, sanitize s = Some ns -> ns <> [] /\ Forall plain_nb ns.
Proof. exact sanitize_plain. Qed.

(* ... so that <base>/<identifier> is already normal and lexically below the base, for every base *)
Theorem c29_lexical_join :
  forall base ns,
    normalize_lexically (abs (base ++ ns)) = abs (base ++ ns) /\ starts_with (abs (base ++ ns)) (abs base) = true.
Proof. exact sanitized_join_inside. Qed.

(* normalize_lexically of an absolute path keeps no "." and no ".." : the prefix test made on its result
   (resolve_within_root, step 2) is a real containment test *)
Theorem c29_lexical_normalize :
  forall rest, exists l, normalize_lexically (CRoot :: rest) = abs l.
Proof. exact normalize_rooted. Qed.

(* resolve_within_root: whatever it accepts has no backslash, is relative, normalises lexically to a path
   below the root, and - when the target exists - its canonical location is below the canonical root *)
Theorem c29_lexical_resolve :
  forall f base root id j,
    resolve_within_root f base root id = Some j ->
    j = join_os base id /\ has_byte BACKSLASH id = false /\ rooted id = false /\
    (exists x, normalize_lexically (join base id) = abs (root ++ x)) /\
    (forall ct, canon f j = Some ct -> exists cr, canon f (abs root) = Some cr /\ loc_prefix cr ct = true) /\
    (canon f j = None -> ensure_real_parent_within_root f root (join_os base id) (join base id) = EOk).
Proof. exact resolve_some. Qed.

(* uri_to_path (Reader::to_folder): same guarantee as sanitize, for every URI and manifest label *)
Theorem c29_export_confined :
  forall u l ns, uri_to_path u l = Some ns -> ns <> [] /\ Forall plain_nb ns.
Proof. exact uri_to_path_plain. Qed.

(* archive import (old_from_archive): every resource identifier taken from a zip entry name is plain; nothing is
   written to disk (the imported builder has no base path: observed by the run) *)
Theorem c29_archive_ids_plain :
  forall names ids, archive_ids names = Some ids -> Forall plain_id ids.
Proof. exact archive_ids_plain. Qed.

(* ---- read side: only locations under realpath(root) are read or have their existence reported ---- *)

Theorem c29_read_confined_get :
  forall f base root id, Forall (read_inside f root) (snd (get f base root id)).
Proof. exact get_confined. Qed.

Theorem c29_read_confined_write_stream :
  forall f base root id, Forall (read_inside f root) (snd (write_stream f base root id)).
Proof. exact write_stream_confined. Qed.

Theorem c29_read_confined_exists :
  forall f base root id,
    Forall (read_inside f root) (snd (exists_op f base root id)) /\
    (fst (exists_op f base root id) = OkBool true ->
     exists q cr, canon f (join_os base id) = Some q /\ canon f (abs root) = Some cr /\ loc_prefix cr q = true).
Proof. exact exists_confined. Qed.

(* ---- write side ---- *)

(* ResourceStore::add after 791680340 (ensure_real_parent_within_root), for every well-formed file system (every entry
   lies in a directory), whatever symbolic links it contains, every base / root / identifier: once the base
   directory is there, everything created or written lies under realpath(root) - or nothing is written at all
   (identifier, link or escaping ancestor refused).  No hypothesis on the links any more. *)
Theorem c29_write_confined_add :
  forall f base root id data o ts f0 rr ts0,
    wf f -> add f base root id data = (o, ts) ->
    mkdirp FUEL f [] base [] = (Some (f0, rr), ts0) ->           (* create_dir_all(base) succeeded *)
    ts = [] \/ ts = ts0 \/
    (exists cr, canon f0 (abs root) = Some cr /\ touches_after ts0 ts (writes_in cr)).
Proof. exact add_confined. Qed.

(* Builder::add_resource with a base path: same guarantee *)
Theorem c29_write_confined_add_resource :
  forall f base id data o ts f0 rr ts0,
    wf f -> builder_add f base id data = (o, ts) ->
    mkdirp FUEL f [] base [] = (Some (f0, rr), ts0) ->
    Forall (fun t => match t with TWrite _ | TMkdir _ => False | _ => True end) ts \/ ts = ts0 \/
    (exists cr, canon f0 (abs base) = Some cr /\ touches_after ts0 ts (writes_in cr)).
Proof. exact builder_add_confined. Qed.

(* the core of both: create_dir_all(parent) + write(path) after the check accepted the path *)
Theorem c29_write_confined_after_check :
  forall f root L data cr r ts,
    wf f -> L <> [] ->
    ensure_real_parent_within_root f root (abs L) (abs L) = EOk ->
    canon f (abs root) = Some cr ->
    write_at FUEL f [] L data = (r, ts) -> Forall (writes_in cr) ts.
Proof. exact write_at_ensured. Qed.

(* the behaviour before the repair, stated about the old function (F-SYMLINK-WRITE, fixed): root/ contains
   link -> ../outside; the old add("link/evil.txt") wrote outside/evil.txt, the repaired one refuses and writes
   nothing (corpus/C29.jsonl line 1 now passes as an ordinary case) *)
Theorem c29_old_write_refuted :
  canon w_fs (abs [n_root]) = Some [n_root]
  /\ add_old w_fs [n_root] id_link_evil [68] = (OkUnit, [TFollow [n_outside]; TWrite [n_outside; n_evil]])
  /\ loc_prefix [n_root] [n_outside; n_evil] = false
  /\ add w_fs [n_root] [n_root] id_link_evil [68] = (ErrBadParam, []).
Proof. exact write_refuted_old. Qed.

(* Reader::to_folder is not repaired (open finding F-SYMLINK-EXPORT): the export follows a link present in the
   destination folder ... *)
Theorem c29_export_write_refuted :
  canon w_fs (abs [n_root]) = Some [n_root]
  /\ to_folder w_fs [n_root] [[n_link; n_evil]] = (OkUnit, [TFollow [n_outside]; TWrite [n_outside; n_evil]])
  /\ loc_prefix [n_root] [n_outside; n_evil] = false.
Proof. exact export_refuted. Qed.

(* ... and stays inside under no_escaping_link_on_path: if every symbolic link followed while creating the
   directories and opening the files leads under the real destination rr, everything created or written is *)
Theorem c29_write_confined :
  forall rr fuel f ns data r ts,
    write_at fuel f rr ns data = (r, ts) -> Forall (follows_in rr) ts -> Forall (writes_in rr) ts.
Proof. exact write_at_inside. Qed.

Theorem c29_write_confined_to_folder :
  forall f dest rels o ts f0 rr ts0,
    to_folder f dest rels = (o, ts) ->
    mkdirp FUEL f [] dest [] = (Some (f0, rr), ts0) ->
    exists ts1, ts = ts0 ++ ts1 /\ (Forall (follows_in rr) ts1 -> Forall (writes_in rr) ts1).
Proof. exact to_folder_inside. Qed.

(* ---- revealing the existence of outside files ---- *)

(* path resolution and the regular files outside the root: on two file systems that differ only there,
   canonicalize answers the same, except that it may find on one of them a file that is outside the root *)
Theorem c29_canon_outside_files :
  forall cr f1 f2 p, differ_in_outside_files cr f1 f2 -> same_or_outside cr (canon f1 p) (canon f2 p).
Proof. exact canon_outside_files. Qed.

(* positive answers of the read side do not depend on the files outside the root *)
Theorem c29_no_reveal_get :
  forall cr f1 f2 base root id c ts,
    differ_in_outside_files cr f1 f2 ->
    canon f1 (abs root) = Some cr -> canon f2 (abs root) = Some cr ->
    get f1 base root id = (OkData c, ts) -> get f2 base root id = (OkData c, ts).
Proof. exact get_positive_stable. Qed.

Theorem c29_no_reveal_exists :
  forall cr f1 f2 base root id ts,
    differ_in_outside_files cr f1 f2 ->
    canon f1 (abs root) = Some cr -> canon f2 (abs root) = Some cr ->
    exists_op f1 base root id = (OkBool true, ts) -> exists_op f2 base root id = (OkBool true, ts).
Proof. exact exists_positive_stable. Qed.

(* negative answers (partial): when the target does not exist, resolve_within_root - hence path_for_id = Some, get =
   ResourceNotFound(path), write_stream = IoError - accepts the identifier only if the path is not a link and its
   deepest existing ancestor has its real location under the root; full equality of the negative answers on two
   file systems that differ in outside files is not proved (it is exercised by the run). *)
Theorem c29_no_reveal_partial :
  forall f base root id j,
    resolve_within_root f base root id = Some j -> canon f j = None ->
    is_link (lstat f (join_os base id)) = false /\
    exists cr pre d post real,
      canon f (abs root) = Some cr /\ ancestors (join base id) = pre ++ d :: post /\
      Forall (fun x => lstat f x = None) pre /\ lstat f d <> None /\ canon f d = Some real /\ loc_prefix cr real = true.
Proof. exact resolve_missing_inside. Qed.

(* the former witness of F-SYMLINK-PROBE (fixed): two file systems that agree under the root and differ in
   outside/secret.txt were told apart by the old containment check; the repaired one, and path_for_id / get /
   write_stream / exists built on it, answer the same on both *)
Theorem c29_old_reveal_witness :
  agree_inside [n_root] w_fs w_fs0
  /\ resolve_within_root_old w_fs [n_root] [n_root] id_link_secret = None
  /\ (exists p, resolve_within_root_old w_fs0 [n_root] [n_root] id_link_secret = Some p)
  /\ resolve_within_root w_fs [n_root] [n_root] id_link_secret = None
  /\ resolve_within_root w_fs0 [n_root] [n_root] id_link_secret = None
  /\ path_for_id w_fs [n_root] [n_root] id_link_secret = path_for_id w_fs0 [n_root] [n_root] id_link_secret
  /\ get w_fs [n_root] [n_root] id_link_secret = get w_fs0 [n_root] [n_root] id_link_secret
  /\ write_stream w_fs [n_root] [n_root] id_link_secret = write_stream w_fs0 [n_root] [n_root] id_link_secret
  /\ exists_op w_fs [n_root] [n_root] id_link_secret = exists_op w_fs0 [n_root] [n_root] id_link_secret.
Proof. exact probe_witness. Qed.

(* the hypotheses are satisfiable: the witness file system is well formed *)
Theorem c29_wf_witness : wf w_fs.
Proof. exact wf_witness. Qed.

(* non-vacuity: an internal link is followed and the write stays inside; a plain read succeeds *)
Example c29_example :
  let f := [([n_root], Dir); ([n_root; n_link], Link [100]); ([n_root; [100]], Dir); ([n_root; [97]], File [73])] in
  add f [n_root] [n_root] id_link_evil [68] = (OkUnit, [TFollow [n_root; [100]]; TWrite [n_root; [100]; n_evil]])
  /\ get f [n_root] [n_root] [97] = (OkData [73], [TRead [n_root; [97]]])
  /\ sanitize [46;47;97;47;47;98;47] = Some [[97]; [98]]
  /\ sanitize [97;47;46;46;47;98] = None.
Proof. vm_compute. repeat split; reflexivity. Qed.
