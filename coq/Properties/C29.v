(* Properties/C29.v — Resource files are confined to the manifest directory.
   Model: Model/FsPaths.v.  Strings are byte lists, a file system is a finite map from real locations to
   Dir | File | Link, [canon] is canonicalize(), and each operation returns what the caller sees together with
   the real locations it read (TRead), reported the existence of (TProbe), created (TMkdir) or wrote (TWrite),
   and where each symbolic link followed on a written path led (TFollow).
   All theorems quantify over every file system (any links: inside, outside, chained, dangling, looping), every
   base / root directory and every identifier string.  Races between check and use are not modelled. *)
From Coq Require Import List NArith Bool.
From C2PA Require Import Model.FsPaths Proofs.FsPathsProofs.
Import ListNotations.
Open Scope N_scope.

(* ---- lexical functions never yield a path that leaves the base ---- *)

(* sanitize_archive_path: an accepted identifier is a non-empty list of plain names
   (not empty, not "." or "..", no '/' and no '\') ... *)
Theorem c29_lexical_sanitize :
  forall s ns, sanitize s = Some ns -> ns <> [] /\ Forall plain_nb ns.
Proof. exact sanitize_plain. Qed.

(* ... so that <base>/<identifier> is already normal and lexically below the base, for every base *)
Theorem c29_lexical_join :
  forall base ns,
    normalize_lexically (abs (base ++ ns)) = abs (base ++ ns) /\ starts_with (abs (base ++ ns)) (abs base) = true.
Proof. exact sanitized_join_inside. Qed.

(* normalize_lexically of an absolute path keeps no "." and no ".." : the prefix test made on its result
   (resolve_within_root, step 2) is a real containment test *)
Theorem c29_lexical_normalize :
  forall rest, exists l, normalize_lexically (CRoot :: rest) = abs l.
Proof. exact normalize_rooted. Qed.

(* resolve_within_root: whatever it accepts has no backslash, is relative, normalises lexically to a path
   below the root, and - when the target exists - its canonical location is below the canonical root *)
Theorem c29_lexical_resolve :
  forall f base root id j,
    resolve_within_root f base root id = Some j ->
    j = join_os base id /\ has_byte BACKSLASH id = false /\ rooted id = false /\
    (exists x, normalize_lexically (join base id) = abs (root ++ x)) /\
    (forall ct, canon f j = Some ct -> exists cr, canon f (abs root) = Some cr /\ loc_prefix cr ct = true).
Proof. exact resolve_some. Qed.

(* uri_to_path (Reader::to_folder): same guarantee as sanitize, for every URI and manifest label *)
Theorem c29_export_confined :
  forall u l ns, uri_to_path u l = Some ns -> ns <> [] /\ Forall plain_nb ns.
Proof. exact uri_to_path_plain. Qed.

(* archive import (old_from_archive): every resource identifier taken from a zip entry name is plain; nothing is
   written to disk (the imported builder has no base path: observed by the run) *)
Theorem c29_archive_ids_plain :
  forall names ids, archive_ids names = Some ids -> Forall plain_id ids.
Proof. exact archive_ids_plain. Qed.

(* ---- read side: only locations under realpath(root) are read or have their existence reported ---- *)

Theorem c29_read_confined_get :
  forall f base root id, Forall (read_inside f root) (snd (get f base root id)).
Proof. exact get_confined. Qed.

Theorem c29_read_confined_write_stream :
  forall f base root id, Forall (read_inside f root) (snd (write_stream f base root id)).
Proof. exact write_stream_confined. Qed.

Theorem c29_read_confined_exists :
  forall f base root id,
    Forall (read_inside f root) (snd (exists_op f base root id)) /\
    (fst (exists_op f base root id) = OkBool true ->
     exists q cr, canon f (join_os base id) = Some q /\ canon f (abs root) = Some cr /\ loc_prefix cr q = true).
Proof. exact exists_confined. Qed.

(* ---- write side ---- *)

(* F-SYMLINK-WRITE: root/ contains link -> ../outside; add("link/evil.txt") writes outside/evil.txt while get and
   exists through the same link are refused (corpus/C29.jsonl line 1, replayed on the implementation by ./check) *)
Theorem c29_write_confined_refuted :
  canon w_fs (abs [n_root]) = Some [n_root]
  /\ add w_fs [n_root] id_link_evil [68] = (OkUnit, [TFollow [n_outside]; TWrite [n_outside; n_evil]])
  /\ loc_prefix [n_root] [n_outside; n_evil] = false
  /\ fst (get w_fs [n_root] [n_root] id_link_secret) = ErrNotFoundId
  /\ fst (exists_op w_fs [n_root] [n_root] id_link_secret) = OkBool false.
Proof. exact write_refuted. Qed.

(* no_escaping_link_on_path = every symbolic link followed while creating the directories and opening the file
   leads to a location under the real base directory rr ([follows_in rr] on the TFollow entries).
   Then everything created or written is under rr.  The core shared by add / add_resource / to_folder: *)
Theorem c29_write_confined :
  forall rr fuel f ns data r ts,
    write_at fuel f rr ns data = (r, ts) -> Forall (follows_in rr) ts -> Forall (writes_in rr) ts.
Proof. exact write_at_inside. Qed.

Theorem c29_write_confined_add :
  forall f base id data o ts f0 rr ts0,
    add f base id data = (o, ts) ->
    mkdirp FUEL f [] base [] = (Some (f0, rr), ts0) ->       (* the base directory resolves to rr *)
    ts = [] \/ exists ts1, ts = ts0 ++ ts1 /\ (Forall (follows_in rr) ts1 -> Forall (writes_in rr) ts1).
Proof. exact add_inside. Qed.

Theorem c29_write_confined_add_resource :
  forall f base id data o ts f0 rr ts0,
    builder_add f base id data = (o, ts) ->
    mkdirp FUEL f [] base [] = (Some (f0, rr), ts0) ->
    Forall (fun t => match t with TWrite _ | TMkdir _ => False | _ => True end) ts \/
    exists ts1, ts = ts0 ++ ts1 /\ (Forall (follows_in rr) ts1 -> Forall (writes_in rr) ts1).
Proof. exact builder_add_inside. Qed.

Theorem c29_write_confined_to_folder :
  forall f dest rels o ts f0 rr ts0,
    to_folder f dest rels = (o, ts) ->
    mkdirp FUEL f [] dest [] = (Some (f0, rr), ts0) ->
    exists ts1, ts = ts0 ++ ts1 /\ (Forall (follows_in rr) ts1 -> Forall (writes_in rr) ts1).
Proof. exact to_folder_inside. Qed.

(* ---- revealing the existence of outside files ---- *)

(* F-SYMLINK-PROBE: two file systems that agree on every location under the root (they differ only in whether
   outside/secret.txt exists) are told apart by path_for_id (None / Some), by get (ResourceNotFound(id) /
   ResourceNotFound(path)) and by write_stream (ResourceNotFound / IoError); exists() answers the same. *)
Theorem c29_no_reveal_refuted :
  agree_inside [n_root] w_fs w_fs0
  /\ fst (path_for_id w_fs [n_root] [n_root] id_link_secret) = OkPath None
  /\ (exists p, fst (path_for_id w_fs0 [n_root] [n_root] id_link_secret) = OkPath (Some p))
  /\ fst (get w_fs [n_root] [n_root] id_link_secret) = ErrNotFoundId
  /\ fst (get w_fs0 [n_root] [n_root] id_link_secret) = ErrNotFoundPath
  /\ fst (write_stream w_fs [n_root] [n_root] id_link_secret) = ErrNotFoundId
  /\ fst (write_stream w_fs0 [n_root] [n_root] id_link_secret) = ErrIo
  /\ fst (exists_op w_fs [n_root] [n_root] id_link_secret) = fst (exists_op w_fs0 [n_root] [n_root] id_link_secret).
Proof. exact probe_refuted. Qed.

(* non-vacuity: an internal link is followed and the write stays inside; a plain read succeeds *)
Example c29_example :
  let f := [([n_root], Dir); ([n_root; n_link], Link [100]); ([n_root; [100]], Dir); ([n_root; [97]], File [73])] in
  add f [n_root] id_link_evil [68] = (OkUnit, [TFollow [n_root; [100]]; TWrite [n_root; [100]; n_evil]])
  /\ get f [n_root] [n_root] [97] = (OkData [73], [TRead [n_root; [97]]])
  /\ sanitize [46;47;97;47;47;98;47] = Some [[97]; [98]]
  /\ sanitize [97;47;46;46;47;98] = None.
Proof. vm_compute. repeat split; reflexivity. Qed.
