(* Properties/C05.v — Signer trust decisions follow the configured trust policy.
   Statements only.  Model: Model/TrustPolicy.v (CertificateTrustPolicy::check_certificate_trust with the OpenSSL back
   end, Verifier::verify_trust / verify_profile, the verifier selected by verify.verify_trust, the policy built by
   Store::from_context).  Path building is the section variable [chains_to] (OpenSSL X509_STRICT | PARTIAL_CHAIN over
   the certificates supplied in the manifest), instantiated in the correspondence run by `openssl verify`.
   [justified p ee chain t] = passthrough \/ allow-listed \/ chains to a system anchor
                              \/ (not anchors-only /\ chains to a user anchor). *)
From Coq Require Import List NArith ZArith Bool.
From C2PA Require Import Generated.C06_facts Model.CertProfile Model.TrustPolicy
     Proofs.CertProfileProofs Proofs.TrustPolicyProofs.
Import ListNotations.

Section C05.
  Variable cert : Type.
  Variable fingerprint : cert -> N.
  Variable x509_ok : cert -> bool.
  Variable chains_to : list cert -> cert -> list cert -> option Z -> bool.
  Variable features : cert -> CertProfile.cert.

  (* `signingCredential.trusted` is logged only for a justified credential under the VerifyTrustPolicy verifier *)
  Theorem c05_trusted_only_if :
    forall v certs tst,
      In Trusted (verify_trust cert fingerprint x509_ok chains_to v certs tst) ->
      exists p ee chain, v = VerifyTrustPolicy cert p /\ certs = ee :: chain
                         /\ justified cert fingerprint chains_to p ee chain tst.
  Proof. exact (trusted_only_if cert fingerprint x509_ok chains_to). Qed.

  (* and otherwise `signingCredential.untrusted` is; exactly one of the two when trust is verified *)
  Theorem c05_untrusted_otherwise :
    forall p ee chain tst,
      ~ justified cert fingerprint chains_to p ee chain tst ->
      verify_trust cert fingerprint x509_ok chains_to (VerifyTrustPolicy cert p) (ee :: chain) tst = [Untrusted].
  Proof. exact (untrusted_otherwise cert fingerprint x509_ok chains_to). Qed.

  Theorem c05_one_verdict :
    forall p ee chain tst,
      verify_trust cert fingerprint x509_ok chains_to (VerifyTrustPolicy cert p) (ee :: chain) tst = [Trusted]
      \/ verify_trust cert fingerprint x509_ok chains_to (VerifyTrustPolicy cert p) (ee :: chain) tst = [Untrusted].
  Proof. exact (one_verdict cert fingerprint x509_ok chains_to). Qed.

  (* converse, for certificates OpenSSL can load and at least one configured anchor (the "no anchors" short cut) *)
  Theorem c05_trusted_if :
    forall p ee chain tst,
      forallb x509_ok chain = true -> x509_ok ee = true ->
      forallb x509_ok (system_anchors cert p) = true -> forallb x509_ok (user_anchors cert p) = true ->
      (passthrough cert p = true \/ allow_listed cert fingerprint p ee = true
       \/ is_empty (system_anchors cert p) && is_empty (user_anchors cert p) = false) ->
      justified cert fingerprint chains_to p ee chain tst ->
      verify_trust cert fingerprint x509_ok chains_to (VerifyTrustPolicy cert p) (ee :: chain) tst = [Trusted].
  Proof. exact (trusted_if cert fingerprint x509_ok chains_to). Qed.

  (* trust-anchors-only mode never accepts a user anchor *)
  Theorem c05_anchors_only_ignores_user :
    forall p ee chain tst,
      anchors_only cert p = true ->
      check_certificate_trust cert fingerprint x509_ok chains_to p chain ee tst <> inl User
      /\ (verify_trust cert fingerprint x509_ok chains_to (VerifyTrustPolicy cert p) (ee :: chain) tst = [Trusted] ->
          passthrough cert p = true \/ allow_listed cert fingerprint p ee = true
          \/ chains_to (system_anchors cert p) ee chain tst = true).
  Proof. exact (anchors_only_ignores_user cert fingerprint x509_ok chains_to). Qed.

  (* verify.verify_trust = false (or certificate checks off): no trust verdict *)
  Theorem c05_disabled_no_verdict :
    forall cert_check p certs tst,
      verify_trust cert fingerprint x509_ok chains_to (select_verifier cert cert_check false p) certs tst = []
      /\ verify_trust cert fingerprint x509_ok chains_to (select_verifier cert false cert_check p) certs tst = [].
  Proof. exact (disabled_no_verdict cert fingerprint x509_ok chains_to). Qed.

  (* the Reader path: the policy built from the trust settings is neither passthrough nor anchors-only *)
  Theorem c05_settings_trusted_only_if :
    forall s ee chain tst,
      verify_trust cert fingerprint x509_ok chains_to
                   (select_verifier cert true true (policy_of_settings cert s)) (ee :: chain) tst = [Trusted] ->
      existsb (N.eqb (fingerprint ee)) (s_allowed cert s) = true
      \/ chains_to (s_trust_anchors cert s) ee chain tst = true
      \/ chains_to (s_user_anchors cert s) ee chain tst = true.
  Proof. exact (settings_trusted_only_if cert fingerprint x509_ok chains_to). Qed.

  (* accepted EKU: an EKU set that is not accepted always yields a signingCredential failure code from the profile step,
     so such a credential is never both trusted and free of signingCredential.invalid.  (Unconditional since fix
     85312f708: every profile rejection now leaves a code.) *)
  Theorem c05_eku :
    forall p ee chain tst now,
      eku_accepted (additional_ekus cert p) (features ee) = false ->
      exists k, verify_profile cert features (VerifyTrustPolicy cert p) (ee :: chain) tst now = [k]
                /\ verify_profile cert features (VerifyCertificateProfileOnly cert p) (ee :: chain) tst now = [k].
  Proof. exact (unaccepted_eku_flagged_all cert features). Qed.
End C05.

(* which anchor type is reported (System before User; allow list before both; passthrough before everything) *)
Theorem c05_anchor_type :
  forall (cert : Type) fingerprint x509_ok chains_to (p : policy cert) chain ee t a,
    check_certificate_trust cert fingerprint x509_ok chains_to p chain ee t = inl a ->
    match a with
    | NoCheck => passthrough cert p = true
    | EndEntity => passthrough cert p = false /\ allow_listed cert fingerprint p ee = true
    | System => passthrough cert p = false /\ allow_listed cert fingerprint p ee = false
                /\ chains_to (system_anchors cert p) ee chain t = true
    | User => passthrough cert p = false /\ allow_listed cert fingerprint p ee = false
              /\ chains_to (system_anchors cert p) ee chain t = false
              /\ anchors_only cert p = false /\ chains_to (user_anchors cert p) ee chain t = true
    end.
Proof. exact check_anchor_type. Qed.

(* the model computes a non-trivial case: certificates are numbers, anchor 1 is a system anchor, anchor 101 a user anchor,
   the credential 7 chains to user anchors only *)
Example c05_nonvacuous :
  let chains := fun (a : list N) (_ : N) (_ : list N) (_ : option Z) => existsb (N.eqb 101) a in
  let p := {| system_anchors := [1%N]; user_anchors := [101%N]; allowed := []; additional_ekus := DEFAULT_EKUS;
              passthrough := false; anchors_only := false |} in
  let q := {| system_anchors := [1%N]; user_anchors := [101%N]; allowed := []; additional_ekus := DEFAULT_EKUS;
              passthrough := false; anchors_only := true |} in
  check_certificate_trust N (fun x => x) (fun _ => true) chains p [] 7%N None = inl User
  /\ verify_trust N (fun x => x) (fun _ => true) chains (VerifyTrustPolicy N q) [7%N] None = [Untrusted]
  /\ verify_trust N (fun x => x) (fun _ => true) chains (select_verifier N true false p) [7%N] None = [].
Proof. vm_compute. repeat split; reflexivity. Qed.
