(* Properties/C20.v — Redaction removes exactly the requested assertions and stays verifiable.
   Statements only; every theorem is closed by [exact] of a lemma in Proofs/RedactProofs.v.
   Model: Model/Redact.v.  As coded, a redaction *removes the box* from the ingredient's assertion store (the claim of
   the ingredient, with its hashed URI, is untouched); URIs are kept in parsed form and rendered for the substring
   tests; assertion-box / manifest-box / signature-box hashes are Section variables (H, MH, SH).
   Partial: signatures, CBOR and JUMBF encoding, data boxes and the ingredient-thumbnail instance syntax are covered by
   the run only; of load_ingredient_to_claim's conflict resolution the decision rule is modelled (c20_merge_rule), not
   the relabelling. *)
From Coq Require Import List NArith Bool String.
From C2PA Require Import Base.Bytes Model.ByteStr Model.Redact Generated.C20_facts Proofs.RedactProofs.
Import ListNotations.
Open Scope N_scope.

(* redact_assertion: the first box with the named label/instance leaves the store, nothing signed changes *)
Theorem c20_redact_spec :
  forall m r m',
    redact_assertion m r = ROk m' ->
    signed_part m' = signed_part m /\
    exists s1 a s2, m_store m = s1 ++ a :: s2 /\ m_store m' = s1 ++ s2
                    /\ same_key (r_label r) (r_inst r) a = true
                    /\ (forall y, In y s1 -> same_key (r_label r) (r_inst r) y = false).
Proof. exact redact_spec. Qed.

(* the output store no longer contains the redacted box (labels unique in the store); all other boxes stay *)
Theorem c20_redacted_gone :
  forall m r m',
    redact_assertion m r = ROk m' -> (key_count (r_label r) (r_inst r) (m_store m) <= 1)%nat ->
    forall a, In a (m_store m') -> same_key (r_label r) (r_inst r) a = false.
Proof. exact redact_gone. Qed.
Theorem c20_others_intact :
  forall m r m',
    redact_assertion m r = ROk m' ->
    forall a, In a (m_store m) -> same_key (r_label r) (r_inst r) a = false -> In a (m_store m').
Proof. exact redact_keeps_others. Qed.

(* Builder: on success the redacting manifest lists exactly the requested URIs (each once; in order when the request has
   no repetition — the implementation's order is that of a HashSet, compared as a set by the run) *)
Theorem c20_lists_exactly :
  forall c ings rs c' ings',
    m_redactions c = [] -> builder_redact c ings rs = ROk (c', ings') ->
    m_redactions c' = dedup rs [] /\ NoDup (m_redactions c') /\ (forall r, In r (m_redactions c') <-> In r rs) /\
    (NoDup rs -> m_redactions c' = rs) /\
    m_label c' = m_label c /\ m_assertions c' = m_assertions c /\ m_ingredients c' = m_ingredients c /\ m_store c' = m_store c.
Proof. exact builder_lists_exactly. Qed.
Theorem c20_batches_append :
  forall c ings rs c' ings',
    add_ingredient_data c ings rs = ROk (c', ings') ->
    m_redactions c' = m_redactions c ++ filter (matches (map m_label ings)) rs /\ map m_label ings' = map m_label ings.
Proof. exact add_ingredient_data_appends. Qed.

(* the result still validates: hashed-URI checks skip exactly the listed targets, the other boxes still match, nothing is
   left undeclared; the ingredient reference is then matched through the (untouched) signature box *)
Theorem c20_still_valid :
  forall (H : bytes -> bytes) reds0 reds x r x',
    redact_assertion x r = ROk x' -> r_manifest r <> None ->
    incl reds0 reds -> In r reds ->
    verify_assertions H reds0 x = [] -> verify_assertions H reds x' = [].
Proof. exact redaction_still_valid. Qed.
Theorem c20_ingredient_still_matches :
  forall (MH SH : manifest -> bytes) reds st i x x' r,
    (forall u v, signed_part u = signed_part v -> SH u = SH v) ->
    redact_assertion x r = ROk x' -> In r reds -> r_manifest r = Some (i_target i) ->
    find_manifest st (i_target i) = Some x' -> i_shash i = SH x ->
    check_ingredient MH SH reds st i = [].
Proof. exact redacted_ingredient_matches. Qed.

(* disallowed redactions: refused when applied, and flagged by the validator when listed *)
Theorem c20_disallowed_refused :
  forall m r,
    starts_with L_ACTIONS (r_label r) = true \/ starts_with L_HASH_PREFIX (r_label r) = true ->
    redact_assertion m r = RErr EInvalidRedaction.
Proof. exact redact_refuses_actions_and_hashes. Qed.
Theorem c20_self_redaction_invalid :
  forall c r, In r (m_redactions c) -> r_manifest r = Some (m_label c) -> In SelfRedacted (redaction_rule_failures c).
Proof. exact self_redaction_flagged. Qed.
Theorem c20_action_redaction_invalid :
  forall c r, In r (m_redactions c) -> starts_with L_ACTIONS (r_label r) = true -> In ActionRedacted (redaction_rule_failures c).
Proof. exact action_redaction_flagged. Qed.
Theorem c20_hash_redaction_invalid :
  forall c r hl, In r (m_redactions c) -> In hl HASH_LABELS -> starts_with hl (r_label r) = true ->
                 In HashRedacted (redaction_rule_failures c).
Proof. exact hash_redaction_flagged. Qed.
Theorem c20_hash_tables_agree : forallb (starts_with L_HASH_PREFIX) HASH_LABELS = true.
Proof. exact hash_labels_have_prefix. Qed.

(* removal or alteration of an assertion box without a matching redaction entry fails the hashed-URI check
   (or exhibits a collision of H); one level up the changed ingredient manifest fails the manifest-hash check *)
Theorem c20_unlisted_removal_invalid :
  forall (H : bytes -> bytes) reds c h d,
    In h (m_assertions c) -> is_redacted reds c h = false -> h_hash h = H d ->
    (forall a, find (same_key (h_label h) (h_inst h)) (m_store c) = Some a -> a_data a <> d) ->
    In AssertionMissing (verify_assertions H reds c) \/ In HashedUriMismatch (verify_assertions H reds c)
    \/ (exists d', d' <> d /\ H d' = H d).
Proof. exact unlisted_removal_detected. Qed.
Theorem c20_unlisted_ingredient_change_invalid :
  forall (MH SH : manifest -> bytes) reds st i x x',
    has_redactions reds (i_target i) = false -> find_manifest st (i_target i) = Some x' -> i_mhash i = MH x -> x' <> x ->
    In IngredientManifestMismatch (check_ingredient MH SH reds st i) \/ (x' <> x /\ MH x' = MH x).
Proof. exact unlisted_ingredient_change_detected. Qed.
Theorem c20_entries_are_manifest_specific :
  forall reds c h,
    (forall r, In r reds -> r_manifest r <> Some (m_label c)) -> m_label c <> [] -> is_redacted reds c h = false.
Proof. exact redaction_entry_is_manifest_specific. Qed.

(* load_ingredient_to_claim: two copies of one manifest are merged only when every difference is a listed redaction *)
Theorem c20_merge_rule_partial :
  forall cur inc cr ir,
    match resolve_conflict cur inc cr ir with
    | KeepCurrent => cr <> [] /\ ir = [] /\ differs_by_redaction cur inc (cr ++ ir) <> None
    | TakeIncoming => cr = [] /\ ir <> [] /\ differs_by_redaction cur inc (cr ++ ir) <> None
    | ApplyBoth d => differs_by_redaction cur inc (cr ++ ir) = Some d /\ (forall u, In u d -> In u (cr ++ ir))
    | Relabel => differs_by_redaction cur inc (cr ++ ir) = None
    end.
Proof. exact resolve_conflict_cases. Qed.

(* non-vacuity: an ingredient with two custom boxes; redacting one through the Builder path lists it, removes it,
   and the store verifies; the same removal unlisted, and a listed actions redaction, are flagged *)
Example c20_example :
  let Hh := fun d : bytes => 7 :: d in
  let enc := fun m : manifest => m_label m ++ List.concat (map a_data (m_store m)) in
  let sg := fun m : manifest => m_label m ++ List.concat (map h_hash (m_assertions m)) in
  let x := Man (b "urn:c2pa:x") [HRef (b "c2pa.actions.v2") 0 (Hh [1]); HRef (b "com.a") 0 (Hh [2]); HRef (b "com.b") 0 (Hh [3])] [] []
               [Asrt (b "c2pa.actions.v2") 0 [1]; Asrt (b "com.a") 0 [2]; Asrt (b "com.b") 0 [3]] in
  let top := Man (b "urn:c2pa:top") [] [] [IRef (b "urn:c2pa:x") (enc x) (sg x)] [] in
  let r := RUri (Some (b "urn:c2pa:x")) UAssertion (b "com.b") 0 in
  let ra := RUri (Some (b "urn:c2pa:x")) UAssertion (b "c2pa.actions.v2") 0 in
  match builder_redact top [x] [r] with
  | ROk (top', [x']) =>
      m_redactions top' = [r] /\ map a_label (m_store x') = [b "c2pa.actions.v2"; b "com.a"]
      /\ verify_store Hh enc sg [x'; top'] top' = []
      /\ verify_store Hh enc sg [x'; top] top = [IngredientManifestMismatch; AssertionMissing]
      /\ verify_store Hh enc sg [x; set_redactions top [ra]] (set_redactions top [ra]) = [ActionRedacted]
  | _ => False
  end
  /\ builder_redact top [x] [ra] = RErr EInvalidRedaction.
Proof. vm_compute. repeat split; reflexivity. Qed.
