(* Properties/C40.v — Synchronous and asynchronous APIs behave identically.
   Statements only.  [pairs] (Generated/C40_pairs.v) is regenerated from /repo/sdk/src on every run: one entry per
   `if _sync {A} else {B}` site of every #[async_generic] function, token by token.  The macro (async-generic,
   pinned by c40_macro_modelled) compiles everything outside these sites from the same text into both flavours. *)
From Coq Require Import List String Bool Arith.
From C2PA Require Import Model.SyncAsync Generated.C40_pairs Proofs.SyncAsyncProofs.
Import ListNotations.
Open Scope string_scope.

(* If in every Branch the two arms are equal up to the erasure of awaits (and of the _async suffix, Box::pin
   wrappers, trailing commas), and chunks with equal erasure mean the same in both flavours (callee pairs agree),
   then the async reading, run by a cooperative single-task scheduler, terminates with exactly the value of the sync
   reading — for every body, every start state, and whatever number of polls it takes. *)
Theorem c40_interp_agree :
  forall (St R : Type) (sem_s sem_a : list token -> St -> outcome St R),
    (forall t1 t2 st, erase t1 = erase t2 -> sem_a t2 st = sem_s t1 st) ->
    forall t, branches_ok t = true ->
    forall st,
      (exists fuel, run_async St R sem_a fuel t st = Some (run_sync St R sem_s t st))
      /\ (forall fuel o, run_async St R sem_a fuel t st = Some o -> o = run_sync St R sem_s t st).
Proof. exact interp_agree. Qed.

(* Every site of today's source has arms equal up to erasure, or is one of the listed divergences, matched by
   file + function + the exact erased tokens of both arms.  A new or edited divergent branch fails this. *)
Theorem c40_all_pairs_equal : forallb (pair_equal allow) pairs = true.
Proof. exact all_pairs_equal. Qed.

(* The allow-list is tight: each entry's rewrite rules account for the whole difference between its arms, each
   entry is really divergent, each is used by a site that exists today, and the divergent sites are exactly these. *)
Theorem c40_allow_list_tight :
  forallb entry_justified allow = true
  /\ forallb (entry_used pairs) allow = true
  /\ forallb (fun e => negb (toks_eqb (a_sync e) (a_async e))) allow = true
  /\ divergent_sites = [("builder.rs", "sign"); ("builder.rs", "save_to_stream"); ("cose_sign.rs", "cose_sign");
                        ("store.rs", "sign_claim"); ("crypto/cose/sign.rs", "sign_v1");
                        ("crypto/cose/sign.rs", "sign_v2_embedded")].
Proof. exact (conj allow_justified (conj allow_used (conj allow_entries_are_divergent divergent_sites_are))). Qed.

(* Consequence for each generated site: under the normal form of that site (erasure; plus the reviewed rules of
   its allow entry when it has one) the async arm polled to completion gives the value of the sync arm. *)
Theorem c40_every_site_agrees :
  forall p, In p pairs ->
  forall (St R : Type) (sem_s sem_a : list token -> St -> outcome St R),
    (forall t1 t2 st, site_nf p t1 = site_nf p t2 -> sem_a t2 st = sem_s t1 st) ->
    forall st,
      run_async St R sem_a 2 (site_tm p) st = Some (run_sync St R sem_s (site_tm p) st)
      /\ (forall fuel o, run_async St R sem_a fuel (site_tm p) st = Some o -> o = run_sync St R sem_s (site_tm p) st).
Proof. exact every_site_agrees. Qed.

Theorem c40_plain_sites_use_erasure_only :
  forall p ts, plain_equal p = true -> site_nf p ts = erase ts.
Proof. exact site_nf_plain. Qed.

(* The hand-written (not macro-generated) callee pairs reached from the sites, and the hand-written `fn …_async`
   of the SDK, are exactly the modelled ones: their equivalence is assumed (user components) and run-tested. *)
Theorem c40_handwritten_pairs_inventoried :
  same_set_string handwritten_callees modelled_handwritten = true
  /\ same_set_string handwritten_async_fns modelled_handwritten_fns = true.
Proof. exact handwritten_modelled. Qed.

(* the macro whose desugaring the model transcribes is the one in Cargo.lock *)
Theorem c40_macro_modelled :
  String.eqb macro_version modelled_macro_version = true /\ String.eqb macro_checksum modelled_macro_checksum = true.
Proof. exact macro_modelled. Qed.

(* side condition of the store.rs::sign_claim entry: cose_sign does not read the one field in which
   adjusted_settings differs from settings *)
Theorem c40_adjusted_settings_benign :
  mem_string "verify.verify_timestamp_trust" cose_sign_settings_reads = false
  /\ forallb (fun f => negb (String.prefix "verify" f)) cose_sign_settings_reads = true.
Proof. exact adjusted_settings_benign. Qed.

(* the hypotheses are satisfiable and the scheduler is not a no-op: two awaits need more than one poll *)
Example c40_example :
  branches_ok ex_tm = true
  /\ run_sync nat nat ex_sem ex_tm 0 = Return 15
  /\ run_async nat nat ex_sem 1 ex_tm 0 = None
  /\ run_async nat nat ex_sem 2 ex_tm 0 = Some (Return 15)
  /\ (forall t1 t2 st, erase t1 = erase t2 -> ex_sem t2 st = ex_sem t1 st).
Proof. exact example_runs. Qed.

(* and an unexplained divergence is rejected *)
Example c40_divergence_detected :
  pair_equal allow (mkSite "store.rs" "sign_claim" 1
     ["verify_cose"; "("; "&"; "sig"; ","; "&"; "adjusted_settings"; ")"]
     ["verify_cose_async"; "("; "&"; "sig"; ","; "settings"; ")"; "."; "await"]) = false.
Proof. exact divergence_detected. Qed.
