(* Properties/C31.v — The C API never crashes or double-frees on handle misuse.
   Statements only.  Model: Model/Registry.v (PointerRegistry of cimpl/utils.rs) and Model/FfiGuards.v (an exported
   function = the guard macros of cimpl/macros.rs in source order, then an opaque body).  A history is any list of
   calls; the addresses the bodies track come from an allocator oracle and may repeat earlier (freed) addresses.
   Events: [Cleanup i] = the cleanup closure stored by the i-th track call ran; [Consumed i] = an untrack guard took
   allocation i back into Rust.  [released] lists both. *)
From Coq Require Import NArith List Bool String Arith.
From C2PA Require Import Model.Registry Model.FfiGuards Proofs.RegistryProofs Proofs.FfiGuardsProofs
     Proofs.FfiApiProofs Generated.C31_facts.
Import ListNotations.
Open Scope N_scope.

(* validate succeeds exactly on live handles of the right type *)
Theorem c31_validate_iff_live : forall r a t,
  validate r a t = ROk <-> a <> 0 /\ exists i, lookup a r = Some (E t i).
Proof. exact validate_iff_live. Qed.

(* refinement: the registry operations are insertion / deletion on the partial function "live handle -> type, id" *)
Theorem c31_refines_abstract : forall r a e x,
  abs [] x = l_empty x /\
  (a <> 0 -> abs (track r a e) x = l_add (abs r) a e x) /\
  abs (remove a r) x = l_del (abs r) a x.
Proof. intros. split; [apply abs_empty|split; [apply abs_track|apply abs_remove]]. Qed.

Theorem c31_free_spec : forall r a,
  (a = 0 -> free r a = (r, ROk, [])) /\
  (a <> 0 -> forall e, lookup a r = Some e -> free r a = (remove a r, ROk, [e_id e])) /\
  (a <> 0 -> lookup a r = None -> free r a = (r, RErr EUntracked, [])).
Proof.
  intros r a. split; [intros ->; apply free_null|]. split; [intros Ha e; apply free_live; assumption|apply free_dead].
Qed.

(* over any history (any calls, any arguments, any addresses from the allocator) no allocation is released twice *)
Theorem c31_free_once : forall maxstr cs s tr,
  run maxstr init cs = (s, tr) -> NoDup (released (events_of tr)).
Proof. exact free_at_most_once. Qed.

(* ... and a free of a handle that is live at that point succeeds, runs its cleanup, and over the whole history that
   allocation is released exactly once *)
Theorem c31_free_exactly_once : forall maxstr cs1 cs2 a s1 t1 e,
  run maxstr init cs1 = (s1, t1) -> a <> 0 -> lookup a (s_reg s1) = Some e ->
  exists s2 t2, run maxstr init (cs1 ++ CFree a :: cs2) = (s2, t2) /\
    In (OOk, [Cleanup (e_id e)]) t2 /\
    count_occ Nat.eq_dec (released (events_of t2)) (e_id e) = 1%nat.
Proof. exact free_exactly_once. Qed.

(* a second free of an address is an error with the state unchanged and no cleanup, unless the allocator reissued
   the address to a tracked object in between *)
Theorem c31_double_free_error : forall maxstr s a s1 o1 ev1 cs s2 tr,
  a <> 0 ->
  step maxstr s (CFree a) = (s1, o1, ev1) ->
  Forall (fun c => ~ In a (allocs c)) cs ->
  run maxstr s1 cs = (s2, tr) ->
  step maxstr s2 (CFree a) = (s2, OErr CUntracked, []).
Proof. exact double_free_error. Qed.

(* NULL / wrong type / freed / foreign in a checked handle parameter: error with a message (not CSilent), body not
   run (no allocation), no cleanup (the events are only [Consumed]), nothing added to the registry; with no untrack
   guard in the function the state is unchanged *)
Theorem c31_bad_arg_no_effect : forall maxstr gs args b s p t,
  forallb checked gs = true ->
  existsb (is_check p t) gs = true ->
  validate (s_reg s) (argn args p) t <> ROk ->
  exists s' c own,
    step maxstr s (CApi gs args b) = (s', OErr c, map Consumed own) /\
    c <> CSilent /\ c <> CBody /\
    s_next s' = s_next s /\
    (forall x e, lookup x (s_reg s') = Some e -> lookup x (s_reg s) = Some e) /\
    (forallb (fun g => negb (is_untrack g)) gs = true -> s' = s /\ own = []).
Proof. exact bad_arg_no_effect. Qed.

(* handle-consuming functions untrack before dropping: a later free is an error, not a double free *)
Theorem c31_consume : forall maxstr gs args b s s1 o ev p t e,
  In (GUntrack p t) gs ->
  lookup (argn args p) (s_reg s) = Some e ->
  step maxstr s (CApi gs args b) = (s1, o, ev) ->
  (o = OOk \/ o = OErr CBody) ->
  ~ In (argn args p) (allocs (CApi gs args b)) ->
  In (Consumed (e_id e)) ev /\
  step maxstr s1 (CFree (argn args p)) = (s1, OErr CUntracked, []).
Proof. exact consume_then_free_is_error. Qed.

(* the exported functions as they are in the source today (table regenerated on every run): all but the known list
   (today: c2pa_free_string_array only) check every handle, string, buffer and required out-parameter with a macro ... *)
Theorem c31_api_guarded : forall name f,
  In (name, f) api_table -> ~ In name known_unguarded -> fn_guarded f = true.
Proof. exact api_guarded_except_known. Qed.

(* ... hence reject any bad handle argument, and never reach an unvalidated dereference *)
Theorem c31_api_bad_handle : forall name f k t args b s,
  In (name, f) api_table -> ~ In name known_unguarded ->
  nth_error (f_params f) k = Some (PHandle t) ->
  validate (s_reg s) (argn args k) t <> ROk ->
  exists s' c own,
    step MAX_CSTRING_LEN s (CApi (f_guards f) args b) = (s', OErr c, map Consumed own) /\
    c <> CSilent /\ c <> CBody /\ s_next s' = s_next s /\
    (forall x e, lookup x (s_reg s') = Some e -> lookup x (s_reg s) = Some e) /\
    (forallb (fun g => negb (is_untrack g)) (f_guards f) = true -> s' = s /\ own = []).
Proof. exact api_bad_handle_rejected. Qed.

(* the one optional handle parameter (asset of c2pa_builder_sign_data_hashed_embeddable): NULL is allowed, any
   other pointer must be a live stream *)
Theorem c31_api_bad_opt_handle : forall name f k t args b s,
  In (name, f) api_table -> ~ In name known_unguarded ->
  nth_error (f_params f) k = Some (PHandleOpt t) ->
  argn args k <> 0 ->
  validate (s_reg s) (argn args k) t <> ROk ->
  exists s' c own,
    step MAX_CSTRING_LEN s (CApi (f_guards f) args b) = (s', OErr c, map Consumed own) /\
    c <> CSilent /\ c <> CBody /\ s_next s' = s_next s /\
    (forall x e, lookup x (s_reg s') = Some e -> lookup x (s_reg s) = Some e) /\
    (forallb (fun g => negb (is_untrack g)) (f_guards f) = true -> s' = s /\ own = []).
Proof. exact api_bad_opt_handle_rejected. Qed.

Theorem c31_api_no_ub : forall name f args b s s' o ev,
  In (name, f) api_table -> ~ In name known_unguarded ->
  step MAX_CSTRING_LEN s (CApi (f_guards f) args b) = (s', o, ev) -> o <> OUB.
Proof. exact api_no_ub. Qed.

(* the class repaired by fix 8b6120a89, about the old guard sequence: a stream parameter dereferenced without a guard
   gives an unvalidated dereference for NULL and for a foreign address, where the guarded form (today's table) gives
   NullParameter / UntrackedPointer; the sequences of corpus/C31.jsonl keep replaying it on the implementation *)
Theorem c31_raw_stream_refuted :
  step MAX_CSTRING_LEN one_builder (CApi raw_stream_guards [500; 4; 0] BErr) = (one_builder, OUB, []) /\
  step MAX_CSTRING_LEN one_builder (CApi raw_stream_guards [500; 4; 777] BErr) = (one_builder, OUB, []) /\
  step MAX_CSTRING_LEN one_builder (CApi fixed_stream_guards [500; 4; 0] BErr) = (one_builder, OErr CNull, []) /\
  step MAX_CSTRING_LEN one_builder (CApi fixed_stream_guards [500; 4; 777] BErr) = (one_builder, OErr CUntracked, []).
Proof. exact raw_stream_refuted. Qed.

(* free(NULL) is a successful no-op (documented; the property text leaves it open) *)
Theorem c31_free_null_noop : forall maxstr s, step maxstr s (CFree 0) = (s, OOk, []).
Proof. exact free_null_noop. Qed.

(* non-vacuity: settings + context builder; wrong-type argument; double free; consume; free of the consumed handle;
   the allocator reissues address 7 and the "stale" free then succeeds on the new object *)
Example c31_example :
  map (fun x => fst (fst x))
    (run_obs MAX_CSTRING_LEN init
      [ api "c2pa_settings_new" [] (BOk [(7, T_C2paSettings)]);
        api "c2pa_context_builder_new" [] (BOk [(9, T_C2paContextBuilder)]);
        api "c2pa_context_builder_set_settings" [7; 9] BErr;
        api "c2pa_context_builder_set_settings" [9; 7] (BOk []);
        CFree 7; CFree 7;
        api "c2pa_context_builder_build" [9] (BOk [(7, T_C2paContext)]);
        CFree 9; CFree 7 ])
  = [OOk; OOk; OErr CWrongType; OOk; OOk; OErr CUntracked; OOk; OErr CUntracked; OOk].
Proof. vm_compute. reflexivity. Qed.
