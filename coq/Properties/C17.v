(* Properties/C17.v — BMFF mdat hashing is independent of how the payload is chunked.
   Statements only; every theorem is closed by [exact] of a lemma in Proofs/MerkleAccProofs.v.
   Model: Model/MerkleAcc.v (MerkleAccumulator::add_merkle_leaf with its empty-chunk return, the header skip spread
   over the first chunks, fixed-size buffering with remainders, variable mode; the flush in Builder::update_hash_from_stream;
   MerkleMap::create_mms_from_mdat_leaves; the per-mdat part of validate_merkle_maps_mdat_boxes).  A leaf carries
   its content where the code stores hash(content), so the statements are about bytes and hold for any hash.
   [cs] is the list of chunks handed to Builder::hash_bmff_mdat_bytes for one mdat, [concat cs] its payload,
   [skip_of large] = 8 for a standard header (the validator starts 16 bytes into the box), 0 for a large one. *)
From Coq Require Import List NArith Bool Arith Lia.
From C2PA Require Import Base.Bytes Model.Merkle Model.MerkleAcc Generated.C17_facts
     Proofs.MerkleProofs Proofs.MerkleAccProofs.
Import ListNotations.
Open Scope nat_scope.

(* the constants of the source fit together: header skip + standard header = the validator's exclusion,
   large header = exclusion, leaf sizes are KiB *)
Theorem c17_constants :
  (HEADER_SKIP + STD_HEADER = MDAT_EXCLUSION_SIZE /\ LARGE_HEADER = MDAT_EXCLUSION_SIZE
   /\ MDAT_SUBSET_OFFSET = MDAT_EXCLUSION_SIZE
   /\ forall kb, 1 <= kb -> 2 <= fixed_of_kb kb)%N.
Proof. unfold fixed_of_kb. vm_compute HEADER_SKIP. repeat split; try reflexivity. intros kb H. unfold KB. lia. Qed.

(* fixed leaf size, EVERY chunking (first chunks of any size, empty chunks anywhere): the recorded leaves are the
   fs-byte pieces of the payload after the header skip -- a function of the concatenated payload only.
   (Before fix 48af40150 this failed for leading chunks of at most 8 bytes: F-MDAT8.) *)
Theorem c17_fixed_leaves :
  forall fs large cs,
    (1 <= fs)%N ->
    exists st, run_chunks (Some fs) large cs fresh_state = AOk st
      /\ final_leaves st
         = map mk (let q := skipn (skip_of large) (concat cs) in chunks (length q) (N.to_nat fs) q).
Proof. exact fixed_leaves. Qed.

Theorem c17_split_independent :
  forall fs large cs cs',
    (1 <= fs)%N -> concat cs = concat cs' ->
    exists st st', run_chunks (Some fs) large cs fresh_state = AOk st
      /\ run_chunks (Some fs) large cs' fresh_state = AOk st'
      /\ final_leaves st = final_leaves st'.
Proof. exact fixed_split_independent. Qed.

(* variable leaves, every chunking: the leaf contents concatenate to the payload after the header skip, recorded
   lengths are the content lengths, and no leaf is empty (before fix 48af40150 an empty chunk was recorded as a
   zero-length leaf with an empty digest: F-MDAT-EMPTY) *)
Theorem c17_variable_cover :
  forall large cs,
    exists st, run_chunks None large cs fresh_state = AOk st
      /\ concat (map snd (final_leaves st)) = skipn (skip_of large) (concat cs)
      /\ Forall (fun lf => fst lf = len (snd lf)) (final_leaves st)
      /\ Forall (fun lf => snd lf <> []) (final_leaves st).
Proof. exact variable_cover. Qed.

(* the validator, run on the written box with the MerkleMap built from the recorded leaves, accepts, for every
   chunking; fixed mode: leaf size and Merkle region of at least 2 bytes -- the validator refuses
   fixedBlockSize <= 1 (F-MDAT-FBS1, the one open class) *)
Theorem c17_validator_agrees_fixed :
  forall fs large (hdr : bytes) cs st mm,
    (2 <= fs)%N -> length hdr = header_len large ->
    2 <= length (skipn (skip_of large) (concat cs)) ->
    run_chunks (Some fs) large cs fresh_state = AOk st ->
    create_mm (Some fs) (final_leaves st) = AOk mm ->
    validate_mdat (hdr ++ concat cs) mm = VOk tt.
Proof. exact validate_fixed. Qed.

Theorem c17_validator_agrees_variable :
  forall large (hdr : bytes) cs st mm,
    length hdr = header_len large ->
    run_chunks None large cs fresh_state = AOk st ->
    create_mm None (final_leaves st) = AOk mm ->
    validate_mdat (hdr ++ concat cs) mm = VOk tt.
Proof. exact validate_variable. Qed.

(* F-MDAT-FBS1 (open; why the fixed-mode theorem asks for a Merkle region of at least 2 bytes) *)
Theorem c17_fbs1_refuted :
  exists st mm,
    run_chunks (Some 1024%N) false [map N.of_nat (seq 0 9)] fresh_state = AOk st
    /\ map snd (final_leaves st) = [[8]]%N
    /\ create_mm (Some 1024%N) (final_leaves st) = AOk mm /\ mm_fixed mm = Some 1%N
    /\ validate_mdat ([0; 0; 0; 17; 109; 100; 97; 116]%N ++ map N.of_nat (seq 0 9)) mm = VErr VHashMismatch.
Proof. exact fbs1_refuted. Qed.

(* non-vacuity, on the inputs that used to witness F-MDAT8 (4 + 16 bytes, 4-byte leaves, standard header) and
   F-MDAT-EMPTY (5 + 0 + 7 bytes, variable leaves, large header): all leaves are recorded and the validator accepts *)
Example c17_example :
  (exists st mm, run_chunks (Some 4%N) false mdat8_chunks fresh_state = AOk st
     /\ map snd (final_leaves st) = [[8; 9; 10; 11]; [12; 13; 14; 15]; [16; 17; 18; 19]]%N
     /\ skipped st = 8%N
     /\ create_mm (Some 4%N) (final_leaves st) = AOk mm
     /\ validate_mdat (mdat8_header ++ mdat8_payload) mm = VOk tt)
  /\ (exists st mm, run_chunks None true empty_chunks fresh_state = AOk st
     /\ map fst (final_leaves st) = [5; 7]%N
     /\ create_mm None (final_leaves st) = AOk mm
     /\ validate_mdat (large_header ++ empty_payload) mm = VOk tt).
Proof.
  split; eexists; eexists; (split; [vm_compute; reflexivity|]); repeat split; vm_compute; reflexivity.
Qed.
