(* Properties/C17.v — BMFF mdat hashing is independent of how the payload is chunked.
   Statements only; every theorem is closed by [exact] of a lemma in Proofs/MerkleAccProofs.v.
   Model: Model/MerkleAcc.v (MerkleAccumulator::add_merkle_leaf with its first-call header skip, the `<= 8` early
   return, fixed-size buffering with remainders, variable mode; the flush in Builder::update_hash_from_stream;
   MerkleMap::create_mms_from_mdat_leaves; the per-mdat part of validate_merkle_maps_mdat_boxes).  A leaf carries
   its content where the code stores hash(content), so the statements are about bytes and hold for any hash.
   [cs] is the list of chunks handed to Builder::hash_bmff_mdat_bytes for one mdat, [concat cs] its payload,
   [skip_of large] = 8 for a standard header (the validator starts 16 bytes into the box), 0 for a large one. *)
From Coq Require Import List NArith Bool Arith Lia.
From C2PA Require Import Base.Bytes Model.Merkle Model.MerkleAcc Generated.C17_facts
     Proofs.MerkleProofs Proofs.MerkleAccProofs.
Import ListNotations.
Open Scope nat_scope.

(* the constants of the source fit together: header skip + standard header = the validator's exclusion,
   large header = exclusion, the early return covers every chunk shorter than the skip, leaf sizes are KiB *)
Theorem c17_constants :
  (HEADER_SKIP + STD_HEADER = MDAT_EXCLUSION_SIZE /\ LARGE_HEADER = MDAT_EXCLUSION_SIZE
   /\ MDAT_SUBSET_OFFSET = MDAT_EXCLUSION_SIZE /\ HEADER_SKIP <= SKIP_EARLY_MAX + 1
   /\ forall kb, 1 <= kb -> 2 <= fixed_of_kb kb)%N.
Proof. unfold fixed_of_kb. vm_compute HEADER_SKIP. repeat split; try reflexivity; try discriminate. intros kb H. unfold KB. lia. Qed.

(* fixed leaf size, any chunking outside F-MDAT8: the recorded leaves are the fs-byte pieces of the payload after
   the header skip -- a function of the concatenated payload only *)
Theorem c17_fixed_leaves :
  forall fs large cs,
    (1 <= fs)%N -> ~ known_mdat8 large cs ->
    exists st, run_chunks (Some fs) large cs fresh_state = AOk st
      /\ final_leaves st
         = map mk (let q := skipn (skip_of large) (concat cs) in chunks (length q) (N.to_nat fs) q).
Proof. exact fixed_leaves. Qed.

Theorem c17_split_independent :
  forall fs large cs cs',
    (1 <= fs)%N -> concat cs = concat cs' -> ~ known_mdat8 large cs -> ~ known_mdat8 large cs' ->
    exists st st', run_chunks (Some fs) large cs fresh_state = AOk st
      /\ run_chunks (Some fs) large cs' fresh_state = AOk st'
      /\ final_leaves st = final_leaves st'.
Proof. exact fixed_split_independent. Qed.

(* variable leaves: the leaf contents concatenate to the payload after the header skip, recorded lengths are the
   content lengths, and no leaf is empty when no chunk that reaches the recording branch is
   ([effective]: all chunks for a large header, the chunks from the first one longer than 8 bytes otherwise) *)
Theorem c17_variable_cover :
  forall large cs,
    ~ known_mdat8 large cs ->
    exists st, run_chunks None large cs fresh_state = AOk st
      /\ concat (map snd (final_leaves st)) = skipn (skip_of large) (concat cs)
      /\ Forall (fun lf => fst lf = len (snd lf)) (final_leaves st)
      /\ (Forall (fun c => c <> []) (effective large cs) -> Forall (fun lf => snd lf <> []) (final_leaves st)).
Proof. exact variable_cover. Qed.

(* the validator, run on the written box with the MerkleMap built from the recorded leaves, accepts
   (fixed mode: leaf size and Merkle region of at least 2 bytes -- the validator refuses fixedBlockSize <= 1) *)
Theorem c17_validator_agrees_fixed :
  forall fs large (hdr : bytes) cs st mm,
    (2 <= fs)%N -> ~ known_mdat8 large cs -> length hdr = header_len large ->
    2 <= length (skipn (skip_of large) (concat cs)) ->
    run_chunks (Some fs) large cs fresh_state = AOk st ->
    create_mm (Some fs) (final_leaves st) = AOk mm ->
    validate_mdat (hdr ++ concat cs) mm = VOk tt.
Proof. exact validate_fixed. Qed.

(* variable mode, outside F-MDAT8 and F-MDAT-EMPTY (an empty chunk is recorded as a zero-length leaf whose digest
   is the empty string: hash_by_alg swallows the "no data" error) *)
Theorem c17_validator_agrees_variable :
  forall large (hdr : bytes) cs st mm,
    ~ known_mdat8 large cs -> ~ known_empty large cs -> length hdr = header_len large ->
    run_chunks None large cs fresh_state = AOk st ->
    create_mm None (final_leaves st) = AOk mm ->
    validate_mdat (hdr ++ concat cs) mm = VOk tt.
Proof. exact validate_variable. Qed.

(* F-MDAT8 is real and exactly characterised: leading chunks of at most 8 bytes are dropped whole and the header
   skip is then taken from the first longer chunk; on the witness a leaf is lost and the validator rejects *)
Theorem c17_mdat8_characterised :
  forall fixed cs,
    run_chunks fixed false cs fresh_state = run_chunks fixed false (drop_short cs) fresh_state.
Proof. exact mdat8_characterised. Qed.

Theorem c17_fixed_leaves_all_chunkings :
  forall fs large cs,
    (1 <= fs)%N ->
    exists st, run_chunks (Some fs) large cs fresh_state = AOk st
      /\ final_leaves st
         = map mk (let q := skipn (skip_of large) (concat (effective large cs)) in chunks (length q) (N.to_nat fs) q).
Proof. exact fixed_char. Qed.

Theorem c17_mdat8_refuted :
  concat mdat8_chunks = mdat8_payload /\ known_mdat8 false mdat8_chunks /\
  exists st mm,
    run_chunks (Some 4%N) false mdat8_chunks fresh_state = AOk st
    /\ map snd (final_leaves st) = [[12; 13; 14; 15]; [16; 17; 18; 19]]%N
    /\ chunks 12 4 (skipn 8 mdat8_payload) = [[8; 9; 10; 11]; [12; 13; 14; 15]; [16; 17; 18; 19]]%N
    /\ create_mm (Some 4%N) (final_leaves st) = AOk mm
    /\ validate_mdat (mdat8_header ++ mdat8_payload) mm = VErr VValidation.
Proof. exact mdat8_refuted. Qed.

Theorem c17_empty_refuted :
  concat empty_chunks = empty_payload /\ known_empty true empty_chunks /\ ~ known_mdat8 true empty_chunks /\
  exists st mm,
    run_chunks None true empty_chunks fresh_state = AOk st
    /\ map fst (final_leaves st) = [5; 0; 7]%N
    /\ create_mm None (final_leaves st) = AOk mm
    /\ validate_mdat (large_header ++ empty_payload) mm = VErr VHashMismatch.
Proof. exact empty_refuted. Qed.

(* F-MDAT-FBS1 (why the fixed-mode theorem asks for a Merkle region of at least 2 bytes) *)
Theorem c17_fbs1_refuted :
  exists st mm,
    run_chunks (Some 1024%N) false [map N.of_nat (seq 0 9)] fresh_state = AOk st
    /\ map snd (final_leaves st) = [[8]]%N
    /\ create_mm (Some 1024%N) (final_leaves st) = AOk mm /\ mm_fixed mm = Some 1%N
    /\ validate_mdat ([0; 0; 0; 17; 109; 100; 97; 116]%N ++ map N.of_nat (seq 0 9)) mm = VErr VHashMismatch.
Proof. exact fbs1_refuted. Qed.

(* non-vacuity: 21-byte payload in chunks of 9, 0, 5 and 7 bytes, 4-byte leaves, standard header *)
Example c17_example :
  let p := map N.of_nat (seq 0 21) in
  let cs := [firstn 9 p; []; firstn 5 (skipn 9 p); skipn 14 p] in
  ~ known_mdat8 false cs /\
  match run_chunks (Some 4%N) false cs fresh_state with
  | AOk st => map snd (final_leaves st) = [[8;9;10;11]; [12;13;14;15]; [16;17;18;19]; [20]]%N
  | AErr _ => False
  end.
Proof. split; [intros [_ H]; vm_compute in H; lia|vm_compute; reflexivity]. Qed.
