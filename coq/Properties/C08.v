(* Properties/C08.v — Same-size manifest replacement only changes the reported manifest region.
   Statements only; every theorem is closed by [exact] of a lemma in Proofs/.

   A file is  head(n) ++ segments ++ tail  (head may depend on the length n of the segment area, e.g.
   the RIFF size field).  Part 1: locality for every format satisfying the obligations [laws]
   (proved once); part 2: the region reported by the handlers' get_object_locations_from_stream on a
   written asset is that region (PNG on bytes; JPEG and GIF on segments), it does not overlap the other
   reported regions and lies in the file; part 3: the former F-JPEG-NOLEN witness after fix d67d17dcd. *)
From Coq Require Import List NArith Bool Lia.
From C2PA Require Import Base.Bytes Model.Container Model.ContPng Model.ContJpeg Model.ContGif Model.ContRiff Model.ContRun
     Proofs.ContainerProofs Proofs.ContPngProofs Proofs.ContJpegProofs Proofs.ContJpegBytes Proofs.ContGifProofs Generated.C07_facts.
Import ListNotations.

Theorem c08_facts_agree :
  PLACEHOLDER_LEN = F_JPEG_PLACEHOLDER_LEN /\ PNG_HDR_LEN = F_PNG_HDR_LEN
  /\ N.of_nat MAX_JPEG_MARKER_SIZE = F_MAX_JPEG_MARKER_SIZE /\ N.of_nat GIF_SUB_MAX = F_GIF_SUB_MAX.
Proof. vm_compute. repeat split; reflexivity. Qed.

(* ---- 1. same-length replacement: equal file length, same region, bytes outside the region equal,
        the region lies in the file and holds exactly the encoded C2PA segments ---- *)
Theorem c08_same_length_local :
  forall F seg_ok adm, laws F seg_ok adm ->
  forall (head : nat -> bytes) (tail : bytes) l b1 b2,
    length b1 = length b2 ->
    let f1 := file F head tail (gwrite F l b1) in
    let f2 := file F head tail (gwrite F l b2) in
    length f1 = length f2
    /\ foff F head l b1 = foff F head l b2 /\ glen F b1 = glen F b2
    /\ (forall k, (k < foff F head l b1 \/ foff F head l b1 + glen F b1 <= k)%nat -> nth k f1 0%N = nth k f2 0%N)
    /\ (foff F head l b1 + glen F b1 <= length f1)%nat
    /\ firstn (glen F b1) (skipn (foff F head l b1) f1) = encs F (mk F b1).
Proof. exact same_length_local. Qed.

(* the files of the modelled formats have that shape *)
Theorem c08_png_file : forall crc cs tr, png_enc cs tr = file (png_format crc) (fun _ => PNG_SIG) tr cs.
Proof. exact png_enc_file. Qed.
Theorem c08_jpeg_file : forall l, jpeg_enc l = file jpeg_format (fun _ => [255; M_SOI]%N) [] l.
Proof. intro l. unfold jpeg_enc, file. rewrite app_nil_r. reflexivity. Qed.
Theorem c08_gif_file : forall pre bs tl, gif_enc pre bs tl = file gif_format (fun _ => pre) tl bs.
Proof. reflexivity. Qed.
Theorem c08_riff_file : forall ty cs,
  renc (RList RIFF_ID ty cs) = file riff_format (fun n => RIFF_ID ++ le 4 (4 + N.of_nat n) ++ ty) [] cs.
Proof. intros ty cs. unfold file. rewrite app_nil_r. cbn [renc]. unfold encs, len. cbn [enc riff_format]. rewrite <- !app_assoc. reflexivity. Qed.

(* ---- 2. the reported manifest region ---- *)

(* PNG, on the bytes of the written file: [Cai; Other before; Other after] partition the file *)
Theorem c08_png_region :
  forall crc cs tr b, chunks_wf cs -> (len b < 4294967296)%N ->
    let a := png_enc (gwrite (png_format crc) cs b) tr in
    let off := (8 + goff (png_format crc) cs)%nat in
    let ln := glen (png_format crc) b in
    png_locations a
    = ROk [(N.of_nat off, N.of_nat ln, KCai); (0%N, N.of_nat off, KOther);
           (N.of_nat (off + ln), (len a - N.of_nat (off + ln))%N, KOther)]
    /\ ln = (12 + length b)%nat.
Proof. exact png_locations_written. Qed.

(* JPEG: the Cai region is [2 + goff, +glen) in bytes of the written file, every other reported region lies
   before or after it; hypothesis [jseg_len_ok]: every media segment has a length field or is a bare marker,
   which holds for every parsed JPEG ([c08_jpeg_valid_len_ok]) *)
Theorem c08_jpeg_region :
  forall l b,
    Forall jseg_ok (strip jpeg_format l) -> jadm b -> Forall jseg_len_ok (strip jpeg_format l) ->
    exists acc,
      jpeg_loc_segs (gwrite jpeg_format l b)
      = ROk (acc ++ [(N.of_nat (2 + goff jpeg_format l), N.of_nat (glen jpeg_format b), KCai)])
      /\ Forall (fun r => (fst (fst r) + snd (fst r) <= N.of_nat (2 + goff jpeg_format l)
                          \/ N.of_nat (2 + goff jpeg_format l + glen jpeg_format b) <= fst (fst r))%N) acc.
Proof. exact jpeg_region_written. Qed.

Theorem c08_jpeg_valid_len_ok : forall l, jwf l -> Forall jseg_len_ok (strip jpeg_format l).
Proof. intros l H. exact (strip_len_ok l (jwf_len_ok l H)). Qed.

(* GIF: [Other 0..off-1; Cai off..off+ln; Other rest] *)
Theorem c08_gif_region :
  forall bs b plen total,
    let off := (plen + N.of_nat (goff gif_format bs))%N in
    let ln := N.of_nat (glen gif_format b) in
    gif_loc_blocks plen (gwrite gif_format bs b) total
    = [(0%N, (off - 1)%N, KOther); (off, ln, KCai); ((off + ln)%N, (total - (off + ln))%N, KOther)].
Proof. exact gif_loc_written. Qed.

(* ---- 3. the former F-JPEG-NOLEN witness ---- *)
(* a parameterless marker (TEM) in front of the manifest: encoded in 4 bytes, and since fix d67d17dcd counted
   as 4: the handler reports offset 15, where the manifest starts in the written file *)
Theorem c08_jpeg_nolen_fixed :
  let w := gwrite jpeg_format nolen_asset nolen_store in
  jpeg_write_segs nolen_asset nolen_store = ROk w
  /\ (exists acc, jpeg_loc_segs w = ROk (acc ++ [(15%N, 36%N, KCai)]))
  /\ (2 + goff jpeg_format nolen_asset = 15)%nat.
Proof. exact jpeg_nolen_fixed. Qed.

(* the model computes a non-trivial case: two equal-length stores in a tiny JPEG differ only inside the region *)
Example c08_example_jpeg :
  let a := [255;216; 255;224;0;7;74;70;73;70;0; 255;218;0;4;1;2; 3;4;255;217]%N in
  exists w1 w2, jpeg_write a (gen_store 40 1) = ROk w1 /\ jpeg_write a (gen_store 40 2) = ROk w2
                /\ length w1 = length w2 /\ firstn 11 w1 = firstn 11 w2 /\ skipn 63 w1 = skipn 63 w2
                /\ jpeg_locations w1 = ROk [(2, 9, KOther); (63, 10, KOther); (11, 52, KCai)]%N.
Proof. vm_compute. eexists; eexists. repeat split; reflexivity. Qed.
