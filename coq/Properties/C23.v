(* Properties/C23.v — Cancellation is always reported as cancellation.
   Statements only.  Model: Model/Progress.v (language of checkpoints / `?` / loops / "log and continue"
   catch sites / verify_store_strict, and the read, sign and ingredient pipelines as terms of it).
   [current_flags] (Generated/C23_facts.v) is regenerated from the source on every run: for each of the
   three catch sites it says whether the arm re-raises Error::OperationCancelled. *)
From Coq Require Import List NArith Bool Lia.
From C2PA Require Import Model.Progress Proofs.ProgressProofs Generated.C23_facts.
Import ListNotations.
Local Open Scope nat_scope.

(* For every term in which every catch site passes the cancellation on, every callback answer function and
   every cancel-flag schedule: if cancellation was requested at any callback that was made (the callback
   returned false, or the flag was found set by the check after it), the outcome is the cancellation
   error — not success, not another error, and nothing is logged in its place. *)
Theorem c23_cancel_propagates :
  forall o, all_pass o = true ->
  forall e i tr lg r, run e o i = (tr, lg, r) ->
    Exists (fun t => requested e (t_idx t) = true) tr -> r = RCancel.
Proof. exact cancel_propagates. Qed.

(* ... and it is returned at the first such callback: no callback is made after the request *)
Theorem c23_cancel_is_immediate :
  forall o, all_pass o = true ->
  forall e i tr lg r, run e o i = (tr, lg, r) -> r = RCancel ->
    exists tr0 t, tr = tr0 ++ [t] /\ quiet e tr0 /\ requested e (t_idx t) = true.
Proof. exact cancel_is_immediate. Qed.

(* every callback index k of the uncancelled run, for both ways of cancelling: the run ends with the
   cancellation error after exactly the first k callbacks of the uncancelled run *)
Theorem c23_cancel_at_every_k :
  forall o, all_pass o = true ->
  forall tr lg r, run never o 0 = (tr, lg, r) ->
  forall k, 1 <= k <= length tr ->
    (exists lg', run (cb_false_at k) o 0 = (firstn k tr, lg', RCancel)) /\
    (exists lg', run (flag_from k) o 0 = (firstn k tr, lg', RCancel)).
Proof. exact cancel_at_every_k. Qed.

(* no spurious cancellation, for every term (including the ones that swallow) *)
Theorem c23_cancel_only_on_request :
  forall o e i tr lg, run e o i = (tr, lg, RCancel) ->
    exists tr0 t, tr = tr0 ++ [t] /\ requested e (t_idx t) = true.
Proof. exact cancel_only_on_request. Qed.

(* the transcribed pipelines satisfy the hypothesis of the theorems above as soon as the catch sites they
   contain re-raise the cancellation (all shapes: any ingredient tree, any hashing shape, any OCSP count) *)
Theorem c23_read_pipeline_ok :
  forall f remote v, hash_arms_pass f = true -> ocsp_fetch_pass f = true ->
    all_pass (read_stream f remote v) = true /\ all_pass (read_sidecar f v) = true.
Proof. intros. split; [apply read_stream_pass | apply verify_store_pass]; auto. Qed.

Theorem c23_sign_pipeline_ok :
  forall f s h v, hash_arms_pass f = true -> ocsp_fetch_pass f = true ->
    all_pass (sign_stream f s) = true /\ all_pass (sign_embeddable f h v) = true.
Proof. intros. split; [apply sign_stream_pass | apply sign_embeddable_pass]; auto. Qed.

Theorem c23_ingredient_pipeline_ok :
  forall f remote v, all_flags f = true -> all_pass (ingredient_import f remote v) = true.
Proof. exact ingredient_import_pass. Qed.

(* The pipelines with the catch sites as they are in the source today.  Each statement is the full theorem
   when the site re-raises the cancellation and the refutation (a concrete cancelled run that ends in
   success / a validation failure) when it does not; the generated flag selects which one is claimed. *)
Theorem c23_read_current :
  if hash_arms_pass current_flags && ocsp_fetch_pass current_flags
  then forall remote v e tr lg r, run e (read_stream current_flags remote v) 0 = (tr, lg, r) ->
         Exists (fun t => requested e (t_idx t) = true) tr -> r = RCancel
  else (hash_arms_pass current_flags = false ->
          exists k tr lg,
            run (cb_false_at k) (read_stream current_flags false ca_jpg) 0 = (tr, lg, ROk) /\ lg = [CHashMismatch] /\
            length tr = k /\ k = 5 /\
            run (flag_from 6) (read_stream current_flags false ca_jpg) 0
              = (fst (fst (run never (read_stream current_flags false ca_jpg) 0)), [CHashMismatch], ROk))
       /\ (ocsp_fetch_pass current_flags = false ->
          exists tr lg, run (cb_false_at 3) (read_stream current_flags false (VS (1, 1%N) [] None)) 0 = (tr, lg, ROk)
                        /\ lg = [COcspInaccessible] /\ length tr = 4).
Proof. exact (read_status current_flags). Qed.

(* the refutation on its own, as long as the three arms of verify_hash_binding do not re-raise the cancellation
   (the hypothesis is a generated fact, true of the source today; once the fix is applied this statement is
   void and [c23_read_current] above is the full theorem) *)
Theorem c23_read_cancel_propagates_refuted :
  hash_arms_pass current_flags = false ->
  exists k tr lg,
    run (cb_false_at k) (read_stream current_flags false ca_jpg) 0 = (tr, lg, ROk) /\ lg = [CHashMismatch] /\
    length tr = k /\ k = 5 /\
    run (flag_from 6) (read_stream current_flags false ca_jpg) 0
      = (fst (fst (run never (read_stream current_flags false ca_jpg) 0)), [CHashMismatch], ROk).
Proof. exact (read_refuted current_flags). Qed.

Theorem c23_sign_current :
  if hash_arms_pass current_flags && ocsp_fetch_pass current_flags
  then forall s e tr lg r, run e (sign_stream current_flags s) 0 = (tr, lg, r) ->
         Exists (fun t => requested e (t_idx t) = true) tr -> r = RCancel
  else hash_arms_pass current_flags = false ->
         exists tr lg, run (cb_false_at 10) (sign_stream current_flags sign_c_jpg) 0 = (tr, lg, RErr CInvalidManifest)
                       /\ length tr = 10.
Proof. exact (sign_status current_flags). Qed.

Theorem c23_ingredient_current :
  if all_flags current_flags
  then forall remote v e tr lg r, run e (ingredient_import current_flags remote v) 0 = (tr, lg, r) ->
         Exists (fun t => requested e (t_idx t) = true) tr -> r = RCancel
  else ingredient_status_pass current_flags = false ->
         forall k, 2 <= k <= 6 ->
         exists tr lg, run (cb_false_at k) (ingredient_import current_flags false ca_jpg) 0 = (tr, lg, ROk) /\ length tr = k.
Proof. exact (ingredient_status current_flags). Qed.

(* With the hash-binding arms and the ingredient status arm passing the cancellation on (both true of the source
   since fixes be69ddecd / d3943bcaa; generated facts), every read, sidecar/fragment read, ingredient import, sign
   and embeddable sign that issues no OCSP fetch (any ingredient tree and hashing shape) ends with the cancellation
   error whenever cancellation was requested at a callback that was made — whatever the still-open OCSP site
   (F-CANCEL-OCSP) does, because it is never entered. *)
Theorem c23_current_without_ocsp_fetch :
  if hash_arms_pass current_flags && ingredient_status_pass current_flags
  then forall o,
    (exists remote v, vshape_ocsp_free v = true /\
        (o = read_stream current_flags remote v \/ o = read_sidecar current_flags v \/ o = ingredient_import current_flags remote v)) \/
    (exists s, opt_free (s_verify s) = true /\ o = sign_stream current_flags s) \/
    (exists h v, opt_free v = true /\ o = sign_embeddable current_flags h v) ->
    forall e tr lg r, run e o 0 = (tr, lg, r) ->
      Exists (fun t => requested e (t_idx t) = true) tr -> r = RCancel
  else True.
Proof. exact (no_ocsp_status current_flags). Qed.

(* step / total: a loop of n checkpoints numbered start+1 .. start+n against a total that is 0 or at least
   start+n yields positive steps, none above a non-zero total, strictly increasing *)
Theorem c23_steps_loop :
  forall e ph start n total i tr lg r,
    run e (Loop ph start n total) i = (tr, lg, r) ->
    (total = 0 \/ start + N.of_nat n <= total)%N -> trace_ok tr = true.
Proof. exact loop_trace_ok. Qed.

(* partial: for whole pipelines the step/total predicate is checked on the implementation's traces by the
   oracle of ./check, not proved; it is false of hashing phases made of several inner calls that each
   restart at 1 (box hashing), which the implementation reproduces (known finding F-STEP-BOXHASH) *)
Theorem c23_steps_pipelines_partial_boxhash_refuted :
  exists tr lg, run never (hash_ticks Hashing (false, [(1, 1%N); (1, 1%N)])) 0 = (tr, lg, ROk)
                /\ trace_ok tr = false.
Proof. exact boxhash_steps_refuted. Qed.

(* non-vacuity: the read pipeline of CA.jpg with all sites passing makes 6 callbacks; cancelling at the 5th
   gives the cancellation error after 5 callbacks *)
Example c23_example :
  let f := CF true true true in
  all_pass (read_stream f false ca_jpg) = true /\
  show (run never (read_stream f false ca_jpg) 0)
  = ([(Reading, 1, 1); (VerifyingManifest, 1, 1); (VerifyingSignature, 1, 1); (VerifyingIngredient, 1, 1);
      (VerifyingAssetHash, 1, 2); (VerifyingAssetHash, 2, 2)]%N, [], ROk) /\
  snd (run (cb_false_at 5) (read_stream f false ca_jpg) 0) = RCancel /\
  length (fst (fst (run (cb_false_at 5) (read_stream f false ca_jpg) 0))) = 5.
Proof. vm_compute. repeat split. Qed.
