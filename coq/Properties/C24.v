(* Properties/C24.v — contexts are isolated and safe to share across threads.
   Statements only; every theorem is closed by [exact] of a lemma in Proofs/ContextsProofs.v or by computation
   over the generated facts.
   Model: Model/Contexts.v — contexts {settings; cancel flag; write-once cells} indexed by identifiers, one legacy
   settings value per thread, atomic steps Cancel / Check / Init / Op / Build / TlsSet / TlsGet / Legacy, a schedule is
   any list of (thread, step).  All operation functions are arbitrary (universally quantified).
   ASSUMED (Rust's memory model, not proved here): each step is atomic — `AtomicBool` store/load with
   Release/Acquire, `OnceLock::get_or_init` runs its initialiser exactly once — and `Send`/`Sync` exclude data races
   on everything else reachable from `&Context`.  Tie to the source: Generated/C24_facts.v (theorems 7-9). *)
From Coq Require Import List Bool Arith String.
From C2PA Require Import Model.Contexts Proofs.ContextsProofs Generated.C24_facts.
Import ListNotations.

Section C24.
  Variables S I R V T : Type.
  Variable opf : S -> I -> bool -> R.
  Variable mk : bool -> S -> V.
  Variable bf : I -> R.
  Variable tmerge : T -> I -> T.
  Variable tread : T -> I -> R.
  Notation step := (step S I R V T opf mk bf tmerge tread).
  Notation run := (run S I R V T opf mk bf tmerge tread).

  (* 1. non-interference: a step leaves every other context and every other thread's legacy settings unchanged, and
        its result depends on its own context and its own thread's value only *)
  Theorem c24_noninterference_frame :
    forall w e,
      (forall c, target _ (snd e) <> Some c -> ctxs _ _ _ (fst (step w e)) c = ctxs _ _ _ w c)
      /\ (forall t, t <> fst e -> tls _ _ _ (fst (step w e)) t = tls _ _ _ w t)
      /\ (forall w', (forall c, target _ (snd e) = Some c -> ctxs _ _ _ w c = ctxs _ _ _ w' c) ->
                     tls _ _ _ w (fst e) = tls _ _ _ w' (fst e) -> snd (step w e) = snd (step w' e)).
  Proof.
    intros w e. split; [|split].
    - intros c. apply step_frame_ctx.
    - intros t. apply step_frame_tls.
    - intros w'. apply step_result_local.
  Qed.

  (* 1'. steps of different threads on different contexts commute *)
  Theorem c24_noninterference_commute :
    forall w e1 e2, indep _ e1 e2 ->
      (forall c, ctxs _ _ _ (fst (step (fst (step w e1)) e2)) c = ctxs _ _ _ (fst (step (fst (step w e2)) e1)) c)
      /\ (forall t, tls _ _ _ (fst (step (fst (step w e1)) e2)) t = tls _ _ _ (fst (step (fst (step w e2)) e1)) t)
      /\ snd (step (fst (step w e1)) e2) = snd (step w e2)
      /\ snd (step (fst (step w e2)) e1) = snd (step w e1).
  Proof. intros w e1 e2 H. exact (step_commute S I R V T opf mk bf tmerge tread w e1 e2 H). Qed.

  (* 2. linearizability: in any schedule without cancellation every thread obtains, operation by operation, the
        results of running its own program alone from the same initial world; hence all interleavings agree *)
  Theorem c24_linearizable :
    forall w s t, no_cancel _ s ->
      results_of _ _ _ _ t s (snd (run w s)) = snd (run w (proj _ t s)).
  Proof. exact (linearizable S I R V T opf mk bf tmerge tread). Qed.

  Theorem c24_interleavings_agree :
    forall w s1 s2 t, no_cancel _ s1 -> no_cancel _ s2 -> proj _ t s1 = proj _ t s2 ->
      results_of _ _ _ _ t s1 (snd (run w s1)) = results_of _ _ _ _ t s2 (snd (run w s2)).
  Proof. exact (interleavings_agree S I R V T opf mk bf tmerge tread). Qed.

  (* 3. cancellation is per context: other threads may cancel any context that thread t does not use (U = the
        contexts t uses), may operate on the contexts t does use, initialise their cells, write their own legacy
        settings — t's results are those of running alone *)
  Theorem c24_cancel_isolated :
    forall w s t (U : nat -> Prop),
      (forall e, In e s -> fst e = t -> forall c, target _ (snd e) = Some c -> U c) ->
      (forall e, In e s -> fst e <> t -> forall c, snd e = Cancel _ c -> ~ U c) ->
      results_of _ _ _ _ t s (snd (run w s)) = snd (run w (proj _ t s)).
  Proof. exact (cancel_isolated S I R V T opf mk bf tmerge tread). Qed.

  (* 4. write-once cells: under any schedule a cell is initialised at most once, to the value computed from the
        context's own settings, and never changes afterwards; settings never change *)
  Theorem c24_once :
    forall s w c k, once_rel S V mk (ctxs _ _ _ w c) (ctxs _ _ _ (fst (run w s)) c) k.
  Proof. exact (write_once S I R V T opf mk bf tmerge tread). Qed.

  Theorem c24_initialised_at_most_once :
    forall s w c k, cells _ _ (ctxs _ _ _ w c) k = None -> inits _ _ (ctxs _ _ _ w c) k = 0 ->
                    inits _ _ (ctxs _ _ _ (fst (run w s)) c) k <= 1.
  Proof. exact (initialised_at_most_once S I R V T opf mk bf tmerge tread). Qed.

  (* 5. the settings-builder API touches neither a context nor any thread-local value, and its result does not
        depend on the world; a thread's legacy value changes only by that thread's own legacy writes *)
  Theorem c24_builder_no_tls :
    forall w w' t t' i,
      step w (t, Build _ i) = (w, RRes _ _ _ (bf i)) /\ snd (step w (t, Build _ i)) = snd (step w' (t', Build _ i)).
  Proof. exact (build_pure S I R V T opf mk bf tmerge tread). Qed.

  Theorem c24_tls_untouched :
    forall s w t, (forall e i, In e s -> fst e = t -> snd e <> TlsSet _ i) ->
                  tls _ _ _ (fst (run w s)) t = tls _ _ _ w t.
  Proof. exact (tls_untouched S I R V T opf mk bf tmerge tread). Qed.

  (* 6. the cancel flag of a context only ever goes up, and only by a Cancel of that very context *)
  Theorem c24_cancel_monotone :
    forall w e c, cancelled _ _ (ctxs _ _ _ (fst (step w e)) c) = cancelled _ _ (ctxs _ _ _ w c) || is_cancel_of _ c (snd e).
  Proof. exact (step_cancel_monotone S I R V T opf mk bf tmerge tread). Qed.
End C24.

(* ---- tie to the source (finite facts regenerated on every run, decided by computation) ---- *)

Definition allowed_footprint (fp : list string) : bool :=
  match fp with
  | [] => true
  | [x] => String.eqb x "once_init" || String.eqb x "flag_set"
  | _ => false
  end.

(* 7. every `&self` method of Context (the only ones reachable through Arc<Context>) either writes nothing, or
      initialises a write-once cell, or sets the flag; only `cancel` sets the flag and nothing resets it; the only
      interior-mutable fields are the flag and the OnceLock cells; cell initialisers read the context's own settings *)
Theorem c24_shared_api_footprint :
  forallb (fun m => allowed_footprint (snd m)) shared_methods = true
  /\ map fst (filter (fun m => existsb (String.eqb "flag_set") (snd m)) shared_methods) = ["cancel"%string]
  /\ cancel_flag_resets = 0
  /\ cell_initialisers_use_own_settings_only = true
  /\ forallb (fun p => String.eqb (snd p) "OnceLock" || (String.eqb (snd p) "AtomicBool" && String.eqb (fst p) "cancel_flag")) context_interior = true.
Proof. vm_compute. repeat split. Qed.

(* 8. no function of the settings-builder API mentions a thread-local accessor *)
Theorem c24_builder_api_no_tls_source :
  forallb (fun p => negb (snd p)) settings_builder_api = true /\ settings_builder_api <> [].
Proof. vm_compute. split; [reflexivity | discriminate]. Qed.

(* 9. no unmodelled shared mutable state: every process-global cell of the SDK is initialise-once
      (lazy / once) except the thread-local SETTINGS *)
Theorem c24_global_state_inventory :
  forallb (fun c => String.eqb (snd c) "lazy" || String.eqb (snd c) "once"
                    || (String.eqb (snd c) "tls_mut" && String.eqb (fst c) "SETTINGS")) global_cells = true.
Proof. vm_compute. reflexivity. Qed.

(* the model computes a non-trivial schedule: two threads share context 0, thread 1 also uses context 1 and cancels
   it; thread 0's results are those of its own program alone; the signer cell of context 0 is initialised once *)
Example c24_example :
  let opf := fun (s : nat) (i : nat) (f : bool) => (s, i, f) in
  let mk := fun (k : bool) (s : nat) => (k, s) in
  let w0 := W nat (bool * nat) nat (fun c => CX nat (bool * nat) (10 + c) false (fun _ => None) (fun _ => 0)) (fun _ => 0) in
  let s := [(0, Op nat 0 7 true); (1, Cancel nat 1); (1, Op nat 0 8 true); (0, Init nat 0 true); (1, Op nat 1 9 false);
            (1, TlsSet nat 5); (0, TlsGet nat); (0, Build nat 3)] in
  let r := run nat nat (nat * nat * bool) (bool * nat) nat opf mk (fun i => (0, i, false)) (fun t i => t + i) (fun t i => (t, i, false)) w0 s in
  results_of _ _ _ _ 0 s (snd r)
  = [RRes _ _ _ (10, 7, false); RCell _ _ _ (true, 10); RTls _ _ _ 0; RRes _ _ _ (0, 3, false)]
  /\ results_of _ _ _ _ 1 s (snd r) = [RUnit _ _ _; RRes _ _ _ (10, 8, false); RRes _ _ _ (11, 9, true); RUnit _ _ _]
  /\ inits _ _ (ctxs _ _ _ (fst r) 0) true = 1.
Proof. vm_compute. repeat split. Qed.
