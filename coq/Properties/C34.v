(* Properties/C34.v — JUMBF URIs and manifest labels parse back to their parts.
   Statements only; every theorem is closed by [exact] of a lemma in Proofs/Labels*.v.
   Model: Model/Labels.v (sdk/src/jumbf/labels.rs, Claim::label_with_instance / assertion_label_from_link),
   on UTF-8 byte strings; the box-label constants are regenerated from the sources (Generated/C34_facts.v).

   Vocabulary:
     no c s        the byte c does not occur in s              nosep s   no ':' and no '/' in s
     clean s       no '/' and no '=' in s                      U m segs  "self#jumbf=/c2pa/" m "/" seg1 "/" seg2 ...
     wf_parts p    the parts the SDK can generate:
                     v1  [vendor:]urn:uuid:guid                 (no version, no reason; vendor is not "urn")
                     v2  urn:c2pa:guid[:vendor][:version[_reason]]  (vendor non-empty, <= 32 ASCII bytes, one
                         white-space-free token; reason only with a version; numbers below 2^64)
                   with guid and vendor free of ':' and '/'
     plain l       assertion label without "__", not ending in '_', not an ingredient thumbnail label
     thumb_label t "c2pa.thumbnail.ingredient" or "c2pa.thumbnail.ingredient.<t>" *)
From Coq Require Import List NArith Bool String.
From C2PA Require Import Base.Bytes Model.ByteStr Generated.C34_facts Model.Labels
     Proofs.ByteStrProofs Proofs.LabelsProofs Proofs.LabelsUriProofs Proofs.LabelsInstProofs.
Import ListNotations.
Open Scope N_scope.

(* the constants the statements are about *)
Theorem c34_constants_pinned :
  JUMBF_PREFIX = b "self#jumbf" /\ MANIFEST_STORE = b "c2pa" /\ ASSERTIONS = b "c2pa.assertions"
  /\ SIGNATURE = b "c2pa.signature" /\ DATABOXES = b "c2pa.databoxes" /\ CREDENTIALS = b "c2pa.credentials"
  /\ INGREDIENT_THUMBNAIL = b "c2pa.thumbnail.ingredient" /\ VENDOR_MAX = 32.
Proof. repeat split. Qed.

(* label built from its parts parses back to the same parts, for every well-formed parts record *)
Theorem c34_parts_roundtrip :
  forall p, wf_parts p -> manifest_label_to_parts (show_parts p) = Some p.
Proof. exact parts_roundtrip. Qed.

(* no side condition of wf_parts can be dropped: a counter-example for each *)
Theorem c34_parts_side_conditions_necessary :
  let bad p := manifest_label_to_parts (show_parts p) <> Some p in
  bad (MP (b "a:b") false None None None) /\ bad (MP (b "x/c2pa/y") false None None None)
  /\ bad (MP (b "g") true (Some (b "urn")) None None) /\ bad (MP (b "g") true (Some (b "a:b")) None None)
  /\ bad (MP (b "g") true (Some (b "x/c2pa/y")) None None)
  /\ bad (MP (b "g") true None (Some 1) None) /\ bad (MP (b "g") true None None (Some 1))
  /\ bad (MP (b "g") false (Some []) None None) /\ bad (MP (b "g") false (Some (b "a b")) None None)
  /\ bad (MP (b "g") false (Some x33) None None) /\ bad (MP (b "g") false (Some [195; 169]) None None)
  /\ bad (MP (b "g") false (Some (b "a:b")) None None) /\ bad (MP (b "g") false (Some (b "x/c2pa/y")) None None)
  /\ bad (MP (b "g") false None None (Some 1)) /\ bad (MP (b "g") false None (Some USIZE) None).
Proof. exact parts_side_conditions_necessary. Qed.

(* every URI built below a manifest yields back the manifest label (manifest, assertion, signature, data box,
   credential URIs are the instances segs = [], [ASSERTIONS; a], [SIGNATURE], [DATABOXES; d], [CREDENTIALS; v]) *)
Theorem c34_uri_manifest_roundtrip :
  forall m segs, clean m -> Forall clean segs -> manifest_label_from_uri (U m segs) = Some m.
Proof. exact manifest_from_U. Qed.
Theorem c34_uri_builders :
  forall m a, to_manifest_uri m = U m [] /\ to_assertion_uri m a = U m [ASSERTIONS; a] /\ to_signature_uri m = U m [SIGNATURE]
              /\ to_databox_uri m a = U m [DATABOXES; a] /\ to_verifiable_credential_uri m a = U m [CREDENTIALS; a].
Proof. intros m a. exact (conj (U_manifest m) (conj (U_assertion m a) (conj (U_signature m) (conj (U_databox m a) (U_credential m a))))). Qed.

(* ... and the assertion / data box label *)
Theorem c34_uri_assertion_roundtrip :
  forall m a, clean m -> clean a ->
    assertion_label_from_uri (to_assertion_uri m a) = Some a /\ assertion_label_from_uri (to_databox_uri m a) = Some a.
Proof. exact assertion_roundtrip. Qed.

(* relative / absolute conversions *)
Theorem c34_relative_absolute :
  forall m bx a, clean m -> clean a -> In bx [ASSERTIONS; DATABOXES; CREDENTIALS] ->
    to_relative_uri (U m [bx; a]) = JUMBF_PREFIX ++ [61] ++ bx ++ [47] ++ a
    /\ to_absolute_uri m (to_relative_uri (U m [bx; a])) = U m [bx; a].
Proof. exact relative_absolute_full. Qed.
Theorem c34_absolute_is_fixed :
  forall m' m segs, clean m -> Forall clean segs -> to_absolute_uri m' (U m segs) = U m segs.
Proof. exact absolute_of_U. Qed.
(* the manifest URI itself and URIs of its direct children (the signature box) are returned unchanged *)
Theorem c34_relative_short_unchanged :
  forall m segs, clean m -> Forall clean segs -> (List.length segs <= 1)%nat -> to_relative_uri (U m segs) = U m segs.
Proof. exact relative_of_short. Qed.

(* '/' and '=' in a label are cut off; a box called "c2pa" below a manifest does not survive relative->absolute *)
Theorem c34_uri_side_conditions_necessary :
  manifest_label_from_uri (to_manifest_uri (b "a/b")) <> Some (b "a/b")
  /\ manifest_label_from_uri (to_manifest_uri (b "a=b")) <> Some (b "a=b")
  /\ assertion_label_from_uri (to_assertion_uri (b "m") (b "a/b")) <> Some (b "a/b")
  /\ assertion_label_from_uri (to_assertion_uri (b "m") (b "a=b")) <> Some (b "a=b")
  /\ to_absolute_uri (b "m") (to_relative_uri (U (b "m") [b "c2pa"; b "x"; b "y"])) <> U (b "m") [b "c2pa"; b "x"; b "y"].
Proof. exact uri_side_conditions_necessary. Qed.

(* assertion labels with instance numbers: written bare or inside an assertion URI, they read back *)
Theorem c34_instance_roundtrip :
  forall l n, clean l -> plain l -> n < USIZE ->
    assertion_label_from_link (label_with_instance l n) = (l, n)
    /\ forall m, clean m -> assertion_label_from_link (to_assertion_uri m (label_with_instance l n)) = (l, n).
Proof. exact instance_roundtrip_plain. Qed.
Theorem c34_instance_roundtrip_thumbnail :
  forall t n, match t with Some t' => wf_image_type t' /\ clean t' | None => True end -> n < USIZE ->
    assertion_label_from_link (label_with_instance (thumb_label t) n) = (thumb_label t, n)
    /\ forall m, clean m -> assertion_label_from_link (to_assertion_uri m (label_with_instance (thumb_label t) n)) = (thumb_label t, n).
Proof. exact instance_roundtrip_thumb. Qed.
Theorem c34_instance_side_conditions_necessary :
  assertion_label_from_link (label_with_instance (b "a_") 5) <> (b "a_", 5)
  /\ assertion_label_from_link (label_with_instance (b "a__b") 5) <> (b "a__b", 5)
  /\ assertion_label_from_link (label_with_instance (b "a__7") 0) <> (b "a__7", 0)
  /\ assertion_label_from_link (label_with_instance (b "a/b") 1) <> (b "a/b", 1)
  /\ assertion_label_from_link (label_with_instance (b "a=b") 1) <> (b "a=b", 1)
  /\ assertion_label_from_link (label_with_instance (b "c2pa.thumbnail.ingredient_1.jpg") 2) <> (b "c2pa.thumbnail.ingredient_1.jpg", 2)
  /\ assertion_label_from_link (label_with_instance (b "c2pa.thumbnail.ingredient.JPEG") 2) <> (b "c2pa.thumbnail.ingredient.JPEG", 2)
  /\ assertion_label_from_link (label_with_instance (b "c2pa.thumbnail.ingredient.a.b") 2) <> (b "c2pa.thumbnail.ingredient.a.b", 2).
Proof. exact instance_side_conditions_necessary. Qed.

(* decimal rendering and parsing of usize, used by versions, reasons and instance numbers *)
Theorem c34_usize_roundtrip : forall n, n < USIZE -> parse_usize (show_usize n) = Some n.
Proof. exact parse_show_usize. Qed.

(* non-vacuity: a fully populated v2 label and a v1 vendor label satisfy wf_parts and round-trip by computation *)
Example c34_example :
  let p2 := MP (b "3fad1ead-8ed5-44d0-873b-ea5f58adea82") false (Some (b "acme")) (Some 2) (Some 18446744073709551615) in
  let p1 := MP (b "3fad1ead-8ed5-44d0-873b-ea5f58adea82") true (Some (b "acme")) None None in
  wf_parts p2 /\ wf_parts p1
  /\ show_parts p2 = b "urn:c2pa:3fad1ead-8ed5-44d0-873b-ea5f58adea82:acme:2_18446744073709551615"
  /\ manifest_label_to_parts (to_assertion_uri (show_parts p1) (b "c2pa.actions__2")) = Some p1
  /\ assertion_label_from_link (to_assertion_uri (show_parts p1) (label_with_instance (b "c2pa.actions") 2)) = (b "c2pa.actions", 2).
Proof. exact labels_example. Qed.
