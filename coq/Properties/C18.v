(* Properties/C18.v — JUMBF manifest stores round-trip canonically (box layer).
   Statements only; every theorem is closed by [exact] of a lemma in Proofs/JumbfProofs.v or Proofs/JumbfDecoded.v.

   Model/Jumbf.v: [enc] = BMFFBox::write_box of a box tree, [decode] = BoxReader::read_super_box on a whole buffer
   (fuel = length of the input + 1).  [wf_root t]: t is a superbox, [shape t] (the writer/reader-canonical form:
   description boxes whose optional fields agree with their toggles, no empty superbox, no uuid box without data,
   canonical embedded-file descriptions), box_size t < 2^32 and nesting <= MAX_JUMB_DEPTH (generated from the source).

   Partial overall: the theorems are about the box layer with every box kind the SDK reads or writes
   (jumb/jumd/c2sh/json/cbor/free/jp2c/brob/uuid/bfdb/bidb).  The Store layer (claim CBOR, assertion re-serialisation,
   box order) is covered by the run only.  Brotli is a pair of functions with decompress (compress x) = Some x. *)
From Coq Require Import List NArith Bool Lia.
From C2PA Require Import Base.Bytes Generated.C18_facts Model.Jumbf Proofs.JumbfProofs Proofs.JumbfDecoded.
Import ListNotations.
Open Scope N_scope.

(* serialising a well-formed tree and parsing it back gives the same tree, for every tree (induction on the tree) *)
Theorem c18_decode_encode : forall t, wf_root t -> decode (enc t) = Ok t.
Proof. exact decode_encode. Qed.

(* hence it re-serialises to identical bytes *)
Theorem c18_reserialise_identical : forall t, wf_root t -> exists t', decode (enc t) = Ok t' /\ enc t' = enc t.
Proof. intros t H. exists t. split; [exact (decode_encode t H) | reflexivity]. Qed.

(* the serialisation is canonical: different well-formed trees have different bytes *)
Theorem c18_encode_injective : forall t1 t2, wf_root t1 -> wf_root t2 -> enc t1 = enc t2 -> t1 = t2.
Proof. exact enc_injective. Qed.

(* whatever byte string the parser accepts, the tree it returns is a superbox whose description boxes are
   well-formed (toggles agree with the optional fields, label valid UTF-8 without NUL, 16-byte uuids, 32-byte
   signatures) and whose nesting respects the depth limit *)
Theorem c18_decoded_wf :
  forall b t, bytes_ok b -> decode b = Ok t -> is_super t = true /\ decoded_ok t = true /\ height t <= MAX_JUMB_DEPTH.
Proof. exact decoded_wf. Qed.

(* fixed point: for any accepted byte string, re-serialising the parsed tree and parsing again returns the same tree,
   outside the three known shapes ([canonical t = false]) and below 4 GiB *)
Theorem c18_fixed_point :
  forall b t, bytes_ok b -> decode b = Ok t -> canonical t = true -> box_size t < U32 -> decode (enc t) = Ok t.
Proof. exact fixed_point. Qed.

(* the three known shapes are real (replayed on the implementation by ./check: corpus/C18.jsonl):
   a uuid box without data and an empty superbox followed by a sibling make the re-serialisation unparseable,
   an embedded-file description with toggles = 1 and an inner NUL grows by one byte on every round trip *)
Theorem c18_fixed_point_refuted :
  (decode w_uuid_bytes = Ok w_uuid_tree /\ canonical w_uuid_tree = false /\ decode (enc w_uuid_tree) = Err EInvalidUuidBox)
  /\ (decode w_empty_bytes = Ok w_empty_tree /\ canonical w_empty_tree = false /\ decode (enc w_empty_tree) = Err EInvalidJumbBox)
  /\ (decode w_bfdb_bytes = Ok w_bfdb_tree /\ canonical w_bfdb_tree = false
      /\ exists t', decode (enc w_bfdb_tree) = Ok t' /\ t' <> w_bfdb_tree /\ enc t' <> enc w_bfdb_tree).
Proof. exact fixed_point_refuted. Qed.

(* compressed manifests: CAIManifest::write_box_payload wraps brotli(enc store) in a c2cm superbox with the same label;
   parsing it and CAIManifest::from return the store, for any codec pair with decompress (compress x) = Some x *)
Theorem c18_compressed_manifest_roundtrip :
  forall (compress : bytes -> bytes) (decompress : bytes -> option bytes),
    (forall x, decompress (compress x) = Some x) ->
    forall d cs, wf_root (Super d cs) ->
      let outer := Super (mkdesc CAI_COMPRESSED_MANIFEST_UUID 3 (d_label d) None None None) [Brob (compress (enc (Super d cs)))] in
      box_size outer < U32 ->
      decode (manifest_write compress true (Super d cs)) = Ok outer
      /\ manifest_from decompress outer = Ok (true, Super d cs).
Proof. exact compressed_roundtrip. Qed.

(* uncompressed manifests: CAIManifest::from clones the superbox by write + read *)
Theorem c18_uncompressed_manifest_clone :
  forall (decompress : bytes -> option bytes) d cs,
    wf_root (Super d cs) -> (forall z rest, cs <> Brob z :: rest) ->
    manifest_from decompress (Super d cs) = Ok (false, Super d cs).
Proof. exact uncompressed_clone. Qed.

(* the writer's four-character codes are the reader's (both generated from the source) *)
Theorem c18_fourcc_agree :
  W_JUMB = T_JUMB /\ W_JUMD = T_JUMD /\ W_FREE = T_FREE /\ W_C2SH = T_C2SH /\ W_JSON = T_JSON /\ W_UUID = T_UUID
  /\ W_JP2C = T_JP2C /\ W_CBOR = T_CBOR /\ W_BFDB = T_BFDB /\ W_BIDB = T_BIDB /\ W_BROB = T_BROB.
Proof. exact W_eq_T. Qed.

(* the hypotheses are satisfiable and the model computes: a manifest-store-like tree with nested superboxes, salt,
   box id, signature, uuid and embedded-file boxes round-trips by evaluation, and is well-formed *)
Definition ex_tree : jbox :=
  Super (mkdesc [99;50;112;97;0;17;0;16;128;0;0;170;0;56;155;113] 3 [99;50;112;97] None None None)
    [Super (mkdesc (repeat 2 16) 31 [195;169] (Some 7) (Some (repeat 9 32)) (Some (repeat 5 16)))
       [Cbor [161;97;97;1]; Uuid (repeat 3 16) [0]; Bfdb 0 [105;109;103] None; Bidb [1;2;3]; Free []];
     Json [123;125]].
Example c18_example :
  wf_root ex_tree /\ decode (enc ex_tree) = Ok ex_tree /\ len (enc ex_tree) = 213 /\ box_report (enc ex_tree) = RepOk ex_tree (enc ex_tree) SameTree.
Proof. repeat split; try (vm_compute; reflexivity); vm_compute; discriminate. Qed.
