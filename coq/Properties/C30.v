(* Properties/C30.v — Remote manifest references round-trip through XMP.
   Statements only; every theorem is closed by [exact] of a lemma in Proofs/XmpAttrProofs.v.
   Model: Model/XmpAttr.v (add_xmp_key / add_provenance / extract_xmp_key / write_xmp_padding and quick-xml's
   escape / unescape; the XML tokenizer is external: documents arrive split around the first rdf:Description tag,
   [scan] is the tokenizer's search in the other segments, [charref] the numeric character references).
   EXTRACT_UNESCAPES is regenerated from the source on every run: false for the code as it stands (finding
   F-XMP-ESC), true once extract_xmp_key unescapes (the proposed repair). *)
From Coq Require Import List NArith Bool String.
From C2PA Require Import Base.Bytes Model.XmpAttr Proofs.XmpAttrProofs Generated.C30_facts.
Import ListNotations.
Open Scope string_scope.
Open Scope list_scope.
Open Scope N_scope.

(* the algebra the repair rests on: unescape inverts escape on every byte string *)
Theorem c30_unescape_escape : forall charref v, unescape charref (escape v) = Some v.
Proof. exact unescape_escape. Qed.

(* round trip for the code as the source currently has it: every value once extraction unescapes, and the values
   without XML special characters (ampersand, angle brackets, both quotes) while it returns the raw attribute bytes *)
Theorem c30_roundtrip_as_coded :
  forall charref scan d k v attrs e,
    desc d = Some (attrs, e) -> has_dup (map fst attrs) = false -> no_panic d -> scan k (pre d) = None ->
    EXTRACT_UNESCAPES = true \/ no_special v ->
    exists out d', add_xmp_key d k v = XOk out d' /\ extract_xmp_key charref scan EXTRACT_UNESCAPES d' k = Some v.
Proof. intros charref scan. exact (roundtrip_flag charref scan EXTRACT_UNESCAPES). Qed.

(* add_provenance + extract_provenance, same condition; the dcterms namespace is declared and every other
   attribute keeps its raw value *)
Theorem c30_provenance_roundtrip_as_coded :
  forall charref scan d v attrs e,
    desc d = Some (attrs, e) -> has_dup (map fst attrs) = false -> no_panic d -> scan PROVENANCE (pre d) = None ->
    EXTRACT_UNESCAPES = true \/ no_special v ->
    exists out d', add_provenance d v = XOk out d' /\ extract_provenance charref scan EXTRACT_UNESCAPES d' = Some v
                   /\ exists attrs', desc d' = Some (attrs', e) /\ find_attr XMLNS_DCTERMS attrs' = Some DCTERMS_URI
                                     /\ forall k', k' <> PROVENANCE -> k' <> XMLNS_DCTERMS -> find_attr k' attrs' = find_attr k' attrs.
Proof. intros charref scan. exact (provenance_roundtrip charref scan EXTRACT_UNESCAPES). Qed.

(* ready for the repair: with an unescaping extraction the round trip holds for every value *)
Theorem c30_roundtrip_fixed :
  forall charref scan d k v attrs e,
    desc d = Some (attrs, e) -> has_dup (map fst attrs) = false -> no_panic d -> scan k (pre d) = None ->
    exists out d', add_xmp_key d k v = XOk out d' /\ extract_xmp_key charref scan true d' k = Some v.
Proof. exact roundtrip_fixed. Qed.

(* the raw extraction returns the escaped spelling: it equals the embedded value exactly when the value has no
   special character *)
Theorem c30_roundtrip_raw_exact :
  forall charref scan d k v attrs e,
    desc d = Some (attrs, e) -> has_dup (map fst attrs) = false -> no_panic d -> scan k (pre d) = None ->
    exists out d', add_xmp_key d k v = XOk out d' /\ extract_xmp_key charref scan false d' k = Some (escape v)
                   /\ (extract_xmp_key charref scan false d' k = Some v <-> no_special v).
Proof. exact roundtrip_raw_exact. Qed.

(* F-XMP-ESC is real: the witness (MIN_XMP, https://e.com/m?a=1&b=2) evaluated on the model, replayed on the
   implementation by ./check; the unescaping extraction returns the URL *)
Theorem c30_roundtrip_raw_refuted :
  exists out d', add_provenance min_doc amp_url = XOk out d'
                 /\ extract_provenance (fun _ => None) (fun _ _ => None) false d' = Some (str "https://e.com/m?a=1&amp;b=2")
                 /\ extract_provenance (fun _ => None) (fun _ _ => None) false d' <> Some amp_url
                 /\ extract_provenance (fun _ => None) (fun _ _ => None) true d' = Some amp_url.
Proof. exact raw_roundtrip_refuted. Qed.

(* embedding preserves what was there: bytes before and after the element, every other attribute with its raw
   value and position, the way the element is closed *)
Theorem c30_others_preserved :
  forall charref scan d k v attrs e out d',
    desc d = Some (attrs, e) -> has_dup (map fst attrs) = false -> no_panic d ->
    add_xmp_key d k v = XOk out d' ->
    exists attrs',
      desc d' = Some (attrs', e) /\ pre d' = pre d /\
      attrs' = map (repl k v) attrs ++ (if existsb (fun a => beqb (fst a) k) attrs then [] else [(k, escape v)]) /\
      (forall k', k' <> k -> find_attr k' attrs' = find_attr k' attrs) /\
      (forall k', k' <> k -> extract_xmp_key charref scan false d' k' = extract_xmp_key charref scan false d k' \/ post d' <> post d) /\
      exists pad, out = pre d ++ write_elem attrs' e ++ post d ++ pad.
Proof. exact others_preserved. Qed.

(* a rewritten attribute value is delimited by double quotes: the freshly written (escaped) value always reads back,
   an existing raw value reads back when it contains no double quote; F-XMP-QUOTE: one that does (legal between
   single quotes) does not *)
Theorem c30_new_value_delimited :
  forall v rest, read_quoted (34 :: escape v ++ 34 :: rest) = Some (escape v, rest).
Proof. exact read_new_value. Qed.
Theorem c30_existing_value_reread :
  forall raw rest, ~ In 34 raw -> read_quoted (34 :: raw ++ 34 :: rest) = Some (raw, rest).
Proof. exact read_written_value. Qed.
Theorem c30_existing_value_reread_refuted :
  exists raw rest, In 34 raw /\ read_quoted (34 :: raw ++ 34 :: rest) <> Some (raw, rest).
Proof. exact reread_existing_refuted. Qed.

(* packet length: write_xmp_padding(n) writes max(n,1) bytes and the 19-byte trailer, so a packet that had a
   trailer keeps its length whenever the new body fits *)
Theorem c30_padding_len : forall n, len (padding n) = N.max n 1 + 19.
Proof. exact padding_len. Qed.
Theorem c30_packet_length_kept :
  forall d k v attrs e out d',
    desc d = Some (attrs, e) -> has_dup (map fst attrs) = false -> no_panic d -> trailer d = true ->
    add_xmp_key d k v = XOk out d' ->
    len (body (pre d) (Some (add_attrs k v attrs, e)) (post d)) + 19 < orig_len d ->
    len out = orig_len d.
Proof. exact packet_length_kept_trailer. Qed.

(* the hypotheses are satisfiable and the model computes a non-trivial case *)
Example c30_example :
  desc min_doc <> None /\ no_panic min_doc /\
  (forall attrs e, desc min_doc = Some (attrs, e) -> has_dup (map fst attrs) = false) /\
  match add_provenance min_doc (str "https://example.com/m.c2pa") with
  | XOk out d' => extract_provenance (fun _ => None) (fun _ _ => None) EXTRACT_UNESCAPES d' = Some (str "https://example.com/m.c2pa")
                  /\ len out = 616
  | _ => False
  end.
Proof.
  split; [vm_compute; discriminate|]. split; [vm_compute; reflexivity|]. split.
  - intros attrs e H. vm_compute in H. injection H as <- _. vm_compute. reflexivity.
  - vm_compute. split; reflexivity.
Qed.
