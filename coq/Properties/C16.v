(* Properties/C16.v — Merkle proofs accept exactly the committed leaves.
   Statements only; every theorem is closed by [exact] of a lemma in Proofs/MerkleProofs.v.
   Model: Model/Merkle.v (to_layout, generate_tree with odd-node promotion, get_proof_by_index, the stored row
   min(max_proofs, depth), MerkleMap::check_merkle_tree with its Some/None playback loops) over an arbitrary binary
   node hash [Hn left right = concat_and_hash(alg, left, Some(right))].  Nothing is assumed about [Hn]: where
   soundness would need collision resistance the conclusion exhibits an explicit collision instead. *)
From Coq Require Import List NArith Bool Arith Lia Sorted.
From C2PA Require Import Base.Bytes Model.Merkle Proofs.MerkleProofs.
Import ListNotations.
Open Scope nat_scope.

(* layer sizes strictly decrease down to 1, and they are the sizes of the generated layers: the checker's test
   `layer == self.hashes.len()` therefore identifies the stored row uniquely *)
Theorem c16_layout_decreasing :
  forall n, StronglySorted (fun a b => b < a) (layout n) /\ (1 <= n -> last (layout n) 0 = 1).
Proof. intro n. split; [apply layout_f_sorted | intro H; apply layout_f_last; [exact H|apply le_n]]. Qed.

Theorem c16_layers_follow_layout :
  forall Hn leaves, map (@length bytes) (gen_tree Hn leaves) = layout (length leaves).
Proof. exact gen_tree_layout. Qed.

(* completeness: every leaf count n >= 1 (implied by i < n), every max-proof depth m, every index i < n:
   the generated proof checks against the stored row, both as Some(proof) and in the form the SDK stores it
   (None when the proof is empty) *)
Theorem c16_complete :
  forall Hn leaves m i,
    i < length leaves ->
    exists p, proof_by_index Hn leaves i m = Some p
      /\ check_merkle_tree Hn (length leaves) (stored_row Hn leaves m) (nth i leaves []) (N.of_nat i) (Some p) = true
      /\ check_merkle_tree Hn (length leaves) (stored_row Hn leaves m) (nth i leaves []) (N.of_nat i) (wrap_proof p) = true.
Proof. exact complete. Qed.

(* soundness of proof playback: whatever hash, location and proof are presented, acceptance means the location is a
   leaf index, the hash is the committed leaf at that index and the consumed part of the proof is the generated
   proof -- or two different inputs of the node hash with the same output are exhibited *)
Theorem c16_sound_proof :
  forall Hn leaves m h loc ps,
    check_merkle_tree Hn (length leaves) (stored_row Hn leaves m) h loc (Some ps) = true ->
    (loc < N.of_nat (length leaves))%N
    /\ (collision Hn \/ (h = nth (N.to_nat loc) leaves []
                         /\ exists extra, ps = proof_f (gen_tree Hn leaves) (N.to_nat loc) m ++ extra)).
Proof. exact sound_some. Qed.

(* soundness for every proof argument, absent proofs included (the None path refuses as soon as a sibling hash
   would be needed; before fix 1b5f2d6f4 it accepted the stored row node above the location: F-MERKLE-NONE) *)
Theorem c16_sound :
  forall Hn leaves m h loc proof,
    check_merkle_tree Hn (length leaves) (stored_row Hn leaves m) h loc proof = true ->
    (loc < N.of_nat (length leaves))%N
    /\ (collision Hn \/ (h = nth (N.to_nat loc) leaves []
                         /\ exists extra, match proof with Some ps => ps | None => [] end
                                          = proof_f (gen_tree Hn leaves) (N.to_nat loc) m ++ extra)).
Proof. exact sound. Qed.

(* an absent proof never verifies more than the empty proof does (any count, any row), and against a genuine row
   only when the generated proof is empty *)
Theorem c16_none_as_empty :
  forall Hn n row h loc,
    check_merkle_tree Hn n row h loc None = true -> check_merkle_tree Hn n row h loc (Some []) = true.
Proof. exact none_as_empty. Qed.

Theorem c16_none_only_when_empty :
  forall Hn leaves m h loc,
    check_merkle_tree Hn (length leaves) (stored_row Hn leaves m) h loc None = true ->
    collision Hn \/ (h = nth (N.to_nat loc) leaves [] /\ proof_f (gen_tree Hn leaves) (N.to_nat loc) m = []).
Proof. exact none_only_when_empty. Qed.

(* index bound: a location at or beyond the leaf count is rejected whatever else is presented *)
Theorem c16_index_bound :
  forall Hn n row h loc proof, (N.of_nat n <= loc)%N -> check_merkle_tree Hn n row h loc proof = false.
Proof. exact index_bound. Qed.

(* remark (F-MERKLE-TAIL): elements after the consumed prefix of a proof are never looked at *)
Theorem c16_surplus_ignored :
  forall Hn leaves m i extra,
    i < length leaves ->
    check_merkle_tree Hn (length leaves) (stored_row Hn leaves m) (nth i leaves [])
                      (N.of_nat i) (Some (proof_f (gen_tree Hn leaves) i m ++ extra)) = true.
Proof. exact complete_surplus. Qed.

(* non-vacuity: a 5-leaf tree (odd promotion on two levels), row 2, leaf 4 has an empty proof *)
Example c16_example :
  let leaves := [[1];[2];[3];[4];[5]]%N in
  map (@length bytes) (gen_tree Hsym leaves) = [5;3;2;1]
  /\ proof_by_index Hsym leaves 4 2 = Some []
  /\ proof_by_index Hsym leaves 2 2 = Some [[4]%N; Hsym [1]%N [2]%N]
  /\ check_merkle_tree Hsym 5 (stored_row Hsym leaves 2) [3]%N 2 (Some [[4]%N; Hsym [1]%N [2]%N]) = true
  /\ check_merkle_tree Hsym 5 (stored_row Hsym leaves 2) [3]%N 3 (Some [[4]%N; Hsym [1]%N [2]%N]) = false
  /\ check_merkle_tree Hsym 5 (stored_row Hsym leaves 2) [5]%N 4 None = true
  /\ check_merkle_tree Hsym 5 (stored_row Hsym leaves 1) (Hsym [1]%N [2]%N) 0 None = false.
Proof. vm_compute. repeat split; reflexivity. Qed.
