(* Properties/C38.v — Validation is deterministic and repeatable.
   Statements only.  Model/Process.v: process state = the generated inventory of global cells; each API operation has
   a footprint (cells read, written, lazily forced); writers store, and operations return, arbitrary functions of their
   argument and of what they read.  In Coq determinism of a function is free: the content is the footprint analysis,
   so the weight is on the ties (c38_inventory_is_modelled, c38_legacy_tls, c38_readers_are_modelled). *)
From Coq Require Import List String Bool Arith.
From C2PA Require Import Model.Process Generated.C38_facts Proofs.ProcessProofs.
Import ListNotations.
Open Scope string_scope.

(* For every history of context-based operations, from every process state, whatever the operations compute, any
   operation (e.g. read ctx b) observes after the history exactly what it observes before it. *)
Theorem c38_history_independent :
  forall init_val eff obs (target : op) (h : list (op * nat)) st arg,
    (forall o a, In (o, a) h -> In o context_ops) ->
    observe init_val obs target arg (run init_val eff h st) = observe init_val obs target arg st.
Proof. exact context_history_independent. Qed.

(* more generally: a history none of whose operations writes a cell that the observer reads *)
Theorem c38_disjoint_history_independent :
  forall init_val eff obs (target : op) (h : list (op * nat)) st arg,
    (forall o a, In (o, a) h -> disjointb (o_writes o) (o_reads target) = true) ->
    observe init_val obs target arg (run init_val eff h st) = observe init_val obs target arg st.
Proof. exact history_independent. Qed.

(* The deprecated thread-local settings entry points are the only writers: the modelled operations with a non-empty
   write set are exactly the functions from which the source reaches a write of SETTINGS (generated closure), they
   write SETTINGS only, and SETTINGS is the only mutable cell of the inventory. *)
Theorem c38_legacy_tls :
  map o_name (filter (fun o => match o_writes o with [] => false | _ => true end) all_ops) = SETTINGS_writer_closure
  /\ forallb (fun o => string_list_eqb (o_writes o) ["SETTINGS"]) legacy_writers = true
  /\ mutable_cells = ["SETTINGS"].
Proof. exact legacy_tls. Qed.

(* The tie: the inventory regenerated from the source equals the modelled list (a new global is a broken tie) ... *)
Theorem c38_inventory_is_modelled : cells_eqb cells modelled_cells = true.
Proof. exact inventory_is_modelled. Qed.

(* ... the functions that read the thread-local, directly, one call away (the deprecated entry points) and two calls
   away (where the BMFF handler of the context API shows up) are the modelled ones ... *)
Theorem c38_readers_are_modelled :
  string_list_eqb (filter (fun n => negb (mem n (map o_name legacy_writers))) SETTINGS_callers_1) (map o_name legacy_readers) = true
  /\ string_list_eqb SETTINGS_callers_2 modelled_callers_2 = true
  /\ string_list_eqb SETTINGS_direct_writers ["Settings::from_string"; "Settings::reset"; "Settings::set_thread_local_value"] = true
  /\ string_list_eqb SETTINGS_direct_readers ["Settings::get_thread_local_value"; "get_thread_local_settings"] = true.
Proof. exact readers_are_modelled. Qed.

(* ... and no lazy or write-once cell is initialised from mutable state, so its forced value is a program constant *)
Theorem c38_initialisers_pure : impure_initialisers = [].
Proof. exact initialisers_pure. Qed.

(* The stronger reading "no earlier operation of any kind" is false of the faithful model: the context API reads
   the thread-local through the BMFF handler, so a deprecated settings call earlier in the thread can change what a
   context-based read sees (footprint-level witness; the run looks for an observable instance). *)
Theorem c38_legacy_history_refuted :
  let target := ctx_footprint "Reader::with_stream" in
  observe (fun _ => 0) w_obs target 0 (run (fun _ => 0) w_eff [(legacy_writer "Settings::from_toml", 7)] st0)
  <> observe (fun _ => 0) w_obs target 0 st0.
Proof. exact legacy_history_refuted. Qed.

Example c38_example :
  let h := [(ctx_footprint "Builder::sign", 3); (ctx_footprint "Reader::with_stream", 4)] in
  inited (run (fun _ => 5) w_eff h st0) "CAI_WRITERS" = true
  /\ inited st0 "CAI_WRITERS" = false
  /\ observe (fun _ => 5) w_obs (ctx_footprint "Reader::with_stream") 0 (run (fun _ => 5) w_eff h st0) = 70.
Proof. exact example_runs. Qed.
