(* Properties/C01.v — Tamper evidence: signed asset content cannot change without detection.
   Statements only.  Model: Model/Bind.v (verifiers of the hard-binding assertions as functions of the tampered
   file f' and the *signed* assertion) over Model/RangeHash.v (the range hasher, C13).  The digest function H is
   universally quantified and never assumed injective: every theorem concludes "the protected bytes are the
   signed ones, or here is an explicit collision of H".
   Carried fully: data hash (any exclusion list), box hash (walk + full statement without trailing data).
   Partial: update-manifest re-basing for the standard single-exclusion data hash only
   (c01_data_update_rebase_partial); BMFF hash is not modelled here (checked by the correspondence/oracle run);
   per-format framing (the handler box maps) is an input of the box theorems (C12 owns it). *)
From Coq Require Import List NArith Bool Lia.
From C2PA Require Import Base.Bytes Model.RangeHash Model.Bind
     Proofs.BytesProofs Proofs.RangeHashProofs Proofs.BindProofs Generated.C13_facts Generated.C01_facts.
Import ListNotations.
Open Scope N_scope.

(* combinatorial core: equal selected streams under the same exclusion set (in bounds of both files) force equal
   lengths and position-wise agreement outside the exclusions *)
Theorem c01_sel_agree :
  forall hr (f f' : bytes),
    Forall (in_bounds (len f)) hr -> Forall (in_bounds (len f')) hr ->
    sel hr 0 f' = sel hr 0 f ->
    length f' = length f /\
    forall p, p < len f -> covered hr p = false -> nth (N.to_nat p) f' 0 = nth (N.to_nat p) f 0.
Proof. exact sel_agree. Qed.

(* data hash: the signer recorded h over f with exclusions E (any list: unsorted, overlapping, empty);
   if f' verifies against (E, h) then f' has the length of f and agrees with f at every position outside E,
   or a collision of H is exhibited.  Flip, insertion, deletion, truncation, append are all covered: they change
   a position outside E or the length. *)
Theorem c01_data_tamper :
  forall (H : bytes -> bytes) buf debug f f' E h,
    len f < U64 -> len f' < U64 -> (debug = false \/ (len f < U32 /\ len f' < U32)) -> 1 <= buf ->
    sign_data H buf debug f E = Ok h ->
    verify_data H buf debug f' E h = VOk ->
    (length f' = length f /\
     forall p, p < len f -> covered (excl_ranges E) p = false -> nth (N.to_nat p) f' 0 = nth (N.to_nat p) f 0)
    \/ collision H.
Proof. exact data_tamper. Qed.

(* the property's own words: a modification that leaves the binding valid is confined to the signed exclusions *)
Theorem c01_excluded_only :
  forall (H : bytes -> bytes) buf debug f f' E h,
    len f < U64 -> len f' < U64 -> (debug = false \/ (len f < U32 /\ len f' < U32)) -> 1 <= buf ->
    sign_data H buf debug f E = Ok h ->
    verify_data H buf debug f' E h = VOk ->
    (length f' = length f /\
     forall p, p < len f -> nth (N.to_nat p) f' 0 <> nth (N.to_nat p) f 0 ->
               exists e, In e E /\ fst e <= p < fst e + snd e)
    \/ collision H.
Proof. exact excluded_only. Qed.

(* no false alarm: the untouched file verifies, and so does any file that differs only inside the exclusions *)
Theorem c01_data_untouched :
  forall (H : bytes -> bytes) buf debug f E h,
    sign_data H buf debug f E = Ok h -> verify_data H buf debug f E h = VOk.
Proof. exact data_untouched. Qed.

Theorem c01_data_excluded_change_ok :
  forall (H : bytes -> bytes) buf debug f f' E h,
    1 <= len f -> len f < U64 -> (debug = false \/ len f < U32) -> 1 <= buf ->
    Forall (in_bounds (len f)) (excl_ranges E) ->
    sign_data H buf debug f E = Ok h ->
    length f' = length f ->
    (forall p, p < len f -> covered (excl_ranges E) p = false -> nth (N.to_nat p) f' 0 = nth (N.to_nat p) f 0) ->
    verify_data H buf debug f' E h = VOk.
Proof. exact data_excluded_change_ok. Qed.

(* update manifests, standard single-exclusion data hash (PARTIAL: several exclusions are not covered):
   with the store region re-based from (s, l) to (s, l'), success pins the bytes before the store and the bytes
   after the grown store to the signed ones *)
Theorem c01_data_update_rebase_partial :
  forall (H : bytes -> bytes) buf debug f f' s l l' h,
    len f < U64 -> len f' < U64 -> (debug = false \/ (len f < U32 /\ len f' < U32)) -> 1 <= buf ->
    sign_data H buf debug f [(s, l)] = Ok h ->
    verify_data_update H buf debug f' [(s, l)] (Some (s, l')) h = VOk ->
    (firstn (N.to_nat s) f' = firstn (N.to_nat s) f /\
     skipn (N.to_nat (s + l')) f' = skipn (N.to_nat (s + l)) f /\
     len f' + l = len f + l')
    \/ collision H.
Proof. exact data_update_rebase. Qed.

(* box hash, any signed list (multi-name entries, excluded entries, the C2PA entry): a successful walk splits a
   prefix of the handler map of f' into consecutive groups, one per signed entry, names equal in order, and the
   span of every checked group holds exactly the signed bytes *)
Theorem c01_box_tamper :
  forall (H : bytes -> bytes) buf debug f' sg src,
    len f' < U64 -> 1 <= buf ->
    verify_boxes H buf debug f' (mk_signed H sg) src = VOk ->
    (exists groups rest, skip_pngh (mk_signed H sg) src = concat groups ++ rest
                         /\ Forall2 (group_ok debug f') sg groups)
    \/ collision H.
Proof. exact box_tamper. Qed.

(* ... where the span of a well-formed group reaches from the start of its first entry to the end of its last *)
Theorem c01_box_span_wf :
  forall debug g s0 l0, 0 < l0 ->
    (forall s, In s g -> s0 <= sb_start s /\ sb_start s - s0 + sb_len s < U64) ->
    span_from debug (s0, l0) g = Some (s0, match rev g with [] => l0 | s :: _ => sb_start s - s0 + sb_len s end)
    \/ exists s, In s g /\ sb_len s = 0 /\ sb_start s = s0.
Proof. exact span_from_wf. Qed.

(* the full statement for per-box signing (the form Store::save writes), outside the known class F-BOX:
   when the handler map of f' tiles f' up to its end and has no entries beyond the signed list, f' is f with
   only the C2PA boxes replaced *)
Theorem c01_box_full_no_trailing :
  forall (H : bytes -> bytes) buf debug f f' srcf signed src1 o o1,
    len f < U64 -> len f' < U64 -> 1 <= buf ->
    sign_boxes H buf debug f srcf = Ok signed -> tiles o srcf (len f) ->
    walk H buf debug f' signed src1 = VOk ->
    tiles o1 src1 (len f') -> (length src1 <= length signed)%nat ->
    (skipn (N.to_nat o) f = concat (pieces f srcf) /\
     skipn (N.to_nat o1) f' = concat (pieces f' src1) /\
     Forall2 (same_outside_c2pa f f') srcf src1)
    \/ collision H.
Proof. exact box_full_no_trailing. Qed.

(* F-BOX (known finding): without that restriction the statement is false, even for an injective digest —
   bytes appended after the last box, whole handler entries after the last signed one, and bytes in a gap
   between two handler entries are not looked at *)
Theorem c01_box_full_refuted :
  exists signed f',
    sign_boxes fbox_id 4 true fbox_f fbox_src = Ok signed /\ tiles 0 fbox_src (len fbox_f) /\
    f' = fbox_f ++ [99] /\
    verify_boxes fbox_id 4 true f' signed fbox_src = VOk /\
    length f' <> length fbox_f /\
    ~ no_trailing f' signed (skip_pngh signed fbox_src) /\
    (forall x y, fbox_id x = fbox_id y -> x = y).
Proof. exact box_full_refuted_bytes. Qed.

Theorem c01_box_full_refuted_boxes :
  exists signed f' src',
    sign_boxes fbox_id 4 true fbox_f fbox_src = Ok signed /\
    f' = fbox_f ++ [7;7;7] /\ src' = fbox_src ++ [SB 5 10 3] /\ tiles 0 src' (len f') /\
    verify_boxes fbox_id 4 true f' signed src' = VOk /\
    ~ no_trailing f' signed (skip_pngh signed src').
Proof. exact box_full_refuted_boxes. Qed.

Theorem c01_box_full_refuted_gap :
  exists signed f' src',
    sign_boxes fbox_id 4 true fbox_f fbox_src = Ok signed /\
    f' = [1;2;3;4;5;6;77;7;8;9;10] /\ src' = [SB 3 0 4; SB nm_C2PA 4 2; SB 4 7 4] /\
    verify_boxes fbox_id 4 true f' signed src' = VOk /\
    ~ no_trailing f' signed (skip_pngh signed src').
Proof. exact box_full_refuted_gap. Qed.

(* the source still has the shape the model transcribes: no exhaustion / end-of-file test after the walk *)
Theorem c01_source_shape : boxhash_checks_exhaustion = false /\ 1 <= MAX_HASH_BUF.
Proof. split; [reflexivity|unfold MAX_HASH_BUF; lia]. Qed.

(* non-vacuity: a signed file, a change inside the exclusion that verifies, a change outside that does not *)
Example c01_example :
  let f := [1;2;3;4;5;6;7;8] in
  match sign_data fbox_id 4 true f [(2, 3)] with
  | Ok h => (verify_data fbox_id 4 true [1;2;9;9;9;6;7;8] [(2, 3)] h,
             verify_data fbox_id 4 true [1;2;3;4;5;6;7;0] [(2, 3)] h,
             verify_data fbox_id 4 true [1;2;3;4;5;6;7;8;8] [(2, 3)] h)
            = (VOk, VMismatch, VMismatch)
  | _ => False
  end.
Proof. vm_compute. reflexivity. Qed.
