(* Properties/C37.v — Revocation evidence is bound to the signing certificate.
   Statements only; every theorem is closed by [exact] of a lemma in Proofs/OcspProofs.v.

   The model (Model/Ocsp.v) transcribes OcspResponse::from_der_checked, check_stapled_ocsp_response,
   process_ocsp_responses and check_ocsp_status (override / stapled / fetch / supplied).  ASN.1 decoding, the certId hash
   [IH], the responder signature check [VerifyR], the non-EKU part of the certificate profile and path building
   [trusted] are universally quantified oracles (level: partial — the decision logic around the oracles).

     usable r st now      the response decodes, embeds the responder certificate, its signature verifies with that
                          certificate's key, the certificate carries id-kp-OCSPSigning, passes the profile (validity at
                          the signing time, else now) and is trusted: "validly signed"
     concerns r ch        some single response carries the certId (serial, issuer name hash, issuer key hash) of the signer
     irrelevant r ..      not usable, or does not concern the signer: the class of the property's second sentence
     says_revoked r ch st some single response for the signer is `revoked` with no reason, or with a reason other than
                          removeFromCRL and a revocation time not later than the attested signing time (if any)
     no_stopper r ..      no single response for the signer is `good` in range or `revoked` later than the signing time
                          (the scan returns on those; contradictory responses are outside the property) *)
From Coq Require Import List NArith ZArith Bool.
From C2PA Require Import Base.Bytes Generated.C36_facts Generated.C37_facts Model.Timestamp Model.Ocsp Proofs.OcspProofs.
Import ListNotations.
Open Scope Z_scope.

(* A bound, validly signed `revoked` response that is stapled is fatal: check_ocsp_status returns Err (verify_claim
   aborts with `?`, no report is produced, hence never Valid / Trusted), with signingCredential.ocsp.revoked logged. *)
Theorem c37_revoked_never_valid :
  forall IH VerifyR profile_rest trusted cf r supplied fetched ch st now,
    supplied_used cf supplied = false ->
    usable VerifyR profile_rest trusted r st now = true ->
    says_revoked IH r ch st = true ->
    no_stopper IH r ch st now = true ->
    check_ocsp_status IH VerifyR profile_rest trusted cf (Some r) supplied fetched ch st now = (StatusRevoked, [OcRevoked]) /\
    claim_survives IH VerifyR profile_rest trusted cf (Some r) supplied fetched ch st now = false.
Proof. exact stapled_revoked_fatal. Qed.

(* the same for a response supplied by a certificate-status assertion, whenever the supplied list is consulted
   (override set; or fetching off and the staple, if any, is itself irrelevant) and only irrelevant responses precede it *)
Theorem c37_asserted_revoked_never_valid :
  forall IH VerifyR profile_rest trusted cf stapled rs1 r rs2 fetched ch st now,
    (cf_override cf = true \/ (cf_fetch cf = false /\ staple_undecided IH VerifyR profile_rest trusted stapled ch st now)) ->
    Forall (fun x => irrelevant IH VerifyR profile_rest trusted x ch st now) rs1 ->
    usable VerifyR profile_rest trusted r st now = true ->
    says_revoked IH r ch st = true ->
    no_stopper IH r ch st now = true ->
    claim_survives IH VerifyR profile_rest trusted cf stapled (rs1 ++ r :: rs2) fetched ch st now = false.
Proof. exact supplied_revoked_fatal. Qed.

(* Responses about another certificate, or not validly signed, never change the verdict when stapled: status and codes are
   those of the same manifest without the staple, in every configuration (override, fetching, asserted responses).
   (F-OCSP-SHADOW was repaired by fb08c71da: no known class.) *)
Theorem c37_unbound_ignored :
  forall IH VerifyR profile_rest trusted cf r supplied fetched ch st now,
    irrelevant IH VerifyR profile_rest trusted r ch st now ->
    check_ocsp_status IH VerifyR profile_rest trusted cf (Some r) supplied fetched ch st now
    = check_ocsp_status IH VerifyR profile_rest trusted cf None supplied fetched ch st now.
Proof. exact stapled_irrelevant_same. Qed.

(* in particular: no code and no error when nothing else is available *)
Theorem c37_unbound_contributes_nothing :
  forall IH VerifyR profile_rest trusted cf r fetched ch st now,
    irrelevant IH VerifyR profile_rest trusted r ch st now -> cf_fetch cf = false ->
    check_ocsp_status IH VerifyR profile_rest trusted cf (Some r) [] fetched ch st now = (StatusOk false, []).
Proof. exact stapled_irrelevant_nothing. Qed.

(* regression witness of the repaired F-OCSP-SHADOW (corpus lines 4-5) *)
Theorem c37_shadow_fixed_example :
  w_status (w_cf false false) None [w_revoked] None = (StatusRevoked, [OcRevoked])
  /\ w_status (w_cf false false) (Some w_junk) [w_revoked] None = (StatusRevoked, [OcRevoked])
  /\ w_status (w_cf false true) None [] (Some w_revoked) = (StatusOk true, [OcRevoked])
  /\ w_status (w_cf false true) (Some w_junk) [] (Some w_revoked) = (StatusOk true, [OcRevoked]).
Proof. exact shadow_fixed_example. Qed.

(* Irrelevant responses among the asserted ones never change the result (the only exception is the degenerate one where
   the list becomes empty under override, which falls through to the stapled / fetch branch). *)
Theorem c37_asserted_unbound_ignored :
  forall IH VerifyR profile_rest trusted cf stapled rs1 r rs2 fetched ch st now,
    irrelevant IH VerifyR profile_rest trusted r ch st now ->
    check_ocsp_status IH VerifyR profile_rest trusted cf stapled (rs1 ++ r :: rs2) fetched ch st now
    = check_ocsp_status IH VerifyR profile_rest trusted cf stapled (rs1 ++ rs2) fetched ch st now
    \/ (cf_override cf = true /\ rs1 ++ rs2 = []).
Proof. exact supplied_irrelevant. Qed.

(* Responder certificate checks: a usable response is signed by a certificate carrying id-kp-OCSPSigning and nothing
   else.  (F-OCSP-EKU was repaired by b2c9a9e81: no known class, no assumption on has_allowed_eku.) *)
Theorem c37_responder_eku :
  forall VerifyR profile_rest trusted r st now first rest,
    usable VerifyR profile_rest trusted r st now = true -> rp_certs r = Some (first :: rest) ->
    exists e, tc_eku first = Some e /\ eku_any e = false /\
              eku_ocsp_signing e = true /\ eku_time_stamping e = false /\ eku_email_protection e = false /\
              eku_client_auth e = false /\ eku_server_auth e = false /\ eku_code_signing e = false /\ eku_other_nonempty e = false.
Proof. exact responder_eku. Qed.

(* regression witness of the repaired F-OCSP-EKU (corpus lines 1-2) *)
Theorem c37_responder_eku_fixed_example :
  w_status (w_cf false false) (Some (w_response (w_responder (w_eku false true) false) [w_single 77 (Revoked 500 None)])) [] None
  = (StatusOk false, [])
  /\ w_status (w_cf false false) (Some (w_response (w_responder (w_eku false true) false) [w_single 77 Good])) [] None
  = (StatusOk false, []).
Proof. exact responder_eku_fixed_example. Qed.

(* F-OCSP-CA (open): a response signed by the issuing CA itself is not usable (the responder must pass the end-entity
   profile): a `revoked` delivered that way is ignored *)
Theorem c37_ca_signed_refuted :
  w_status (w_cf false false) (Some (w_response (w_responder (w_eku true false) true) [w_single 77 (Revoked 500 None)])) [] None
  = (StatusOk false, []).
Proof. exact ca_signed_refuted. Qed.

(* F-OCSP-CARRIER repaired by 0aa703aa5 (partial: the store-level gathering of certificate-status assertions is modelled by
   one definition): a `revoked` about signer 77 reaches that signer's claim whichever manifest carries the assertion *)
Theorem c37_assertion_reaches_named_signer_partial :
  assertion_supplies toyIH toyVerifyR [w_chain_other; w_chain] w_revoked 77%N 1000 = true
  /\ assertion_supplies toyIH toyVerifyR [w_chain_other; w_chain] w_revoked 80%N 1000 = false.
Proof. exact carrier_fixed_example. Qed.

(* the hypotheses are satisfiable and the model computes non-trivial cases *)
Example c37_example :
  w_status (w_cf false false) (Some w_revoked) [] None = (StatusRevoked, [OcRevoked])
  /\ w_status (w_cf false false) (Some w_junk) [] None = (StatusOk false, []).
Proof. exact example_revoked. Qed.
