(* Properties/C07.v — Embedding round trip: write, read, replace and remove manifest stores.
   Statements only; every theorem is closed by [exact] of a lemma in Proofs/.

   A format is a segment container (Model/Container.v): recogniser [marks], constructor [mk],
   reader [payload], insertion point [ins]; [gwrite]/[gremove]/[gread] are the reference operations.
   Part 1 states the property once for every format that satisfies the obligations [laws];
   part 2 states that the five modelled handlers satisfy them; part 3 that the transcriptions of
   the handlers' code (Model/Cont*.v, tied to the implementation by the correspondence run) are the
   reference operations; part 4 lifts PNG and JPEG to bytes.
   RIFF remove (formerly F-RIFF-REMOVE) is the generic remove since fix eec3bf439.
   Admissible stores/assets: [c2pa_adm], [png_adm], [jadm]/[jseg_ok], [gif_adm], [riff_adm]. *)
From Coq Require Import List NArith Bool Lia.
From C2PA Require Import Base.Bytes Model.Container Model.ContPng Model.ContJpeg Model.ContGif Model.ContRiff Model.ContRun
     Proofs.ContainerProofs Proofs.ContPngProofs Proofs.ContJpegProofs Proofs.ContJpegBytes Proofs.ContGifProofs Generated.C07_facts.
Import ListNotations.

(* the constants of the models are the ones found in the source on this run *)
Theorem c07_facts_agree :
  N.of_nat MAX_JPEG_MARKER_SIZE = F_MAX_JPEG_MARKER_SIZE /\ C2PA_MARKER = F_C2PA_MARKER /\ JP_EN = F_JP_EN /\ JP_CI = F_JP_CI
  /\ PLACEHOLDER_LEN = F_JPEG_PLACEHOLDER_LEN /\ CABX = F_PNG_CAI_CHUNK /\ IHDR = F_PNG_IMG_HDR /\ IEND = F_PNG_END
  /\ PNG_HDR_LEN = F_PNG_HDR_LEN /\ C2PA_GIF_ID = F_GIF_C2PA_ID /\ C2PA_GIF_AUTH = F_GIF_C2PA_AUTH
  /\ N.of_nat GIF_SUB_MAX = F_GIF_SUB_MAX /\ C2PA_CHUNK_ID = F_RIFF_C2PA_ID.
Proof. vm_compute. repeat split; reflexivity. Qed.

(* ---- 1. the property, for every format satisfying the obligations ---- *)

(* reading the asset written with a store returns exactly that store *)
Theorem c07_read_write :
  forall F seg_ok adm, laws F seg_ok adm ->
  forall l b, okl F seg_ok l -> adm b -> gread F (gwrite F l b) = ROk b.
Proof. exact read_write. Qed.

(* writing again replaces: same asset as writing the second store directly, hence it reads back as the last one *)
Theorem c07_write_write :
  forall F seg_ok adm, laws F seg_ok adm ->
  forall l b1 b2, okl F seg_ok l -> adm b1 -> adm b2 ->
    gwrite F (gwrite F l b1) b2 = gwrite F l b2 /\ gread F (gwrite F (gwrite F l b1) b2) = ROk b2.
Proof. intros F so ad L l b1 b2 H H1 H2. split; [exact (write_write F so ad L l b1 b2 H H1 H2)| exact (read_write_write F so ad L l b1 b2 H H1 H2)]. Qed.

(* exactly one store: the C2PA segments of a written asset are exactly the new ones, one contiguous run *)
Theorem c07_exactly_one :
  forall F seg_ok adm, laws F seg_ok adm ->
  forall l b, okl F seg_ok l -> adm b ->
    c2pa_segs F (gwrite F l b) = mk F b
    /\ marks F (gwrite F l b)
       = repeat false (ins F l) ++ repeat true (length (mk F b)) ++ repeat false (length (strip F l) - ins F l).
Proof. intros F so ad L l b H Ha. split; [exact (c2pa_segs_write F so ad L l b H Ha)| exact (marks_write F so ad L l b H Ha)]. Qed.

(* removing yields an asset without manifest (and, being a list of the original media segments, still an asset) *)
Theorem c07_remove :
  forall F seg_ok adm, laws F seg_ok adm ->
  forall l, okl F seg_ok l ->
    gread F (gremove F l) = RErr EJumbfNotFound /\ c2pa_segs F (gremove F l) = [] /\ okl F seg_ok (gremove F l).
Proof. intros F so ad L l H. repeat split; [exact (read_remove F so ad L l H)| exact (c2pa_segs_remove F so ad L l)| exact (okl_remove F so ad L l H)]. Qed.

(* any sequence of operations: after a final write the last store is read back and is the only one;
   after a final remove there is none; the media segments are those of the original throughout *)
Theorem c07_ops_last_write :
  forall F seg_ok adm, laws F seg_ok adm ->
  forall l pre b, okl F seg_ok l -> Forall (adm_op adm) pre -> adm b ->
    let r := grun F l (pre ++ [OpW b]) in
    gread F r = ROk b /\ c2pa_segs F r = mk F b /\ strip F r = strip F l.
Proof. exact ops_last_write. Qed.

Theorem c07_ops_last_remove :
  forall F seg_ok adm, laws F seg_ok adm ->
  forall l pre, okl F seg_ok l -> Forall (adm_op adm) pre ->
    let r := grun F l (pre ++ [OpR]) in
    gread F r = RErr EJumbfNotFound /\ c2pa_segs F r = [] /\ strip F r = strip F l.
Proof. exact ops_last_remove. Qed.

(* ---- 2. the modelled handlers satisfy the obligations ---- *)
Theorem c07_laws_c2pa : laws c2pa_format (fun _ => True) c2pa_adm.
Proof. exact c2pa_laws. Qed.
Theorem c07_laws_png : forall crc, laws (png_format crc) (fun _ => True) png_adm.
Proof. exact png_laws. Qed.
Theorem c07_laws_jpeg : laws jpeg_format jseg_ok jadm.
Proof. exact jpeg_laws. Qed.
Theorem c07_laws_gif : laws gif_format (fun _ => True) gif_adm.
Proof. exact gif_laws. Qed.
Theorem c07_laws_riff : laws riff_format (fun _ => True) riff_adm.
Proof. exact riff_laws. Qed.

(* ---- 3. the transcribed handler code is the reference operation ---- *)
Theorem c07_c2pa_handlers :
  forall a b, c2pa_write a b = ROk (concat (gwrite c2pa_format [a] b))
              /\ c2pa_remove a = ROk (concat (gremove c2pa_format [a])) /\ c2pa_read a = gread c2pa_format [a].
Proof. intros a b. repeat split; [apply c2pa_write_generic| apply c2pa_read_generic]. Qed.

(* PNG write_cai (three splice cases) and remove: IHDR present, at most one existing caBX chunk *)
Theorem c07_png_handlers :
  forall crc cs b, find_index is_ihdr cs <> None -> (count is_cabx cs <= 1)%nat ->
    png_write_chunks crc cs b = ROk (gwrite (png_format crc) cs b)
    /\ png_remove_chunks cs = gremove (png_format crc) cs.
Proof. intros crc cs b H1 H2. split; [exact (png_write_chunks_generic crc cs b H1 H2)| exact (png_remove_chunks_generic crc cs H2)]. Qed.

(* JPEG write_cai (delete_cai_segments, insertion point, insertion loop) and remove *)
Theorem c07_jpeg_handlers :
  forall l b, Forall jseg_ok (strip jpeg_format l) ->
    jpeg_write_segs l b = ROk (gwrite jpeg_format l b)
    /\ (forall m, jcai l [] 0%N = ROk m -> select false l m = gremove jpeg_format l).
Proof. intros l b H. split; [exact (jpeg_write_segs_generic l b H)| intros m; exact (jpeg_remove_segs_generic l m)]. Qed.

(* GIF replace_block / insert_block and remove_block: at most one existing C2PA block *)
Theorem c07_gif_handlers :
  forall bs b, (count is_c2pa_block bs <= 1)%nat ->
    gif_write_blocks bs b = gwrite gif_format bs b
    /\ (match find_index is_c2pa_block bs with Some j => remove_nth j bs | None => bs end) = gremove gif_format bs.
Proof. intros bs b H. split; [exact (gif_write_blocks_generic bs b H)| exact (gif_remove_blocks_generic bs H)]. Qed.

(* RIFF inject_c2pa: with a non-empty store it is the generic write, with strip_c2pa and an empty store
   (remove_cai_store_from_stream after fix eec3bf439) the generic remove *)
Theorem c07_riff_handlers :
  forall cs b, b <> [] ->
    riff_write_children false cs b = gwrite riff_format cs b
    /\ riff_write_children true cs [] = gremove riff_format cs.
Proof. intros cs b H. split; [exact (riff_write_children_generic cs b H)| exact (riff_remove_children_generic cs)]. Qed.

(* hence: removing the manifest from a RIFF asset leaves no manifest and the other chunks unchanged *)
Theorem c07_riff_remove :
  forall cs, gread riff_format (riff_write_children true cs []) = RErr EJumbfNotFound
             /\ strip riff_format (riff_write_children true cs []) = strip riff_format cs.
Proof.
  intro cs. rewrite riff_remove_children_generic. split;
    [apply (read_remove _ _ _ riff_laws); apply Forall_forall; intros; exact I| exact (strip_remove _ _ _ riff_laws cs)].
Qed.

(* ---- 4. PNG and JPEG on bytes.  PNG: every valid PNG = encoding of a well-formed chunk list ---- *)
Theorem c07_png_decode_encode : forall cs tr, chunks_wf cs -> png_dec (png_enc cs tr) = ROk (cs, tr).
Proof. exact png_dec_enc. Qed.

Theorem c07_png_bytes :
  forall crc ops cs tr,
    chunks_wf cs -> has_ihdr cs -> (count is_cabx cs <= 1)%nat -> Forall png_op_ok ops ->
    png_run crc (png_enc cs tr) ops = ROk (png_enc (grun (png_format crc) cs ops) tr)
    /\ chunks_wf (grun (png_format crc) cs ops) /\ has_ihdr (grun (png_format crc) cs ops)
    /\ (count is_cabx (grun (png_format crc) cs ops) <= 1)%nat.
Proof. exact png_run_bytes. Qed.

Theorem c07_png_read_bytes : forall crc cs tr, chunks_wf cs -> png_read (png_enc cs tr) = gread (png_format crc) cs.
Proof. exact png_read_bytes. Qed.

(* JPEG on bytes: every valid JPEG = img-parts encoding of a well-formed segment list (segments up to the
   first SOS, whose entropy field is the rest of the file); any operation sequence on the bytes is the
   generic run on the segments, and stays a valid JPEG *)
Theorem c07_jpeg_decode_encode : forall l, jwf l -> jpeg_dec (jpeg_enc l) = Some l.
Proof. exact jpeg_dec_enc. Qed.

Theorem c07_jpeg_bytes :
  forall ops l, jwf l -> okl jpeg_format jseg_ok l -> Forall (adm_op jadm) ops ->
    jpeg_run (jpeg_enc l) ops = ROk (jpeg_enc (grun jpeg_format l ops))
    /\ jwf (grun jpeg_format l ops) /\ okl jpeg_format jseg_ok (grun jpeg_format l ops).
Proof. exact jpeg_run_bytes. Qed.

Theorem c07_jpeg_read_bytes : forall l, jwf l -> jpeg_read (jpeg_enc l) = nonempty_or_notfound (gread jpeg_format l).
Proof. exact jpeg_read_bytes. Qed.

(* the hypotheses are satisfiable and the byte-level models compute: a 1x1 PNG, write then read *)
Example c07_example_png :
  let a := PNG_SIG ++ enc_chunk (Chunk IHDR [0;0;0;1;0;0;0;1;8;0;0;0;0]%N [1;2;3;4]%N) ++ enc_chunk (Chunk IEND [] [5;6;7;8]%N) in
  exists a', png_write crc32 a (gen_store 40 1) = ROk a' /\ png_read a' = ROk (gen_store 40 1) /\ png_remove a' = ROk a.
Proof. vm_compute. eexists. repeat split; reflexivity. Qed.
