(* Properties/C33.v — CAWG identity assertions bind exactly the referenced assertions.
   Statements only; every theorem is closed by [exact] of a lemma in Proofs/IdentityProofs.v.
   Model: Model/Identity.v (IdentityAssertionBuilder::content, IdentityAssertion::validate_partial_claim with
   check_padding / check_against_partial_claim / X509StatusRemapGuard) and Model/ValState.v (C04) for the manifest
   state.  [enc] (CBOR of the signer payload), [Verify] (COSE_Sign1 + X.509) and [IcaVerify] are arbitrary
   functions: every statement holds for all of them.  Code strings, remap table, the tolerated-failure rule and the
   flags [mismatch_branch_logs], [unknown_sig_type_logs], [sigerr_branch_logs] are regenerated from the sources (Generated/C33_facts.v, Generated/C04_facts.v).

   Vocabulary (Proofs/IdentityProofs.v)
     refs_bound claim p     every reference of p is found in the claim (url test of the source) with an equal hash,
                            one of them is a hard binding, no url is referenced twice
     sig_ok a               the signature check of a's sig_type ended Ok without logging a failure
     components_ok claim a  zero padding /\ refs_bound /\ sig_ok
     silent_class .. e      e is an error that is returned without any status code being logged: a reference whose
                            hash differs from the claim's (while the generated flag is false), a COSE error other than
                            a signature mismatch (while the generated flag is false), an unknown sig_type (while the
                            generated flag is false) or a failed claims-aggregation check *)
From Coq Require Import List NArith Bool String.
From C2PA Require Import Base.Bytes Model.ByteStr Generated.C33_facts Generated.C04_facts Model.Identity
     Model.ValState Proofs.ByteStrProofs Proofs.ValStateProofs Proofs.IdentityProofs.
Import ListNotations.
Open Scope N_scope.

(* 1. an identity assertion created by the builder over any selection of the claim's assertions validates, in both
      tracker modes, logging exactly the verifier's (remapped) items and the two success codes *)
Theorem c33_created_validates :
  forall enc Verify IcaVerify mm ust se stop claim sel rls sig p1 p2 L,
    let p := SP (content_refs sel claim) sig_type_x509 rls in
    nonzero p1 = false -> (forall q, p2 = Some q -> nonzero q = false) ->
    unambiguous claim -> NoDup (map hurl claim) -> has_hard_binding claim ->
    Verify sig (enc p) = VO L VOk ->
    validate enc Verify IcaVerify mm ust se stop claim (IA p sig p1 p2) []
    = (map remap_item L ++ [IT c_x509_validated KS; IT c_well_formed KS], ROk).
Proof. exact created_validates. Qed.

(* 2. acceptance is sound: no failure code logged means either every component checks out, or the assertion was
      rejected with an error of the silent class *)
Theorem c33_clean_log_means_bound :
  forall enc Verify IcaVerify mm ust se stop claim a l r,
    validate enc Verify IcaVerify mm ust se stop claim a [] = (l, r) -> failure_codes l = [] ->
    match r with
    | ROk => nonzero (pad1 a) = false /\ (forall p, pad2 a = Some p -> nonzero p = false)
             /\ refs_bound claim (ia_payload a) /\ sig_ok enc Verify IcaVerify a
    | RErr e => silent_class enc Verify mm ust se claim a e
    end.
Proof. exact validate_clean. Qed.

(* 3. hence any change that breaks a component is reported with a failure code -- except for the silent class *)
Theorem c33_changes_flagged_outside_silent_class :
  forall enc Verify IcaVerify mm ust se stop claim a l r,
    validate enc Verify IcaVerify mm ust se stop claim a [] = (l, r) -> ~ components_ok enc Verify IcaVerify claim a ->
    failure_codes l <> [] \/ exists e, r = RErr e /\ silent_class enc Verify mm ust se claim a e.
Proof. exact changes_flagged. Qed.

(* 3a. padding: always flagged, with the padding code *)
Theorem c33_padding_flagged :
  forall enc Verify IcaVerify mm ust se stop claim a,
    nonzero (pad1 a) = true \/ (exists p, pad2 a = Some p /\ nonzero p = true) ->
    In c_pad_invalid (failure_codes (fst (validate enc Verify IcaVerify mm ust se stop claim a []))).
Proof. exact padding_flagged. Qed.

(* 3b. a referenced assertion whose hash differs from the claim's is never accepted ... *)
Theorem c33_changed_reference_never_accepted :
  forall enc Verify IcaVerify mm ust se stop claim a,
    (exists r x, In r (refs (ia_payload a)) /\ find_claim claim r = Some x /\ hhash x <> hhash r) ->
    snd (validate enc Verify IcaVerify mm ust se stop claim a []) <> ROk.
Proof. exact changed_reference_never_accepted. Qed.

(* 3c. ... but whether it is *reported* depends on the source: stated over the generated flag.  With the branch as
       it is in the pinned source (flag false) the full statement is refuted by a witness (known finding
       F-CAWG-SILENT, reproduced end to end by the check); once the branch logs, it is flagged for every input *)
Theorem c33_changed_reference_flagged_or_refuted :
  forall enc Verify IcaVerify,
    if mismatch_branch_logs then
      forall ust se stop claim a,
        (exists r x, In r (refs (ia_payload a)) /\ find_claim claim r = Some x /\ hhash x <> hhash r) ->
        failure_codes (fst (validate enc Verify IcaVerify mismatch_branch_logs ust se stop claim a [])) <> []
    else
      exists claim a u, forall ust se stop,
        (exists r x, In r (refs (ia_payload a)) /\ find_claim claim r = Some x /\ hhash x <> hhash r)
        /\ validate enc Verify IcaVerify mismatch_branch_logs ust se stop claim a [] = ([], RErr (EAssertionMismatch u)).
Proof. intros enc V I. exact (hash_mismatch_branch enc V I mismatch_branch_logs). Qed.

(* 3d. payload / signature: an accepted X.509 identity assertion carries a signature that verifies over exactly its
       payload, so accepting a payload other than the signed one exhibits a forgery (a second message the signature
       verifies for) *)
Theorem c33_payload_or_signature_change_is_forgery :
  forall enc Verify IcaVerify mm ust se stop claim a l p0,
    (forall p q, enc p = enc q -> p = q) ->
    validate enc Verify IcaVerify mm ust se stop claim a [] = (l, ROk) -> failure_codes l = [] ->
    sig_type (ia_payload a) = sig_type_x509 -> ia_payload a <> p0 ->
    enc (ia_payload a) <> enc p0 /\ vres_ (Verify (ia_sig a) (enc (ia_payload a))) = VOk.
Proof. exact payload_change_is_forgery. Qed.

(* 3e. the silent class under the generated flags: with all three branches logging, the only rejections that leave no
       failure code are a failed claims-aggregation (non-X.509) check, or a COSE_Sign1 parse failure, that logged
       nothing themselves (parse_cose_sign1 always logs: sdk/src/crypto/cose/sign1.rs) *)
Theorem c33_silent_class_when_all_branches_log :
  forall enc Verify claim a e,
    silent_class enc Verify true true true claim a e ->
    (e = EUnknownSigType /\ sig_type (ia_payload a) <> sig_type_x509 /\ sig_type (ia_payload a) = sig_type_ica)
    \/ (e = ESignatureError /\ vres_ (Verify (ia_sig a) (enc (ia_payload a))) = VParse).
Proof. exact silent_class_all_log. Qed.

(* 4. every item the validation logs carries a cawg.* code, provided the COSE layer logs only the codes found in its
      sources (regenerated list; all of them are in the remap table: remap_cose_ok) *)
Theorem c33_logged_codes_are_cawg :
  forall enc Verify IcaVerify,
    (forall s m i, In i (vlog (Verify s m)) -> In (icode i) cose_layer_codes) ->
    (forall p s i, In i (vlog (IcaVerify p s)) -> item_ok i) ->
    forall mm ust se stop claim a, Forall item_ok (fst (validate enc Verify IcaVerify mm ust se stop claim a [])).
Proof. exact logged_items_cawg. Qed.

Theorem c33_codes_partition :
  Forall (fun c => starts_with cawg_prefix c = true) (identity_failure_codes ++ x509_failure_codes)
  /\ Forall (fun c => starts_with x509_prefix c = true) x509_failure_codes
  /\ Forall (fun c => starts_with x509_prefix c = false) identity_failure_codes.
Proof. exact cawg_codes_partition. Qed.

(* 5. manifest state.  Failures with the tolerated prefix never make a valid manifest Invalid ... *)
Theorem c33_x509_failures_never_invalidate :
  forall l r, valid_cond r ->
    (forall s, In s l -> suri s = None /\ (skind s = KFailure -> starts_with x509_prefix (scode s) = true)) ->
    validation_state (add_all r l) <> Invalid.
Proof. exact x509_failures_never_invalidate. Qed.

(* ... and neither do the failure codes of the identity layer proper (padding, reference mismatch, missing hard
   binding, duplicate reference): "CAWG failures never make the manifest Invalid" holds for every list of such
   failures under the tolerated-failure rule regenerated from the current source (prefix "cawg." since fix
   b8b0a0d9a; this theorem stops compiling if the rule no longer covers them) *)
Theorem c33_manifest_not_invalidated :
  forall l r, valid_cond r ->
    (forall s, In s l -> suri s = None
               /\ (skind s = KFailure -> In (scode s) identity_failure_codes \/ starts_with x509_prefix (scode s) = true)) ->
    validation_state (add_all r l) <> Invalid.
Proof. exact manifest_not_invalidated. Qed.

(* the same statement decided by the generated rule, whatever it is: under the rule of the source before the fix
   (only the prefix cawg.x509.) the else-branch held -- one identity-layer code invalidated every manifest (finding
   F-CAWG-INVALIDATES, fixed) *)
Theorem c33_manifest_not_invalidated_or_refuted :
  if forallb is_tolerated identity_failure_codes
  then forall l r, valid_cond r ->
         (forall s, In s l -> suri s = None
                    /\ (skind s = KFailure -> In (scode s) identity_failure_codes \/ starts_with x509_prefix (scode s) = true)) ->
         validation_state (add_all r l) <> Invalid
  else exists c, In c identity_failure_codes
                 /\ forall r u, validation_state (add_status r (St c KFailure u)) = Invalid.
Proof. exact manifest_not_invalidated_or_refuted. Qed.

Theorem c33_tolerated_rule_is_c04s :
  c33_tolerated_exact = tolerated_exact /\ c33_tolerated_prefixes = tolerated_prefixes.
Proof. exact facts_agree. Qed.

(* the hypotheses of c33_created_validates are satisfiable and the model computes a non-trivial case: two assertions,
   one selected by label, hard binding picked up automatically; then the same identity assertion against a claim
   whose hard-binding hash changed *)
Example c33_example :
  let claim := [HR (b "self#jumbf=c2pa.assertions/c2pa.actions.v2") [1;2]; HR (b "self#jumbf=c2pa.assertions/cawg.training-mining") [3];
                HR (b "self#jumbf=c2pa.assertions/c2pa.hash.data") [4]] in
  let p := SP (content_refs [b "cawg.training-mining"] claim) sig_type_x509 [] in
  unambiguous claim /\ NoDup (map hurl claim) /\ has_hard_binding claim
  /\ List.length (refs p) = 2%nat
  /\ run_validate false false false false claim (IA p [9] [0;0] (Some [0])) (VO [IT (b "signingCredential.untrusted") KF] VOk)
     = ([IT (b "cawg.x509.credential.untrusted") KF; IT c_x509_validated KS; IT c_well_formed KS], ROk)
  /\ run_validate false false false true [HR (b "self#jumbf=c2pa.assertions/c2pa.hash.data") [5]] (IA p [9] [0;0] (Some [0])) (VO [] VOk)
     = ([IT c_assertion_mismatch KF], RErr (EAssertionNotInClaim (b "self#jumbf=c2pa.assertions/cawg.training-mining"))).
Proof.
  cbv zeta. split; [|split; [|split; [|split; [|split]]]].
  - intros x y Hx Hy. cbn in Hx, Hy.
    destruct Hx as [<-|[<-|[<-|[]]]]; destruct Hy as [<-|[<-|[<-|[]]]]; vm_compute; congruence.
  - repeat constructor; cbn; intuition discriminate.
  - exists (HR (b "self#jumbf=c2pa.assertions/c2pa.hash.data") [4]). split; [right; right; left; reflexivity | split; vm_compute; reflexivity].
  - vm_compute; reflexivity.
  - vm_compute; reflexivity.
  - vm_compute; reflexivity.
Qed.
