(* Properties/C09.v — placeholder while the proofs are being written. *)
From Coq Require Import List NArith Bool Lia.
From C2PA Require Import Base.Bytes Model.Container Model.ContPng Model.ContJpeg Model.ContGif Model.ContRiff Model.ContRun
     Proofs.ContainerProofs Generated.C07_facts.
Import ListNotations.
Open Scope N_scope.

Theorem c09_facts_agree : PLACEHOLDER_LEN = F_JPEG_PLACEHOLDER_LEN /\ PNG_HDR_LEN = F_PNG_HDR_LEN.
Proof. vm_compute. repeat split; reflexivity. Qed.
