(* Properties/C09.v — Embedding and removing a manifest preserves the media content.
   Statements only; every theorem is closed by [exact] of a lemma in Proofs/.

   Segment formats (.c2pa, PNG, JPEG, GIF, RIFF): the media content of an asset is the list of its
   non-C2PA segments [strip F l], in order.  Part 1 states preservation for every format satisfying
   the obligations (proved once), part 2 that the handlers satisfy them (their transcriptions are the
   reference operations: Properties/C07.v part 3).  Part 3 is BMFF: an abstract model of the
   absolute-offset fix-up (every table entry shifted by the size change of the C2PA box) — correct for
   entries behind the box, refuted for entries in front of it (F-BMFF). *)
From Coq Require Import List NArith ZArith Bool Lia.
From C2PA Require Import Base.Bytes Model.Container Model.ContPng Model.ContJpeg Model.ContGif Model.ContRiff Model.ContRun
     Model.BmffOffsets Proofs.ContainerProofs Proofs.ContPngProofs Proofs.ContJpegProofs Proofs.ContJpegBytes Proofs.ContGifProofs
     Proofs.BmffOffsetsProofs Generated.C07_facts.
Import ListNotations.

Theorem c09_facts_agree : C2PA_MARKER = F_C2PA_MARKER /\ JP_EN = F_JP_EN /\ CABX = F_PNG_CAI_CHUNK
                          /\ C2PA_GIF_ID = F_GIF_C2PA_ID /\ C2PA_CHUNK_ID = F_RIFF_C2PA_ID.
Proof. vm_compute. repeat split; reflexivity. Qed.

(* ---- 1. for every format satisfying the obligations ---- *)

(* the non-C2PA segments of [write a b] and of [remove a] are those of [a], bytes and order included *)
Theorem c09_media_preserved :
  forall F seg_ok adm, laws F seg_ok adm ->
  forall l b, okl F seg_ok l -> adm b ->
    strip F (gwrite F l b) = strip F l /\ strip F (gremove F l) = strip F l.
Proof. intros F so ad L l b H Ha. split; [exact (strip_write F so ad L l b H Ha)| exact (strip_remove F so ad L l)]. Qed.

(* removing the manifest from an asset produced by embedding = removing it from the original *)
Theorem c09_remove_write :
  forall F seg_ok adm, laws F seg_ok adm ->
  forall l b, okl F seg_ok l -> adm b -> gremove F (gwrite F l b) = gremove F l.
Proof. exact remove_write. Qed.

(* replacing (growing, shrinking or equal size): the result does not depend on what was embedded before *)
Theorem c09_replace :
  forall F seg_ok adm, laws F seg_ok adm ->
  forall l b1 b2, okl F seg_ok l -> adm b1 -> adm b2 -> gwrite F (gwrite F l b1) b2 = gwrite F l b2.
Proof. exact write_write. Qed.

(* any sequence of write/remove operations keeps the media segments *)
Theorem c09_ops_media :
  forall F seg_ok adm, laws F seg_ok adm ->
  forall l ops, okl F seg_ok l -> Forall (adm_op adm) ops ->
    okl F seg_ok (grun F l ops) /\ strip F (grun F l ops) = strip F l.
Proof. exact grun_inv. Qed.

(* ---- 2. the modelled handlers ---- *)
Theorem c09_laws_png : forall crc, laws (png_format crc) (fun _ => True) png_adm.
Proof. exact png_laws. Qed.
Theorem c09_laws_jpeg : laws jpeg_format jseg_ok jadm.
Proof. exact jpeg_laws. Qed.
Theorem c09_laws_gif : laws gif_format (fun _ => True) gif_adm.
Proof. exact gif_laws. Qed.
Theorem c09_laws_riff : laws riff_format (fun _ => True) riff_adm.
Proof. exact riff_laws. Qed.

(* PNG on bytes: a write/remove sequence on a valid PNG re-encodes the chunk list of the generic run,
   whose non-caBX chunks are the original ones (trailer bytes after IEND unchanged) *)
Theorem c09_png_bytes :
  forall crc ops cs tr,
    chunks_wf cs -> has_ihdr cs -> (count is_cabx cs <= 1)%nat -> Forall png_op_ok ops ->
    png_run crc (png_enc cs tr) ops = ROk (png_enc (grun (png_format crc) cs ops) tr)
    /\ chunks_wf (grun (png_format crc) cs ops) /\ has_ihdr (grun (png_format crc) cs ops)
    /\ (count is_cabx (grun (png_format crc) cs ops) <= 1)%nat.
Proof. exact png_run_bytes. Qed.

(* JPEG on bytes: same for a valid JPEG (the segments in front of the scan and the scan itself are kept) *)
Theorem c09_jpeg_bytes :
  forall ops l, jwf l -> okl jpeg_format jseg_ok l -> Forall (adm_op jadm) ops ->
    jpeg_run (jpeg_enc l) ops = ROk (jpeg_enc (grun jpeg_format l ops))
    /\ jwf (grun jpeg_format l ops) /\ okl jpeg_format jseg_ok (grun jpeg_format l ops).
Proof. exact jpeg_run_bytes. Qed.

(* ---- 3. BMFF absolute offsets (abstract model; F-BMFF) ---- *)

(* entries addressing data behind the replaced C2PA box address the same media byte after the shift *)
Theorem c09_bmff_shift_correct_after :
  forall (file : bytes) p del (ins : bytes) e d,
    (p + del <= e)%nat -> (e < length file)%nat ->
    exists e', adjust_entry (adjust del ins) e = Z.of_nat e' /\ nth e' (splice file p del ins) d = nth e file d.
Proof. exact (@shift_correct_after N). Qed.

(* data in front of the box does not move ... *)
Theorem c09_bmff_unmoved_before :
  forall (file : bytes) p del (ins : bytes) e d,
    (e < p)%nat -> (p <= length file)%nat -> nth e (splice file p del ins) d = nth e file d.
Proof. exact (@unshifted_before N). Qed.

(* ... but its table entry is shifted all the same whenever the box size changes *)
Theorem c09_bmff_shift_wrong_before :
  forall (file : bytes) p del (ins : bytes) e,
    (e < p)%nat -> adjust del ins <> 0%Z -> adjust_entry (adjust del ins) e <> Z.of_nat e.
Proof. exact (@shift_wrong_before N). Qed.

Theorem c09_bmff_refuted :
  let file := [10; 11; 12; 13; 99; 99]%nat in
  let out := splice file 4 2 [77; 77; 77; 77]%nat in
  nth 1 file 0%nat = 11%nat /\ adjust_entry (adjust 2 [77; 77; 77; 77]%nat) 1 = 3%Z /\ nth 3 out 0%nat = 13%nat
  /\ adjust_entry (adjust 2 (@nil nat)) 1 = (-1)%Z.
Proof. exact shift_refuted. Qed.

(* the model computes a non-trivial case: the GIF blocks other than the C2PA block survive write + remove *)
Example c09_example_gif :
  let bs := [GBlock 254 [] (Some [[104; 105]%N]); gmk (gen_store 30 1); GBlock 249 [4; 0; 0; 0; 0; 0]%N None] in
  strip gif_format (gwrite gif_format bs (gen_store 300 2)) = [GBlock 254 [] (Some [[104; 105]%N]); GBlock 249 [4; 0; 0; 0; 0; 0]%N None]
  /\ gremove gif_format (gwrite gif_format bs (gen_store 300 2)) = gremove gif_format bs.
Proof. vm_compute. split; reflexivity. Qed.
