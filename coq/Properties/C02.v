(* Properties/C02.v — Tamper evidence: manifest store bytes cannot change undetected.
   Statements only.  Model: Model/StoreIntegrity.v (the hash / signature checks of Claim::verify_internal and
   Store::ingredient_checks over abstract stores).  H (assertion / claim / signature-box digest), Hm (manifest box
   digest), Verify (COSE verdict) and the CBOR readers are universally quantified; nothing is assumed about
   them.  s is the signed store, s' ANY store (whatever byte edits produced it — the theorems do not restrict the
   edit).  Conclusions have the form: "what s' reports is what a manifest of s contains, or an explicit H-collision
   is exhibited, or a (claim, signature) pair that verifies and does not occur in s is exhibited".
   PARTIAL: (1) the manifest of s whose content the active manifest of s' reports is identified by equal claim
   bytes and signature box, not proved to be the *active* manifest of s — dropping or re-ordering whole
   manifests (roll-back) is left to the hard binding (C01) and to the run; (2) ingredient links are covered one
   level below every manifest the walk enters (the visited-set bookkeeping of deeper levels is not unfolded);
   (3) JUMBF/CBOR/COSE/X.509 parsing is outside the model (run: every byte of real stores is flipped). *)
From Coq Require Import List NArith Bool Lia.
From C2PA Require Import Base.Bytes Model.Bind Model.StoreIntegrity
     Proofs.BindProofs Proofs.StoreIntegrityProofs Generated.C02_facts.
Import ListNotations.
Open Scope N_scope.

(* one manifest: if its claim verifies inside s' (signature, every listed assertion re-hashed, nothing undeclared)
   then claim bytes and signature box are those of a manifest m of s, every assertion neither side redacts has the
   box contents it has in m, and the assertion store holds no other box *)
Theorem c02_claim_integrity :
  forall (H : bytes -> bytes) (Verify : bytes -> bytes -> bool) (claim_refs : bytes -> list (N * bytes))
         s reds reds' m',
    (forall m, In m s -> verify_claim H Verify claim_refs reds m = true) ->
    verify_claim H Verify claim_refs reds' m' = true ->
    reports_signed claim_refs s reds reds' m' \/ collision H \/ forgery Verify s.
Proof. exact claim_integrity. Qed.

(* "a changed assertion payload is never reported Valid": same claim, different contents of a listed,
   unredacted assertion box, and the claim still verifies => the two contents are an explicit collision *)
Theorem c02_payload_change_detected :
  forall (H : bytes -> bytes) (Verify : bytes -> bytes -> bool) (claim_refs : bytes -> list (N * bytes))
         s reds reds' m m' r b b',
    (forall x, In x s -> verify_claim H Verify claim_refs reds x = true) ->
    In m s -> m_claim m' = m_claim m -> In r (claim_refs (m_claim m)) ->
    redacted reds (m_label m) (fst r) = false -> redacted reds' (m_label m') (fst r) = false ->
    find_box (fst r) (m_boxes m) = Some b -> find_box (fst r) (m_boxes m') = Some b' ->
    a_data b' <> a_data b ->
    verify_claim H Verify claim_refs reds' m' = true -> collision H.
Proof. exact payload_change_detected. Qed.

(* an assertion box that the claim does not list is rejected *)
Theorem c02_undeclared :
  forall (H : bytes -> bytes) (Verify : bytes -> bytes -> bool) (claim_refs : bytes -> list (N * bytes)) reds m b,
    In b (m_boxes m) -> (forall r, In r (claim_refs (m_claim m)) -> fst r <> a_label b) ->
    verify_claim H Verify claim_refs reds m = false.
Proof. exact undeclared_rejected. Qed.

(* every byte of a referenced ingredient manifest box is under a checked hash: without redactions of the
   ingredient, the link test against the recorded 1.3+ manifest box hash pins the whole manifest *)
Theorem c02_ingredient_covered :
  forall (H : bytes -> bytes) (Hm : manifest -> bytes) reds t sh mi mi',
    existsb (fun r => fst r =? t) reds = false ->
    link_ok H Hm reds t (Hm mi) sh mi' = true ->
    mi' = mi \/ collisionM Hm \/ cross H Hm.
Proof. exact ingredient_covered. Qed.

(* with redactions (claim v2+) the signature box is pinned through the claimSignature hash *)
Theorem c02_ingredient_redacted_sig :
  forall (H : bytes -> bytes) (Hm : manifest -> bytes) reds t h mi mi',
    existsb (fun r => fst r =? t) reds = true -> m_v2 mi' = true ->
    link_ok H Hm reds t h (Some (H (m_sig mi))) mi' = true ->
    m_sig mi' = m_sig mi \/ collision H.
Proof. exact ingredient_redacted_sig. Qed.

(* store level (PARTIAL, see header): a store s' that validates reports, for its active manifest and for every
   ingredient manifest the active manifest links to, the content of manifests of the signed store s *)
Theorem c02_store_integrity_partial :
  forall (H : bytes -> bytes) (Hm : manifest -> bytes) (Verify : bytes -> bytes -> bool)
         (claim_refs : bytes -> list (N * bytes)) (claim_redactions : bytes -> list (N * N))
         (ingredient_of : N -> bytes -> ing) s s',
    (forall m, In m s -> verify_claim H Verify claim_refs (store_redactions claim_redactions s) m = true) ->
    validate_store H Hm Verify claim_refs claim_redactions ingredient_of max_ingredient_depth s' = true ->
    exists act', last_opt s' = Some act' /\
      ((reports_signed claim_refs s (store_redactions claim_redactions s) (store_redactions claim_redactions s') act' /\
        forall b t h sh, In b (m_boxes act') -> ingredient_of (a_label b) (a_data b) = IngRef t h sh ->
          exists mi', find_manifest t s' = Some mi'
                      /\ link_ok H Hm (store_redactions claim_redactions s') t h sh mi' = true
                      /\ (reports_signed claim_refs s (store_redactions claim_redactions s)
                                         (store_redactions claim_redactions s') mi'
                          \/ collision H \/ forgery Verify s))
       \/ collision H \/ forgery Verify s).
Proof. intros. eapply store_integrity; eassumption. Qed.

(* non-vacuity: a two-manifest store (parent + active with an ingredient link) validates; changing one payload
   byte, adding an undeclared box, or changing a byte of the ingredient manifest makes validation fail.
   Toy instances: H = identity, Hm = concatenation of the parts, Verify = "signature box is the claim reversed". *)
Definition ex_H (x : bytes) : bytes := x.
Definition ex_Hm (m : manifest) : bytes :=
  m_label m :: m_claim m ++ 255 :: m_sig m ++ 255 :: flat_map (fun b => a_label b :: a_data b ++ [255]) (m_boxes m).
Definition ex_Verify (c g : bytes) : bool := vec_compare g (rev c).
(* toy claim CBOR: pairs (label, one-byte hash) until 0 *)
Fixpoint ex_refs (c : bytes) : list (N * bytes) :=
  match c with
  | l :: h :: t => if l =? 0 then [] else (l, [h]) :: ex_refs t
  | _ => []
  end.
Definition ex_reds (_ : bytes) : list (N * N) := [].
Definition ex_parent : manifest := MF 10 [1; 7; 0; 0] [0; 0; 7; 1] [AB 1 [7]] true.
Definition ex_ing (l : N) (d : bytes) : ing := if l =? 2 then IngRef 10 (ex_Hm ex_parent) None else IngNone.
Definition ex_active (d1 : bytes) (extra : list abox) : manifest :=
  MF 11 [1; 5; 2; 9; 0; 0] [0; 0; 9; 2; 5; 1] ([AB 1 d1; AB 2 [9]] ++ extra) true.
Definition ex_validate := validate_store ex_H ex_Hm ex_Verify ex_refs ex_reds ex_ing max_ingredient_depth.

Example c02_example :
  (ex_validate [ex_parent; ex_active [5] []],
   ex_validate [ex_parent; ex_active [6] []],
   ex_validate [ex_parent; ex_active [5] [AB 3 [1]]],
   ex_validate [MF 10 [1; 7; 0; 0] [0; 0; 7; 1] [AB 1 [8]] true; ex_active [5] []],
   ex_validate [ex_active [5] []])
  = (true, false, false, false, false).
Proof. vm_compute. reflexivity. Qed.
