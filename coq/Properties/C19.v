(* Properties/C19.v — Ingredient graph validation terminates and rejects malformed graphs.
   Statements only; every theorem is closed by [exact] of a lemma in Proofs/IngredientGraphProofs.v.

   Model/IngredientGraph.v transcribes the three recursive walks of sdk/src/store.rs over a store
   (association list label -> manifest with its ordered ingredient references):
     referenced_top  = get_claim_referenced_manifests  (path + memo on entry + depth test on the path)
     checks_top      = ingredient_checks               (depth counter + visited set, one verify_claim per reference)
     binding_top     = get_hash_binding_manifest       (visited set + depth test on its size)
   Each is fuelled and instrumented with a step counter (calls + loop iterations) and the maximal recursion depth.
   |V| = n_manifests st, |E| = n_refs st (all ingredient references in the store).  The theorems hold for every
   store, every ingredient order, both error behaviours of the status tracker ([stop]). *)
From Coq Require Import List NArith Bool Arith Relations.
From C2PA Require Import Generated.C19_facts Model.IngredientGraph Proofs.IngredientGraphProofs.
Import ListNotations.

(* ---- termination: the fuel |V|+1 built into the *_top functions is never exhausted, for any graph
        (cycles, self references, shared sub-graphs, missing manifests) *)
Theorem c19_referenced_terminates :
  forall st stop root, snd (referenced_top st stop root) <> Some EOutOfFuel.
Proof. exact ref_terminates. Qed.

(* ---- cost: linear in the store size — each manifest body is walked at most once thanks to the memo
        (no exponential re-walk of shared sub-graphs) *)
Theorem c19_referenced_linear :
  forall st stop root, rs_steps (fst (referenced_top st stop root)) <= 1 + 2 * n_refs st.
Proof. exact ref_steps_linear. Qed.

(* ---- stack: the recursion path never exceeds MAX_INGREDIENT_DEPTH *)
Theorem c19_referenced_stack_bound :
  forall st stop root, rs_maxdepth (fst (referenced_top st stop root)) <= MAX_INGREDIENT_DEPTH.
Proof. exact ref_depth_bound. Qed.

(* ---- a cycle reachable from the active manifest is never accepted (DFS back-edge argument:
        a successful walk leaves every reachable manifest "finished", and finished manifests are well-founded) *)
Theorem c19_cycle_rejected :
  forall st stop root,
    lookup st root <> None -> (exists y, reach st root y /\ on_cycle st y) ->
    snd (referenced_top st stop root) <> None.
Proof. exact ref_cycle_rejected. Qed.

(* ... and, when the store is small enough for the depth limit not to interfere and the tracker continues
   after logged failures (what Reader does), the error is exactly Error::CyclicIngredients *)
Theorem c19_cycle_error_kind :
  forall st stop root,
    lookup st root <> None -> (exists y, reach st root y /\ on_cycle st y) ->
    stop = false -> n_manifests st <= MAX_INGREDIENT_DEPTH ->
    exists p, snd (referenced_top st stop root) = Some (ECyclic p).
Proof. exact ref_cycle_error_kind. Qed.

(* ---- a dangling reference anywhere in the reachable graph is flagged: whenever the walk does not fail,
        ingredient.manifest.missing is in the log for that label (a logged failure => not Valid) *)
Theorem c19_dangling_flagged :
  forall st stop root s' x t,
    lookup st root <> None -> referenced_top st stop root = (s', None) ->
    reach st root x -> dangling_at st x t -> In (LMissing t) (rs_log s').
Proof. exact ref_dangling_flagged. Qed.

(* ---- depth: if the walk accepts, every reachable manifest lies on a reference path from the active manifest
        with fewer than MAX_INGREDIENT_DEPTH references; so a graph with a manifest at distance >= limit is rejected *)
Theorem c19_accepts_only_shallow :
  forall st stop root s' y,
    lookup st root <> None -> referenced_top st stop root = (s', None) ->
    reach st root y -> exists p, pathto st root p y /\ length p < MAX_INGREDIENT_DEPTH.
Proof. exact ref_accepts_only_shallow. Qed.

(* the depth error carries exactly the limit and needs more than `limit` manifests *)
Theorem c19_depth_error_exact :
  forall st stop root d,
    snd (referenced_top st stop root) = Some (EDepth d) ->
    d = MAX_INGREDIENT_DEPTH /\ MAX_INGREDIENT_DEPTH < n_manifests st.
Proof. exact ref_depth_error. Qed.

(* an over-deep chain (n+1 manifests, each the parent of the next, n >= limit) is rejected; the boundary is exact *)
Theorem c19_deep_chain_rejected :
  forall stop n, MAX_INGREDIENT_DEPTH <= n -> snd (referenced_top (chain_store n) stop 0%N) <> None.
Proof. exact chain_rejected. Qed.
Theorem c19_chain_boundary :
  snd (referenced_top (chain_store (MAX_INGREDIENT_DEPTH - 1)) false 0%N) = None /\
  snd (referenced_top (chain_store MAX_INGREDIENT_DEPTH) false 0%N) = Some (EDepth MAX_INGREDIENT_DEPTH).
Proof. exact chain_boundary. Qed.

(* "over-deep" means recursion deeper than the limit, which depends on the ingredient order because of the memo:
   the same references listed far-end first are accepted at recursion depth 2 although a path with limit+10
   references exists; listed near-end first they hit the limit.  Stated, not treated as a violation. *)
Theorem c19_memo_depth_remark :
  let k := MAX_INGREDIENT_DEPTH + 10 in
  let tail := fan_tail 1 (k - 1) in
  snd (referenced_top ((0%N, mk false true (rev (fan_refs k))) :: tail) false 0%N) = None /\
  rs_maxdepth (fst (referenced_top ((0%N, mk false true (rev (fan_refs k))) :: tail) false 0%N)) = 2 /\
  snd (referenced_top ((0%N, mk false true (fan_refs k)) :: tail) false 0%N) = Some (EDepth MAX_INGREDIENT_DEPTH).
Proof. exact memo_depth_remark. Qed.

(* ---- ingredient_checks: terminates, at most one verify_claim per reference (|E| claim verifications),
        linear steps, recursion depth bounded by the limit, visited set within the store *)
Theorem c19_checks_bounds :
  forall st stop root,
    let r := checks_top st stop root in
    snd r <> Some EOutOfFuel /\ cs_verifs (fst r) <= n_refs st /\ cs_steps (fst r) <= 1 + 2 * n_refs st /\
    cs_maxdepth (fst r) <= MAX_INGREDIENT_DEPTH /\ length (cs_visited (fst r)) <= n_manifests st + 1.
Proof. exact checks_top_bounds. Qed.

(* ---- hard-binding search (with the depth test on `visited` of fix c381c9a00): terminates (cyclic parentOf chains
        included), linear steps, recursion depth bounded by the limit like the other walks, and whatever it returns is a
        standard manifest carrying a hard binding (so a cycle of update manifests yields None) *)
Theorem c19_binding_bounds :
  forall st root,
    let r := binding_top st root in
    b_fuel_out r = false /\ b_steps r <= 1 + n_manifests st + n_refs st /\
    b_depth r <= MAX_INGREDIENT_DEPTH /\ b_depth r <= 1 + n_manifests st /\
    (forall l, b_result r = Some l -> exists ml, lookup st l = Some ml /\ m_update ml = false /\ m_hashbind ml = true).
Proof. exact binding_top_bounds. Qed.

(* the hard-binding fan that overflowed the stack before the fix (F-BINDING-DEPTH: the referenced-walk accepts it at
   depth 3, the search used to follow limit+10 parentOf links) now stops at depth = limit with no binding manifest;
   a fan with limit-1 update manifests still finds its binding manifest.  Replayed on the implementation by ./check. *)
Theorem c19_binding_deep_fan_bounded :
  let st := deep_binding_store (MAX_INGREDIENT_DEPTH + 10) in
  snd (referenced_top st false 0%N) = None /\
  rs_maxdepth (fst (referenced_top st false 0%N)) = 3 /\
  b_result (binding_top st 0%N) = None /\
  b_depth (binding_top st 0%N) = MAX_INGREDIENT_DEPTH /\
  b_result (binding_top (deep_binding_store (MAX_INGREDIENT_DEPTH - 1)) 0%N) = Some (N.of_nat MAX_INGREDIENT_DEPTH).
Proof. exact binding_deep_fan_bounded. Qed.

(* non-vacuity: a diamond with a dangling reference and a cycle behind it — hypotheses are satisfiable and the
   model computes the expected classes *)
Example c19_example :
  let st := [(0%N, mk false true [pref 1; cref 2]); (1%N, mk false true [cref 3]); (2%N, mk false true [cref 3; cref 9]);
             (3%N, mk false true [])] in
  run_walk st false 0%N =
    (None, [0; 1; 3; 2]%N, [(1, 0); (3, 1); (2, 0); (3, 2)]%N, [LMissing 9%N], (10, 3), (Some 0%N, false, 1, 1)) /\
  snd (referenced_top (st ++ [(9%N, mk false true [cref 1; cref 0])]) false 0%N) = Some (ECyclic [0; 2; 9]%N).
Proof. split; vm_compute; reflexivity. Qed.
