(* Properties/C25.v — Settings updates follow JSON-merge semantics and fail atomically.
   Statements only; every theorem is closed by [exact] of a lemma in Proofs/SettingsTreeProofs.v.
   Model: Model/SettingsTree.v (merge_json_depth, set_at_path, get_at_path on serde_json values with insertion-ordered,
   key-unique objects; with_string / with_value / update_from_str / set_value / get_value with serde's typed
   projection, validation and the two parsers as section variables).  MERGE_MAX_DEPTH is regenerated from the
   source on every run (Generated/C25_facts.v). *)
From Coq Require Import List NArith Bool Arith Lia.
From C2PA Require Import Model.SettingsTree Proofs.SettingsTreeProofs Generated.C25_facts.
Import ListNotations.

(* Overlaying a document is the recursive merge: for well-formed (key-unique) trees whose overlay nests objects
   no deeper than the limit, the coded merge satisfies the declarative recursive-merge relation [Merged] ... *)
Theorem c25_merge_spec :
  forall t o, wf t -> wf o -> depth o <= MERGE_MAX_DEPTH -> Merged t o (merge_json MERGE_MAX_DEPTH t o).
Proof. intros t o Ht Ho Hd. apply merge_spec; assumption. Qed.

(* ... and the relation has no other result (up to the order of keys inside objects) *)
Theorem c25_merge_unique :
  forall t o r, wf t -> wf o -> depth o <= MERGE_MAX_DEPTH -> Merged t o r -> jeq r (merge_json MERGE_MAX_DEPTH t o).
Proof. intros t o r Ht Ho Hd. apply merge_is_Merged; assumption. Qed.

(* at every nesting level d (not only the root) *)
Theorem c25_merge_spec_at_depth :
  forall maxd d t o, wf t -> wf o -> d + depth o <= maxd -> Merged t o (merge maxd d t o).
Proof. intros maxd d t o. apply merge_spec. Qed.

(* the cut-off characterised: at nesting level MERGE_MAX_DEPTH and beyond, the overlay subtree replaces the
   target subtree wholesale (no key-by-key merge), whatever the two values are *)
Theorem c25_merge_cutoff :
  forall d t o, MERGE_MAX_DEPTH <= d -> merge MERGE_MAX_DEPTH d t o = o.
Proof. exact (merge_cutoff MERGE_MAX_DEPTH). Qed.

(* the loop, key by key, at any level below the cut-off (this is what the cut-off interrupts) *)
Theorem c25_merge_entry :
  forall d tm om k, NoDup (map fst om) -> d < MERGE_MAX_DEPTH ->
    get_segs (merge MERGE_MAX_DEPTH d (JObj tm) (JObj om)) [k] =
    match lookup k om with
    | None => lookup k tm
    | Some ov => Some (merge MERGE_MAX_DEPTH (S d) (get_or_null k tm) ov)
    end.
Proof. intros d tm om k. apply merge_entry. Qed.

(* merged trees stay key-unique; keys keep the target's order, new keys follow in overlay order *)
Theorem c25_merge_wf : forall maxd d t o, wf t -> wf o -> wf (merge maxd d t o).
Proof. intros maxd d t o. apply merge_wf. Qed.

Theorem c25_merge_key_order :
  forall maxd d om tm,
    map fst (merge_fields maxd d om tm) =
    map fst tm ++ fold_left (fun acc k => if existsb (key_eqb k) (map fst tm ++ acc) then acc else acc ++ [k]) (map fst om) [].
Proof. exact merge_fields_keys. Qed.

(* user-level consequences: a non-object value of the overlay wins at its path; keys the overlay does not mention
   keep the current subtree; merging a tree onto itself is the identity *)
Theorem c25_overlay_wins :
  forall segs t o v, wf o -> length segs <= MERGE_MAX_DEPTH -> get_segs o segs = Some v -> (forall m, v <> JObj m) ->
    get_segs (merge_json MERGE_MAX_DEPTH t o) segs = Some v.
Proof. intros segs t o v Ho Hl. apply merge_overlay_wins; [exact Ho|exact Hl]. Qed.

Theorem c25_untouched_kept :
  forall tm om s r, NoDup (map fst om) -> lookup s om = None ->
    get_segs (merge_json MERGE_MAX_DEPTH (JObj tm) (JObj om)) (s :: r) = get_segs (JObj tm) (s :: r).
Proof. intros tm om s r Hnd. apply merge_untouched; [exact Hnd|unfold MERGE_MAX_DEPTH; lia]. Qed.

Theorem c25_merge_idem : forall t, wf t -> merge_json MERGE_MAX_DEPTH t t = t.
Proof. intros t. apply merge_idem. Qed.

(* set_at_path never fails on a dotted path (split('.') always yields a segment), and reading the same path
   returns the written value — for every path string, every tree (object or not) and every value *)
Theorem c25_get_set :
  forall t path v, exists t', set_at_path t path v = Some t' /\ get_at_path t' path = Some v.
Proof. exact get_set_path. Qed.

(* the same over segment lists: every non-empty path *)
Theorem c25_get_set_segs :
  forall t segs v, segs <> [] -> exists t', set_segs t segs v = Some t' /\ get_segs t' segs = Some v.
Proof. exact get_set_segs_ex. Qed.

(* every non-empty list of dot-free keys is addressed by its dotted spelling *)
Theorem c25_split_join : forall segs, segs <> [] -> Forall no_dot segs -> split_dot (join_dot segs) = segs.
Proof. exact split_join. Qed.

(* frame: paths that diverge from the written path (neither is a prefix of the other) read as before *)
Theorem c25_set_frame :
  forall t p q v t', diverge p q -> set_segs t p v = Some t' -> get_segs t' q = get_segs t q.
Proof. exact set_frame. Qed.

Theorem c25_not_prefix_diverge : forall p q, prefixb p q = false -> prefixb q p = false -> diverge p q.
Proof. exact not_prefix_diverge. Qed.

Theorem c25_set_wf : forall segs t v t', wf t -> wf v -> set_segs t segs v = Some t' -> wf t'.
Proof. exact set_segs_wf. Qed.

(* atomic failure: a failed update_from_str / set_value returns the state it was given (for any serde, validator
   and parser), and a successful one is the validated typed projection of the merged tree *)
Theorem c25_atomic_update :
  forall settings to_value typed validate parse maxd (s : settings) f text e,
    snd (update_from_str settings to_value typed validate parse maxd s f text) = UErr e ->
    fst (update_from_str settings to_value typed validate parse maxd s f text) = s.
Proof. exact update_atomic. Qed.

Theorem c25_atomic_set_value :
  forall settings to_value typed validate (s : settings) p v e,
    snd (set_value settings to_value typed validate s p v) = UErr e ->
    fst (set_value settings to_value typed validate s p v) = s.
Proof. exact set_value_atomic. Qed.

Theorem c25_update_ok :
  forall settings to_value typed validate parse maxd (s : settings) f text s',
    update_from_str settings to_value typed validate parse maxd s f text = (s', UOk tt) ->
    exists overlay cur, parse f text = Some overlay /\ to_value s = Some cur /\
                        typed (merge_json maxd cur overlay) = Some s' /\ validate s' = true.
Proof. exact update_ok. Qed.

(* JSON and TOML documents with equal parsed values give equal results *)
Theorem c25_json_toml :
  forall settings to_value typed validate parse maxd (s : settings) a b,
    parse FJson a = parse FToml b ->
    with_string settings to_value typed validate parse maxd s FJson a =
    with_string settings to_value typed validate parse maxd s FToml b.
Proof. exact json_toml_equiv. Qed.

(* partial: read-after-write through serde's typed projection, under the explicit hypothesis that the projection
   keeps the written path (what is missing: a model of serde's derive for Settings; the hypothesis is checked by the
   run on the implementation, where it fails exactly for unknown keys, case-folded enum strings and skipped None) *)
Theorem c25_typed_read_after_write_partial :
  forall settings to_value typed validate (s : settings) p v s' cur merged,
    with_value settings to_value typed validate s p v = UOk s' -> to_value s = Some cur ->
    set_at_path cur p v = Some merged ->
    (forall back, to_value s' = Some back -> get_at_path back p = get_at_path merged p) ->
    (exists back, to_value s' = Some back) ->
    get_value settings to_value s' p = Some v.
Proof. exact typed_read_after_write. Qed.

(* the hypotheses are satisfiable and the model computes: merge, cut-off at the generated limit, set/get *)
Fixpoint nest (n : nat) (leaf : json) : json :=
  match n with O => leaf | S n' => JObj [([120%N], nest n' leaf)] end.

Example c25_example :
  merge_json MERGE_MAX_DEPTH
    (JObj [([97%N], JObj [([98%N], JNum [49%N]); ([99%N], JNum [50%N])]); ([122%N], JNum [48%N])])
    (JObj [([97%N], JObj [([99%N], JNull); ([100%N], JArr [JNum [49%N]])]); ([121%N], JObj [([113%N], JNum [49%N])])])
  = JObj [([97%N], JObj [([98%N], JNum [49%N]); ([99%N], JNull); ([100%N], JArr [JNum [49%N]])]);
          ([122%N], JNum [48%N]); ([121%N], JObj [([113%N], JNum [49%N])])]
  /\ (* 64 nested objects are merged key by key, the 65th level is replaced *)
     get_segs (merge_json MERGE_MAX_DEPTH (nest MERGE_MAX_DEPTH (JObj [([112%N], JBool true)]))
                                          (nest MERGE_MAX_DEPTH (JObj [([113%N], JBool false)])))
              (repeat [120%N] MERGE_MAX_DEPTH) = Some (JObj [([113%N], JBool false)])
  /\ get_segs (merge_json MERGE_MAX_DEPTH (nest (pred MERGE_MAX_DEPTH) (JObj [([112%N], JBool true)]))
                                          (nest (pred MERGE_MAX_DEPTH) (JObj [([113%N], JBool false)])))
              (repeat [120%N] (pred MERGE_MAX_DEPTH)) = Some (JObj [([112%N], JBool true); ([113%N], JBool false)])
  /\ set_at_path (JObj [([97%N], JNum [49%N])]) [97%N; 46%N; 98%N] JNull = Some (JObj [([97%N], JObj [([98%N], JNull)])])
  /\ wf (JObj [([97%N], JNum [49%N])]).
Proof.
  repeat split; try (vm_compute; reflexivity).
  constructor; [constructor; [intros []|constructor]|repeat constructor].
Qed.
