(* Properties/C06.v — Certificate profile violations make the manifest invalid; conforming certificates are never flagged.
   Statements only.  Model: Model/CertProfile.v (check_certificate_profile / check_end_entity_certificate_profile branch
   by branch over the certificate features x509-parser exposes; constants from Generated/C06_facts.v).
   [conforming c ekus t] (Proofs/CertProfileProofs.v) is the declarative reading of the property's rule list:
   X.509 v3, not a CA, not self-signed, accepted signature algorithm (RSASSA-PSS: explicit, equal, accepted hashes),
   accepted curve / RSA modulus >= MIN_RSA_BITS, no unique IDs, digitalSignature without keyCertSign, an accepted EKU set,
   AKI present, no unhandled critical extension, valid at the signing time.

   State after the fix wave: F-SELFSIGNED (fix e3a439b95: the self-signed test no longer asks for the CA flag, fact
   SELFSIGNED_ONLY_CA = false) and F-PSS-DEFAULTS (fix 85312f708: a wrapper logs signingCredential.invalid for every Err
   that logged nothing, fact QUIET_EXITS_LOGGED = true) are repaired; the theorems below no longer carry [quiet_input] or
   [known_selfsigned].  Still excluded, with a machine-checked witness and a replayed input (corpus/C06.jsonl line 3):
     known_ku — F-KU-CERTSIGN: a keyUsage without digitalSignature counts when keyCertSign or nonRepudiation is set. *)
From Coq Require Import List NArith ZArith Bool.
From C2PA Require Import Generated.C06_facts Model.CertProfile Model.TrustPolicy
     Proofs.CertProfileProofs Proofs.TrustPolicyProofs.
Import ListNotations.

(* the two repaired rules, as facts of the current source *)
Theorem c06_repairs_in_place : SELFSIGNED_ONLY_CA = false /\ QUIET_EXITS_LOGGED = true.
Proof. exact (conj selfsigned_fixed quiet_exits_logged). Qed.

(* a conforming certificate is accepted and nothing is logged (signing time = time-stamp time if any, else now) *)
Theorem c06_conforming_accepted :
  forall c ekus tst now,
    conforming c ekus (eff_time tst now) = true ->
    check_end_entity_certificate_profile c ekus tst now = POk
    /\ profile_log (check_end_entity_certificate_profile c ekus tst now) = [].
Proof. exact conforming_accepted_all. Qed.

(* each rule of the property's list, violated (alone or together with others), is rejected and exactly one
   signingCredential code is logged *)
Theorem c06_each_violation_rejected :
  forall c ekus tst now,
    known_ku c = false ->
    rule_version c \/ rule_ca c \/ rule_self_signed c \/ rule_sig_alg c \/ rule_key c \/ rule_unique_ids c
    \/ rule_key_usage c \/ rule_eku ekus c \/ rule_critical c \/ rule_validity c (eff_time tst now) ->
    exists b k, check_end_entity_certificate_profile c ekus tst now = PFail b /\ branch_code b = Some k
                /\ profile_log (check_end_entity_certificate_profile c ekus tst now) = [k].
Proof. exact each_violation_rejected_all. Qed.

(* every rule other than key usage: no hypothesis at all (self-signed and the formerly silent PSS exits included) *)
Theorem c06_non_ku_violation_rejected :
  forall c ekus tst now,
    rule_version c \/ rule_ca c \/ rule_self_signed c \/ rule_sig_alg c \/ rule_key c \/ rule_unique_ids c
    \/ rule_eku ekus c \/ rule_critical c \/ rule_validity c (eff_time tst now) ->
    exists b k, check_end_entity_certificate_profile c ekus tst now = PFail b /\ branch_code b = Some k.
Proof. exact non_ku_violation_rejected. Qed.

(* the conjunction: accepted exactly when conforming *)
Theorem c06_accepted_iff_conforming :
  forall c ekus tst now,
    known_ku c = false ->
    (check_end_entity_certificate_profile c ekus tst now = POk <-> conforming c ekus (eff_time tst now) = true).
Proof. exact profile_iff_conforming_all. Qed.

(* for every certificate the code accepts exactly [accepts] and every rejection carries a code *)
Theorem c06_outcome_exact :
  forall c ekus tst now,
    if accepts c ekus (eff_time tst now)
    then check_end_entity_certificate_profile c ekus tst now = POk
    else exists b k, check_end_entity_certificate_profile c ekus tst now = PFail b /\ branch_code b = Some k.
Proof. exact profile_exact_all. Qed.

(* version, validity and signature-algorithm OID: the exact code *)
Theorem c06_early_rules :
  forall c ekus tst now,
    c_parse_ok c = true ->
    (c_version c <> 2%N -> check_end_entity_certificate_profile c ekus tst now = PFail BVersion)
    /\ (c_version c = 2%N -> valid_at c (eff_time tst now) = false ->
        check_end_entity_certificate_profile c ekus tst now = PFail BExpired /\ branch_code BExpired = Some CExpired)
    /\ (c_version c = 2%N -> valid_at c (eff_time tst now) = true -> oid_mem (c_sig_alg c) ALLOWED_SIG_ALGS = false ->
        check_end_entity_certificate_profile c ekus tst now = PFail BSigAlg).
Proof. exact early_rules_exact. Qed.

(* never Valid / Trusted: a rejected certificate's code is a failure that the state decision does not tolerate *)
Theorem c06_never_valid :
  forall c ekus tst now b k success failure ingredients,
    check_end_entity_certificate_profile c ekus tst now = PFail b -> branch_code b = Some k ->
    (forall x, In x (profile_log (check_end_entity_certificate_profile c ekus tst now)) -> In (vcode_of x) failure) ->
    validation_state success failure ingredients = StInvalid.
Proof. exact profile_failure_invalid. Qed.

Theorem c06_non_tolerated_failure_invalid :
  forall success failure ingredients k,
    In k failure -> is_tolerated k = false -> validation_state success failure ingredients = StInvalid.
Proof. exact non_tolerated_failure_invalid. Qed.

(* the former witnesses of F-SELFSIGNED and F-PSS-DEFAULTS (replayed as corpus lines 1 and 2) are now rejected *)
Theorem c06_former_witnesses_rejected :
  check_end_entity_certificate_profile self_signed_ee DEFAULT_EKUS None T2026 = PFail BSelfSigned
  /\ profile_log (check_end_entity_certificate_profile self_signed_ee DEFAULT_EKUS None T2026) = [CInvalid]
  /\ check_end_entity_certificate_profile pss_defaults_ca DEFAULT_EKUS None T2026 = PFail BPssUnparsable
  /\ profile_log (check_end_entity_certificate_profile pss_defaults_ca DEFAULT_EKUS None T2026) = [CInvalid].
Proof. exact former_witnesses_rejected. Qed.

(* still open: the key-usage rule is refuted on the faithful model *)
Theorem c06_ku_certsign_refuted :
  rule_key_usage certsign_only_ee /\ c_is_ca certsign_only_ee = false /\ known_selfsigned certsign_only_ee = false
  /\ quiet_input certsign_only_ee = false
  /\ check_end_entity_certificate_profile certsign_only_ee DEFAULT_EKUS None T2026 = POk.
Proof. exact ku_certsign_refuted. Qed.

(* the hypotheses are satisfiable: a conforming certificate exists, outside the remaining excluded class *)
Example c06_nonvacuous :
  conforming ok_cert DEFAULT_EKUS T2026 = true /\ known_ku ok_cert = false
  /\ check_end_entity_certificate_profile ok_cert DEFAULT_EKUS None T2026 = POk.
Proof. vm_compute. repeat split; reflexivity. Qed.
