(* Properties/C26.v — The network host allow-list is enforced on every request.
   Statements only.  Model: Model/HostPattern.v (HostPattern::new / matches on byte strings) and Model/Resolvers.v
   (RestrictedResolver, RedirectResolver and the default stack over a scripted transport).  URI component extraction
   (http::Uri::scheme/host/port) and URL joining are Section variables: the theorems hold for every such function.
   The order of the wrappers is read from sdk/src/context.rs into Generated/C26_facts.v on every run. *)
From Coq Require Import List NArith Bool Lia.
From C2PA Require Import Base.Bytes Model.HostPattern Model.IpPreds Model.IpClass Model.StackLayers Model.Resolvers
     Generated.C26_facts Generated.C27_facts Proofs.HostPatternProofs Proofs.ResolverProofs.
Import ListNotations.
Open Scope N_scope.

(* HostPattern::matches is the documented relation: exact host (ASCII case-insensitive) or `*.suffix` where the
   lower-cased host is  pre ++ "." ++ suffix; port strings equal (both absent counts); the pattern's scheme, when it
   has one, equals the URI's; a host-less pattern matches by scheme alone; an empty pattern matches nothing *)
Theorem c26_matches_spec : forall p us uh up, matches p us uh up = true <-> matches_rel p us uh up.
Proof. exact matches_spec. Qed.

(* HostPattern::new: the lower-cased text is [scheme "://"] host [":" port], split at the last colon; only https/http
   are recognised as schemes; a stored host is never empty *)
Theorem c26_pattern_parse : forall raw,
  let p := parse_pattern raw in
  lower raw = scheme_text (p_scheme p) ++ host_text (p_host p) ++ port_text (p_port p)
  /\ (p_scheme p = Some s_https \/ p_scheme p = Some s_http \/ p_scheme p = None)
  /\ (forall pt, p_port p = Some pt -> ~ In c_colon pt)
  /\ (p_port p = None -> ~ In c_colon (host_text (p_host p)))
  /\ p_host p <> Some [].
Proof. exact parse_pattern_spec. Qed.

(* a wildcard needs one more label: the character before the suffix is a dot, so neither the bare domain nor a
   host that merely ends in the same letters matches *)
Theorem c26_wildcard_needs_label : forall suffix h,
  host_matches (s_wild ++ suffix) h = true ->
  (length (lower h) > length suffix)%nat /\ nth (length (lower h) - length suffix - 1) (lower h) 0 = c_dot.
Proof. exact wildcard_needs_label. Qed.

Theorem c26_wildcard_not_bare : forall suffix h, lower h = suffix -> host_matches (s_wild ++ suffix) h = false.
Proof. exact wildcard_not_bare. Qed.

Section Stack.
  Variable U : Type.
  Variables scheme_of host_of port_of : U -> option bytes.
  Variable join : U -> bytes -> option U.
  Notation stack := (default_stack U scheme_of host_of port_of join).
  Notation allowed hs u := (uri_allowed U scheme_of host_of port_of (Some hs) u).

  (* the default stack puts the allow-list inside the redirect follower (so it is applied to every hop) *)
  Theorem c26_stack_order : forall hs ar client,
    stack (Some hs) ar client
    = redirect U host_of join ar (restricted U scheme_of host_of port_of (Some hs) client).
  Proof. exact (default_stack_with_list U scheme_of host_of port_of join). Qed.

  (* the async builder (read separately from build_default_async_resolver) builds the same stack, so the theorems below
     hold for it as well *)
  Theorem c26_stack_order_async : forall allow ar client,
    default_stack_async U scheme_of host_of port_of join allow ar client = stack allow ar client.
  Proof. exact (default_stack_async_same U scheme_of host_of port_of join). Qed.

  (* every request that reaches the transport — hop 0 or any redirect hop, for every script — is allowed *)
  Theorem c26_every_request_allowed : forall hs ar rq st st' tr r,
    stack (Some hs) ar (transport U) rq st = (st', tr, r) ->
    Forall (fun q => exists p, In p hs /\ matches_rel p (scheme_of (rq_uri U q)) (host_of (rq_uri U q)) (port_of (rq_uri U q))) tr.
  Proof. exact (stack_allowed_rel U scheme_of host_of port_of join). Qed.

  (* everything else is refused: the run with an allow-list is the run without one, cut at the first request whose URI
     is not allowed; that request is not sent, nothing is sent after it, and the result is UriDisallowed *)
  Theorem c26_everything_else_refused : forall hs ar rq st,
    (let '(_, tr, r) := stack (Some hs) ar (transport U) rq st in (tr, r))
    = truncate U scheme_of host_of port_of (Some hs) (stack None ar (transport U) rq st).
  Proof. exact (stack_truncation U scheme_of host_of port_of join). Qed.
End Stack.

(* the order matters and the model computes: with the allow-list [example.org], a redirect from example.org to evil.com
   is refused with UriDisallowed after one transport call; with the wrappers the other way round (allow-list outside
   the redirect follower) the same script sends a request to evil.com *)
Example c26_example :
  let ex := [101;120;97;109;112;108;101;46;111;114;103] in
  let u0 := OUri 0 (Some s_http) (Some ex) None in
  let evil := OUri 1 (Some s_http) (Some [101;118;105;108;46;99;111;109]) None in
  let tbl := [(0, [49], Some evil)] in
  let script := [inl (Resp 302 (Some [49]))] in
  run_stack tbl (Some [ex]) true u0 [71] [] [] script = ([(0, [71], [], [])], inr EUriDisallowed)
  /\ (let '(_, tr, _) := restricted ouri u_scheme u_host u_port (Some [parse_pattern ex])
                           (redirect ouri u_host (table_join tbl) true (transport ouri)) (Req ouri u0 [71] [] []) script in
      map (fun q => u_id (rq_uri _ q)) tr) = [0; 1].
Proof. vm_compute. split; reflexivity. Qed.
