(* Properties/C39.v — Ingredients carry their source manifests and validation faithfully.
   Model: Model/IngredientImport.v — Builder::add_ingredient_from_stream (ingredient.rs add_stream_internal /
   update_validation_status) and the merge of the ingredient's manifest store into the parent claim
   (store.rs load_ingredient_to_claim, claim.rs replace_ingredient_or_insert), claim v2, no redactions.
   A manifest is (label, identity of its box bytes); the validator and the JUMBF reader are Section variables: the
   ingredient path and a standalone Reader call the same functions on the same asset.  Byte identity of the copied
   manifests and equality of the recorded validation results are checked on the implementation by ./check. *)
From Coq Require Import List NArith Bool Arith.
From C2PA Require Import Model.IngredientImport Proofs.IngredientImportProofs.
Import ListNotations.

(* The parent's store after adding an ingredient whose labels do not conflict (a shared label carries the same bytes):
   every manifest of the ingredient is there under its own label with its own bytes, every manifest that was there
   before is unchanged, and nothing else was touched.  For all stores. *)
Theorem c39_manifests_unchanged :
  forall cur inc,
    NoDup (map mf_label inc) -> compatible cur inc ->
    exists s, load_ingredient cur inc = MOk s
              /\ (forall m, In m inc -> find (mf_label m) s = Some m)
              /\ (forall c, find (mf_label c) cur = Some c -> find (mf_label c) s = Some c).
Proof. exact load_unchanged. Qed.

Theorem c39_only_ingredient_labels_added :
  forall cur inc s l, compatible cur inc -> load_ingredient cur inc = MOk s ->
    ~ In l (map mf_label inc) -> find l s = find l cur.
Proof. exact load_adds_only_incoming. Qed.

(* Label conflict (same label, different bytes, no redaction difference), one conflicting manifest: the documented
   relabelling stores a copy under guid:(max version + 1)_1 with the ingredient's bytes — but only when some label in the
   parent's ingredient store already carries a version; otherwise the call fails with "ingredient label malformed".
   Partial: one conflict per call; redaction-difference branches are not modelled. *)
Theorem c39_conflict_relabelled_partial :
  forall cur i c,
    find (mf_label i) cur = Some c -> mf_bytes c <> mf_bytes i ->
    match max_version cur with
    | None => load_ingredient cur [i] = MErrLabelMalformed
    | Some v => exists s, load_ingredient cur [i] = MOk s
                          /\ (relabel (mf_label i) (S v) <> mf_label i ->
                              find (relabel (mf_label i) (S v)) s = Some (mkMf (relabel (mf_label i) (S v)) (mf_bytes i)))
                          /\ find (mf_label i) s = Some i
    end.
Proof. exact conflict_relabelled. Qed.

(* ...and in that case the manifest that was in the store under the shared label is replaced by the incoming one
   (the relabelled copy does not protect it): the "unchanged" statement is false of the model under a conflict. *)
Theorem c39_conflict_overwrites_refuted :
  exists s, load_ingredient overwrite_cur [overwrite_inc] = MOk s
            /\ find (7, Some (1, None)) overwrite_cur = Some (mkMf (7, Some (1, None)) 100)
            /\ find (7, Some (1, None)) s = Some (mkMf (7, Some (1, None)) 200)
            /\ find (7, Some (2, Some 1)) s = Some (mkMf (7, Some (2, Some 1)) 200).
Proof. exact conflict_overwrites_refuted. Qed.

(* The validation recorded with the ingredient is the result of reading the asset on its own, and the recorded manifest
   data is the asset's store, for every asset, reader and validator. *)
Theorem c39_validation_copied :
  forall (Asset : Type) (store_of : Asset -> option (list Mf)) (validate : Asset -> list Mf -> ReadM) a,
    ig_validation (add_ingredient_from_stream Asset store_of validate a) = standalone_read Asset store_of validate a.
Proof. exact validation_copied. Qed.

Theorem c39_manifest_data_copied :
  forall (Asset : Type) (store_of : Asset -> option (list Mf)) (validate : Asset -> list Mf -> ReadM) a,
    ig_manifest_data (add_ingredient_from_stream Asset store_of validate a) = store_of a.
Proof. exact manifest_data_copied. Qed.

(* An unsigned asset records no manifest, no active label and no validation result, and leaves the store as it was. *)
Theorem c39_unsigned_nothing :
  forall (Asset : Type) (store_of : Asset -> option (list Mf)) (validate : Asset -> list Mf -> ReadM) cur a,
    store_of a = None -> import Asset store_of validate cur a = (MOk cur, mkIngr None None None).
Proof. exact unsigned_nothing. Qed.

(* Signed asset, end to end in the model: manifests copied unchanged, store preserved, validation = standalone read. *)
Theorem c39_signed_import :
  forall (Asset : Type) (store_of : Asset -> option (list Mf)) (validate : Asset -> list Mf -> ReadM) cur a st,
    store_of a = Some st -> NoDup (map mf_label st) -> compatible cur st ->
    exists s, fst (import Asset store_of validate cur a) = MOk s
              /\ (forall m, In m st -> find (mf_label m) s = Some m)
              /\ (forall c, find (mf_label c) cur = Some c -> find (mf_label c) s = Some c)
              /\ ig_validation (snd (import Asset store_of validate cur a)) = Some (validate a st).
Proof. exact signed_import_unchanged. Qed.

(* the model computes: a chain A <- B added next to A itself: A's manifest is shared, nothing is duplicated *)
Example c39_example :
  c39_eval [Some [mkMf (1, None) 10]; None; Some [mkMf (1, None) 10; mkMf (2, None) 20]]
  = Some [((1, None), 10); ((2, None), 20)].
Proof. vm_compute. reflexivity. Qed.
