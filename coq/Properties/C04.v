(* Properties/C04.v — Validation state is derived soundly from validation codes.
   Statements only; every theorem is closed by [exact] of a lemma in Proofs/ValStateProofs.v.
   Model: Model/ValState.v (ValidationResults::add_status / validation_state, Reader::validation_state).
   The lists of codes the decision consults are regenerated from the sources into Generated/C04_facts.v;
   [c04_constants_pinned] ties them to the codes named by the property text.

   Vocabulary (Proofs/ValStateProofs.v):
     active_success r  success codes of the active manifest          all_failures r  failure codes of the active
     tolerated c       c is a tolerated credential code                                manifest and of every delta
     valid_cond r      active manifest present, claimSignature.validated and .insideValidity among its success
                       codes, every failure tolerated
     trusted_cond r    valid_cond, signingCredential.trusted among the success codes, no failure at all *)
From Coq Require Import List NArith Bool String.
From C2PA Require Import Base.Bytes Model.ByteStr Generated.C04_facts Model.ValState
     Proofs.ByteStrProofs Proofs.ValStateProofs.
Import ListNotations.
Open Scope N_scope.

(* the codes consulted by the implementation are the ones the property names *)
Theorem c04_constants_pinned :
  valid_success_req = [b "claimSignature.validated"; b "claimSignature.insideValidity"]
  /\ trusted_success_req = [b "signingCredential.trusted"]
  /\ tolerated_exact = [b "signingCredential.untrusted"]
  /\ tolerated_prefixes = [b "cawg."]
  /\ legacy_tolerated = b "signingCredential.untrusted".
Proof. repeat split. Qed.

(* Valid (or better) only if the claim signature validated inside its validity period and every failure of the
   active manifest and of every ingredient delta is tolerated *)
Theorem c04_valid_only_if :
  forall r, validation_state r = Valid \/ validation_state r = Trusted ->
            incl valid_success_req (active_success r) /\ Forall tolerated (all_failures r).
Proof. exact valid_only_if. Qed.

(* Trusted only if additionally the credential was found trusted and there is no failure at all *)
Theorem c04_trusted_only_if :
  forall r, validation_state r = Trusted ->
            incl trusted_success_req (active_success r) /\ all_failures r = []
            /\ incl valid_success_req (active_success r).
Proof. exact trusted_only_if. Qed.

(* otherwise Invalid *)
Theorem c04_invalid_otherwise : forall r, ~ valid_cond r -> validation_state r = Invalid.
Proof. exact invalid_otherwise. Qed.

(* the decision is exactly the specification (both directions) *)
Theorem c04_trusted_iff : forall r, validation_state r = Trusted <-> trusted_cond r.
Proof. exact state_trusted_iff. Qed.
Theorem c04_valid_iff : forall r, validation_state r = Valid <-> valid_cond r /\ ~ trusted_cond r.
Proof. exact state_valid_iff. Qed.
Theorem c04_trusted_implies_valid : forall r, trusted_cond r -> valid_cond r.
Proof. intros r H; exact (proj1 H). Qed.

(* monotonicity: a non-tolerated failure anywhere (active manifest or any delta, however it got there) forces
   Invalid; in particular add_status of one never yields Valid or Trusted; and no failure ever raises the state *)
Theorem c04_monotone_any_bucket :
  forall r c, In c (all_failures r) -> ~ tolerated c -> validation_state r = Invalid.
Proof. exact bad_failure_invalid. Qed.
Theorem c04_monotone :
  forall r s, skind s = KFailure -> ~ tolerated (scode s) -> validation_state (add_status r s) = Invalid.
Proof. exact monotone_add_status. Qed.
Theorem c04_failure_never_raises :
  forall r s, skind s = KFailure -> vle (validation_state (add_status r s)) (validation_state r).
Proof. exact failure_never_raises. Qed.

(* routing of add_status: no ingredient URI -> the active manifest (created when absent), list chosen by the
   status' kind, appended; with URI u -> the first delta with that URI (created at the end when absent), every other
   delta and the active manifest untouched *)
Theorem c04_add_status_routes_active :
  forall r s, suri s = None ->
    add_status r s = VR (Some (sc_add (match active r with Some a => a | None => sc_empty end) s)) (deltas r).
Proof. exact add_status_active. Qed.
Theorem c04_add_status_routes_ingredient :
  forall r s u, suri s = Some u ->
    active (add_status r s) = active r
    /\ (forall v, find_delta v (delta_list (add_status r s))
                  = if beq u v then Some (sc_add (match find_delta u (delta_list r) with Some sc => sc | None => sc_empty end) s)
                    else find_delta v (delta_list r))
    /\ map duri (delta_list (add_status r s))
       = if existsb (fun d => beq (duri d) u) (delta_list r) then map duri (delta_list r) else map duri (delta_list r) ++ [u].
Proof. exact add_status_ingredient. Qed.
Theorem c04_add_status_bucket :
  forall sc s k,
    bucket k (sc_add sc s) = if match k, skind s with
                                | KSuccess, KSuccess | KInformational, KInformational | KFailure, KFailure => true
                                | _, _ => false end
                             then bucket k sc ++ [s] else bucket k sc.
Proof. exact sc_add_bucket. Qed.

(* log_kind (used to restore the kind of ingredient statuses) files the codes the decision needs where it looks *)
Theorem c04_log_kind_required :
  Forall (fun c => log_kind c = KSuccess) (valid_success_req ++ trusted_success_req)
  /\ Forall (fun c => log_kind c = KFailure) tolerated_exact.
Proof. exact log_kind_required. Qed.

(* Reader::validation_state: with a results object all of the above applies unchanged *)
Theorem c04_reader_with_results :
  forall rd r, rd_results rd = Some r -> reader_state rd = validation_state r.
Proof. exact reader_with_results. Qed.

(* legacy status-list fallback (no results object).  It has no success codes to consult, so every outcome other
   than Invalid is unsupported by the property.  Known class F-LEGACY: the list is absent or holds nothing but
   signingCredential.untrusted. *)
Theorem c04_legacy_outside_known :
  forall vt st, ~ known_legacy st -> legacy_state vt st = Invalid.
Proof. exact legacy_outside_known. Qed.
Theorem c04_legacy_no_bad_failure :
  forall vt l, Exists (fun c => c <> legacy_tolerated) l -> legacy_state vt (Some l) = Invalid.
Proof. exact legacy_bad_failure. Qed.
(* inside the known class the state is decided by the verify_trust setting alone *)
Theorem c04_legacy_known_class :
  forall vt st, legacy_state vt st <> Invalid ->
    (forall l, st = Some l -> Forall (fun c => c = legacy_tolerated) l)
    /\ legacy_state vt st = (if vt then Trusted else Valid).
Proof. exact legacy_not_invalid. Qed.
(* the known class is real: Trusted with a listed failure, Trusted/Valid with nothing known (replayed by ./check) *)
Theorem c04_legacy_trusted_needs_trusted_refuted :
  legacy_state true (Some [legacy_tolerated]) = Trusted /\ legacy_state true None = Trusted
  /\ legacy_state false None = Valid.
Proof. exact legacy_refuted. Qed.

(* non-vacuity: the conditions are met by concrete results, and the model computes all three states *)
Example c04_example :
  let ok := St (b "claimSignature.validated") KSuccess None in
  let iv := St (b "claimSignature.insideValidity") KSuccess None in
  let tr := St (b "signingCredential.trusted") KSuccess None in
  let un := St (b "signingCredential.untrusted") KFailure (Some (b "self#jumbf=c2pa.assertions/c2pa.ingredient.v3")) in
  let bad := St (b "assertion.dataHash.mismatch") KFailure None in
  validation_state (add_all (VR None None) [ok; iv; tr]) = Trusted
  /\ validation_state (add_all (VR None None) [ok; iv; tr; un]) = Valid
  /\ validation_state (add_all (VR None None) [ok; iv; tr; un; bad]) = Invalid
  /\ trusted_cond (add_all (VR None None) [ok; iv; tr]).
Proof. cbv zeta. rewrite <- state_trusted_iff. vm_compute. repeat split. Qed.
