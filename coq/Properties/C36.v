(* Properties/C36.v — Time-stamps are used only when they match the signature.
   Statements only; every theorem is closed by [exact] of a lemma in Proofs/TimestampProofs.v.

   The model (Model/Timestamp.v) transcribes verify_time_stamp, the sigTst/sigTst2 handling, verify_cose's choice of the
   signing time and the validity-at-signing-time rule.  ASN.1/CMS/CBOR decoding, the hash [H], the CMS signature check
   [Verify], certificate path building [trusted], the countersign structure and CBOR byte-string encoders are universally
   quantified oracles: every theorem holds for all of them (level: partial — the decision logic around the oracles).

   [header_bound hs cd sig ph vt t] says: the first sigTst2/sigTst header holds exactly one token, and one of its
   SignerInfos (with an embedded certificate c) satisfies
        Verify c.key digest_alg signature (DER(signed attributes) | eContent) = true        -- CMS signature
        message-digest attribute = H(eContent)  (when signed attributes are present)
        H alg (countersign (claim data | cbor_bstr signature) protected) = TSTInfo.messageImprint    -- per sigTst / sigTst2
        time inside the TSA certificate's validity widened by the token's accuracy
        (vt = true: id-kp-timeStamping present, TSA certificate profile at that time and trust at that time)
   and t is the TSTInfo with genTime replaced by the signed signing-time attribute when there is one. *)
From Coq Require Import List NArith ZArith Bool.
From C2PA Require Import Base.Bytes Generated.C36_facts Model.Timestamp Proofs.TimestampProofs.
Import ListNotations.
Open Scope Z_scope.

(* A signing time is taken from a header token only if imprint and CMS signature check; the log is then
   timeStamp.validated + timeStamp.trusted. *)
Theorem c36_used_only_if_bound :
  forall H Verify profile_rest trusted countersign cbor_bstr c hs cd sig ph vt now t,
    v_time (verify_cose H Verify profile_rest trusted countersign cbor_bstr c None hs cd sig ph vt now) = Some t ->
    header_bound H Verify profile_rest trusted countersign cbor_bstr hs cd sig ph vt t /\
    v_log (verify_cose H Verify profile_rest trusted countersign cbor_bstr c None hs cd sig ph vt now) = [LTs TsValidated; LTs TsTrusted].
Proof. exact used_only_if_bound. Qed.

(* Otherwise no time is used and timeStamp.trusted is never reported. *)
Theorem c36_unbound_not_used :
  forall H Verify profile_rest trusted countersign cbor_bstr c hs cd sig ph vt now,
    (forall t, ~ header_bound H Verify profile_rest trusted countersign cbor_bstr hs cd sig ph vt t) ->
    v_time (verify_cose H Verify profile_rest trusted countersign cbor_bstr c None hs cd sig ph vt now) = None /\
    ~ In (LTs TsTrusted) (v_log (verify_cose H Verify profile_rest trusted countersign cbor_bstr c None hs cd sig ph vt now)).
Proof. exact unbound_not_used. Qed.

(* ... and a timeStamp.malformed / mismatch / outsideValidity / untrusted code is reported, for every token that has at
   least one SignerInfo and whose embedded signer certificates parse with x509-parser.  (F-TS-SILENT was repaired by
   5b12435f8: a SignerInfo whose certificate is not embedded now logs timeStamp.untrusted, so no known class is needed;
   what remains silent is an empty SignerInfos set and the `?` exit of certificate ordering — [known_silent].) *)
Theorem c36_failure_reported :
  forall H Verify profile_rest trusted countersign cbor_bstr c st tk rest cd sig ph vt now,
    (forall t, ~ header_bound H Verify profile_rest trusted countersign cbor_bstr ((st, Some [tk]) :: rest) cd sig ph vt t) ->
    tk_signers tk <> [] -> certs_parse tk ->
    has_failure_code (v_log (verify_cose H Verify profile_rest trusted countersign cbor_bstr c None ((st, Some [tk]) :: rest) cd sig ph vt now)).
Proof. exact failure_reported_structural. Qed.

(* the general form: silence only for the residual class *)
Theorem c36_failure_reported_general :
  forall H Verify profile_rest trusted countersign cbor_bstr c st tk rest cd sig ph vt now,
    (forall t, ~ header_bound H Verify profile_rest trusted countersign cbor_bstr ((st, Some [tk]) :: rest) cd sig ph vt t) ->
    ~ known_silent H Verify profile_rest trusted tk (stamped_message countersign cbor_bstr st cd sig ph) vt ->
    has_failure_code (v_log (verify_cose H Verify profile_rest trusted countersign cbor_bstr c None ((st, Some [tk]) :: rest) cd sig ph vt now)).
Proof. exact failure_reported. Qed.

(* a token none of whose SignerInfos has an embedded certificate: reported timeStamp.untrusted (was: dropped silently) *)
Theorem c36_missing_signer_cert_reported :
  forall H Verify profile_rest trusted tk data vt,
    tk_signed_data tk = true -> tk_certs tk = Some true ->
    tk_signers tk <> [] -> Forall (fun s => si_cert s = None) (tk_signers tk) ->
    verify_time_stamp H Verify profile_rest trusted tk data vt = (Err EUntrusted, [LTs TsUntrusted]).
Proof. exact missing_signer_cert_reported. Qed.

(* regression witness of the repaired F-TS-SILENT (corpus line 3) *)
Theorem c36_missing_cert_example :
  v_time (w_run (w_token None)) = None /\ v_log (w_run (w_token None)) = [LTs TsUntrusted] /\ v_expired (w_run (w_token None)) = true.
Proof. exact missing_cert_reported_example. Qed.

(* SignatureInfo.time (signing_time_from_sign1: no trust checks) is shown only for a bound, CMS-verified token. *)
Theorem c36_reported_time_bound :
  forall H Verify profile_rest trusted countersign cbor_bstr hs cd sig ph z,
    reported_time H Verify profile_rest trusted countersign cbor_bstr hs cd sig ph = Some z ->
    exists t, header_bound H Verify profile_rest trusted countersign cbor_bstr hs cd sig ph false t /\ ti_gen_time t = z.
Proof. exact reported_time_bound. Qed.

(* Time-stamp assertions (store.rs): a time enters svi.timestamps only if the token is bound to the raw signature bytes
   of the referenced manifest and its CMS signature verifies.  (partial: proved on the model, not exercised by the run) *)
Theorem c36_assertion_time_bound_partial :
  forall H Verify profile_rest trusted tk sig v1 t,
    assertion_time H Verify profile_rest trusted tk sig v1 = Some t ->
    exists s, In s (tk_signers tk) /\ bound H Verify profile_rest trusted tk sig (negb v1) s t.
Proof. exact assertion_time_bound. Qed.

(* A certificate outside its validity now is accepted only if a bound, verified token places signing inside the window. *)
Theorem c36_expired_needs_tst :
  forall H Verify profile_rest trusted countersign cbor_bstr c hs cd sig ph vt now,
    valid_at (cr_not_before c) (cr_not_after c) now = false ->
    v_accepted (verify_cose H Verify profile_rest trusted countersign cbor_bstr c None hs cd sig ph vt now) = true ->
    exists t, header_bound H Verify profile_rest trusted countersign cbor_bstr hs cd sig ph vt t /\
              cr_not_before c <= ti_gen_time t <= cr_not_after c.
Proof. exact expired_needs_bound_token. Qed.

(* the same with a time supplied by a time-stamp assertion *)
Theorem c36_expired_needs_time :
  forall H Verify profile_rest trusted countersign cbor_bstr c ov hs cd sig ph vt now,
    valid_at (cr_not_before c) (cr_not_after c) now = false ->
    v_accepted (verify_cose H Verify profile_rest trusted countersign cbor_bstr c ov hs cd sig ph vt now) = true ->
    exists t, v_time (verify_cose H Verify profile_rest trusted countersign cbor_bstr c ov hs cd sig ph vt now) = Some t /\
              cr_not_before c <= ti_gen_time t <= cr_not_after c.
Proof. exact expired_needs_time. Qed.

(* without a usable token the expired credential is reported expired and not accepted *)
Theorem c36_expired_without_time :
  forall H Verify profile_rest trusted countersign cbor_bstr c hs cd sig ph vt now,
    valid_at (cr_not_before c) (cr_not_after c) now = false ->
    (forall t, ~ header_bound H Verify profile_rest trusted countersign cbor_bstr hs cd sig ph vt t) ->
    v_expired (verify_cose H Verify profile_rest trusted countersign cbor_bstr c None hs cd sig ph vt now) = true /\
    v_accepted (verify_cose H Verify profile_rest trusted countersign cbor_bstr c None hs cd sig ph vt now) = false.
Proof. exact expired_without_time. Qed.

(* TSA certificate checks (trust on): the accepted TSA certificate carries id-kp-timeStamping and nothing else.
   (F-TSA-EKU was repaired by a6060c320: verify_time_stamp now requires the EKU explicitly, so the statement holds
   without a known class and without any assumption on has_allowed_eku.) *)
Theorem c36_tsa_eku :
  forall H Verify profile_rest trusted tk data s t,
    bound H Verify profile_rest trusted tk data true s t ->
    forall c, si_cert s = Some c ->
    exists e, tc_eku c = Some e /\ eku_any e = false /\
              eku_time_stamping e = true /\ eku_email_protection e = false /\ eku_ocsp_signing e = false /\
              eku_client_auth e = false /\ eku_server_auth e = false /\ eku_code_signing e = false /\ eku_other_nonempty e = false.
Proof. exact tsa_eku. Qed.

(* regression witness of the repaired F-TSA-EKU (corpus lines 1-2): an emailProtection-only "TSA" no longer rescues an
   expired credential *)
Theorem c36_email_tsa_rejected :
  v_accepted (w_run (w_token (Some (w_cert w_eku_email)))) = false
  /\ v_log (w_run (w_token (Some (w_cert w_eku_email)))) = [LTs TsValidated; LTs TsUntrusted].
Proof. exact email_tsa_rejected_example. Qed.

(* tie to the source: the order of status constants in verify_time_stamp is the one the model transcribes *)
Theorem c36_status_sequence_tie : map code_num model_status_sequence = VERIFY_TS_STATUS_SEQ.
Proof. exact status_sequence_tie. Qed.

(* the hypotheses are satisfiable and the model computes a non-trivial case: expired credential (now = 1000, window
   100..200), sigTst2 token by a time-stamping certificate with genTime 150 over cbor_bstr(signature): accepted *)
Example c36_example :
  v_accepted (w_run (w_token (Some (w_cert w_eku_tsa)))) = true
  /\ v_log (w_run (w_token (Some (w_cert w_eku_tsa)))) = [LTs TsValidated; LTs TsTrusted].
Proof. exact example_accepts. Qed.
