(* Properties/C13.v — statements only; proofs live in Proofs/. *)
From Coq Require Import List NArith Bool.
From C2PA Require Import Base.Bytes Model.RangeHash Proofs.BytesProofs.
Import ListNotations.
Open Scope N_scope.

(* chunk-size independence of the hasher input at the level of one range *)
Theorem c13_chunks_concat :
  forall (A : Type) (fuel k : nat) (l : list A),
    (1 <= k)%nat -> (length l <= fuel)%nat -> concat (chunks fuel k l) = l.
Proof. exact @chunks_concat. Qed.
