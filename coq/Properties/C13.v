(* Properties/C13.v — Range hashing equals the digest of exactly the selected bytes.
   Statements only; every theorem is closed by [exact] of a lemma in Proofs/.
   The model (Model/RangeHash.v) returns the list of byte strings handed to Hasher::update; the
   hasher input is their concatenation, so "digest of exactly the selected bytes" is
   [hasher_input r = <selected bytes>] for any hash function. *)
From Coq Require Import List NArith Bool Lia.
From C2PA Require Import Base.Bytes Model.RangeHash Model.HashPipeline
     Proofs.BytesProofs Proofs.RangeHashProofs Proofs.RangeHashMarkers Proofs.HashPipelineProofs Generated.C13_facts.
Import ListNotations.
Open Scope N_scope.

(* Exclusion mode, any unsorted/overlapping/adjacent/empty in-bounds ranges, any chunk size:
   the hasher receives exactly the bytes not covered by an exclusion, in file order. *)
Theorem c13_exclusion_spec :
  forall debug data hr buf,
    1 <= len data -> len data < U64 -> (debug = false \/ len data < U32) -> 1 <= buf ->
    Forall no_marker hr -> Forall (in_bounds (len data)) hr ->
    exists r, hash_model debug data hr true buf = Ok r /\ hasher_input r = sel hr 0 data.
Proof. exact exclusion_spec. Qed.

(* Exclusion mode with BMFF offset markers (HashRange entries carrying bmff_offset): every marker position o
   contributes be64(o) immediately before the byte at o; everything else as above.  Markers are distinct and sit
   on hashed (non-excluded) positions, as the SDK generates them (top-level box starts); the known class
   F-MARKER1 (a marker whose following byte is excluded, is another marker, or is the end of the data) is excluded.
   The outcome is never an error; a debug build may only panic on u32 overflow of the progress total. *)
Theorem c13_exclusion_markers_spec :
  forall debug data hr buf,
    1 <= len data -> len data < U64 -> 1 <= buf ->
    Forall (in_bounds (len data)) hr ->
    NoDup (markers_of hr) ->
    (forall o, In o (markers_of hr) -> o < len data /\ covered (plain_of hr) o = false) ->
    ~ known_excl (len data) hr ->
    match hash_model debug data hr true buf with
    | Ok r => hasher_input r = selm (plain_of hr) (markers_of hr) 0 data
    | Err _ => False
    | Panic => debug = true
    end.
Proof. exact exclusion_markers_spec. Qed.

(* Inclusion mode (markers allowed): each non-empty range's bytes in stable start order, each preceded by
   its 8-byte big-endian marker, outside the known class F-MARKER1 (a one-byte range starting at a marker). *)
Theorem c13_inclusion_spec :
  forall debug data hr buf,
    1 <= len data -> len data < U64 -> 1 <= buf -> hr <> [] ->
    Forall (in_bounds (len data)) hr ->
    (debug = false \/ total_ticks buf (incl_vec (sort_by hstart hr)) < U32) ->
    ~ known_incl hr ->
    exists r, hash_model debug data hr false buf = Ok r /\ hasher_input r = sel_incl data hr.
Proof. exact inclusion_spec. Qed.

(* the known class is real: witnesses evaluated on the model (and replayed on the implementation by ./check) *)
Theorem c13_marker1_refuted :
  exists r, hash_model true marker1_data marker1_ranges true 4 = Ok r
            /\ hasher_input r = be 8 5 ++ be 8 5 /\ hasher_input r <> be 8 5 ++ [15].
Proof. exact marker1_refuted. Qed.

(* chunk-size independence: cutting a range into chunks of any size >= 1 and absorbing them in order
   feeds the hasher the same bytes *)
Theorem c13_chunk_independent :
  forall (fuel k : nat) (l : bytes), (1 <= k)%nat -> (length l <= fuel)%nat -> concat (chunks fuel k l) = l.
Proof. exact (@chunks_concat N). Qed.

(* the source's default chunk size satisfies the hypothesis [1 <= buf] of the theorems above *)
Theorem c13_default_buf_ok : 1 <= MAX_HASH_BUF /\ MAX_HASH_BUF < U64.
Proof. unfold MAX_HASH_BUF, U64. lia. Qed.

(* thread pipelining: every terminating interleaving of main thread and worker absorbs the chunks in order,
   no reachable state is stuck, and every schedule terminates (strictly decreasing measure) *)
Theorem c13_schedule_independent :
  forall c p h, psteps (PLoop [] c p) (PDone h) -> h = c :: p.
Proof. exact schedule_independent. Qed.
Theorem c13_pipeline_no_deadlock :
  forall s, (exists h, s = PDone h) \/ exists s', pstep s s'.
Proof. exact no_deadlock. Qed.
Theorem c13_pipeline_terminates :
  forall s s', pstep s s' -> (pmeasure s' < pmeasure s)%nat.
Proof. exact pstep_decreases. Qed.

(* a range (of either mode, marker or not) reaching past the end of the data is an error, never a digest *)
Theorem c13_past_end_rejected :
  forall debug data hr excl buf,
    Exists (fun r => len data < hstart r + hlen r) hr ->
    exists e, hash_model debug data hr excl buf = Err e.
Proof. exact past_end_rejected. Qed.

Theorem c13_empty_stream :
  forall debug hr excl buf, hash_model debug [] hr excl buf = Err ENoData.
Proof. exact empty_stream. Qed.

(* progress: callbacks are numbered 1..n and n equals the announced total (streams below 4 GiB) *)
Theorem c13_progress :
  forall debug data hr buf,
    1 <= len data -> len data < U32 -> 1 <= buf ->
    Forall no_marker hr -> Forall (in_bounds (len data)) hr ->
    exists r, hash_model debug data hr true buf = Ok r /\ nticks r = total r.
Proof. exact exclusion_progress. Qed.

(* non-vacuity: the hypotheses are met by a non-trivial input, and the model computes the expected bytes *)
Example c13_example :
  hash_run true [1;2;3;4;5;6;7;8;9;10] [HR 7 2 None; HR 1 3 None; HR 2 4 None; HR 0 0 None] true 3
  = Ok ([1;7;10], 3, 3).
Proof. vm_compute. reflexivity. Qed.
