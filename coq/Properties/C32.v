(* Properties/C32.v — c2patool never clobbers outputs (the "signed files validate" half is established by
   the run: every exit-0 signing run of the materialised cube is read back).
   The model (Model/CliPaths.v) maps a record of 14 predicates about the command line and the directory state
   to the ordered list of file-system effects of cli/src/main.rs; the record type is finite (138 240
   inhabitants, all enumerated in [all_cli]) and every theorem quantifies over the whole type:
   [forallb .. all_cli = true] by vm_compute, lifted with forallb_forall and [all_cli_complete].
   The model reads two facts regenerated from the source on every run (Generated/C32_facts.v): whether the
   sidecar write and the init-segment write are guarded by an existence test (both true since the repairs
   5fdfaf69f and 414c938c4; [decide_g sg fg] is the decision for any setting of the two). *)
From Coq Require Import List Bool NArith.
From C2PA Require Import Generated.C32_facts Model.CliPaths Proofs.CliPathsProofs.
Import ListNotations.

(* the enumeration used below is the whole domain *)
Theorem c32_domain_complete : forall r : cli, In r all_cli.
Proof. exact all_cli_complete. Qed.

(* No Remove / Write / RemoveTree of a path that existed before the run unless --force: the whole domain, no
   excluded class (both existence tests are present in the source: facts sidecar_write_guarded = frag_init_guarded
   = true, regenerated on every run; the proof is a computation over [decide], so it fails if they flip back). *)
Theorem c32_no_clobber :
  forall r e p, In e (decide r) -> destructive e = Some p -> exists_before r p = true -> force r = true.
Proof. exact no_clobber_prop. Qed.

(* the same statement in the computed form, with the domain spelled out *)
Theorem c32_no_clobber_domain : forallb no_clobber_b all_cli = true.
Proof. exact no_clobber_all. Qed.

(* for every setting of the two guards: clobbering is confined to the class of the missing guard *)
Theorem c32_no_clobber_any_guards :
  forall sg fg r, guard_class sg fg r = false ->
  forall e p, In e (decide_g sg fg r) -> destructive e = Some p -> exists_before r p = true -> force r = true.
Proof. exact no_clobber_any_guards. Qed.

(* the behaviour before the repairs, stated about the old decision function:
   F-CLI-SIDECAR (fixed by 5fdfaf69f): `c2patool in.jpg -m m.json -o out.jpg --sidecar`, existing out.c2pa, no -f:
   the unguarded decision writes the sidecar, the guarded one refuses before writing anything *)
Theorem c32_old_sidecar_refuted :
  realisable sidecar_witness = true /\ force sidecar_witness = false
  /\ In (Write PSidecar) (decide_g false true sidecar_witness) /\ exists_before sidecar_witness PSidecar = true
  /\ decide_g true true sidecar_witness = [Bail].
Proof. exact old_sidecar_refuted. Qed.

(* F-CLI-FRAG-INIT (fixed by 414c938c4): fragment mode with an existing outdir/<rendition>/init.mp4, no -f *)
Theorem c32_old_frag_init_refuted :
  realisable frag_init_witness = true /\ force frag_init_witness = false
  /\ In (Write PFragInit) (decide_g true false frag_init_witness) /\ exists_before frag_init_witness PFragInit = true
  /\ decide_g true true frag_init_witness = [Write PFragSeg; Fail].
Proof. exact old_frag_init_refuted. Qed.

(* the two old classes were exactly where the old decision clobbered (realisable records) *)
Theorem c32_old_known_exact :
  forall r, realisable r = true -> old_known r = negb (no_clobber_of (decide_g false false) r).
Proof. exact old_known_exact. Qed.

(* a refusal by the tool itself (bail!) happens before anything is modified *)
Theorem c32_refusal_is_pure : forall r, In Bail (decide r) -> forall e, In e (decide r) -> destructive e = None.
Proof. exact bail_pure. Qed.

(* the sidecar path is only ever touched when --sidecar and a manifest definition are given *)
Theorem c32_sidecar_needs_flag :
  forall r e, In e (decide r) -> names e PSidecar = true -> sidecar r = true /\ has_manifest r = true.
Proof. exact sidecar_flag. Qed.

(* no effect names the input file as such (it is only rewritten as the output, when -o is the input and -f) *)
Theorem c32_input_kept : forall r e, In e (decide r) -> names e PIn = false.
Proof. exact input_kept. Qed.

(* non-vacuity: the plain signing run writes the output and reports; a forced overwrite removes then writes *)
Example c32_example :
  decide (Build_cli true false OAbsent Different true false false SAbsent false false FNone false false false)
    = [Write POut; Report]
  /\ decide (Build_cli true false OFile Different true true false SAbsent false false FNone false false false)
    = [Remove POut; Write POut; Report]
  /\ decide (Build_cli true false OFile Different true false false SAbsent false false FNone false false false)
    = [Bail]
  /\ N.of_nat (length all_cli) = 138240%N.
Proof. vm_compute. repeat split; reflexivity. Qed.
