(* Properties/C32.v — c2patool never clobbers outputs (the "signed files validate" half is established by
   the run: every exit-0 signing run of the materialised cube is read back).
   The model (Model/CliPaths.v) maps a record of 14 predicates about the command line and the directory state
   to the ordered list of file-system effects of cli/src/main.rs; the record type is finite (138 240
   inhabitants, all enumerated in [all_cli]) and every theorem quantifies over the whole type:
   [forallb .. all_cli = true] by vm_compute, lifted with forallb_forall and [all_cli_complete].
   The model reads two facts regenerated from the source on every run (Generated/C32_facts.v): whether the
   sidecar write and the init-segment write are guarded by an existence test (both false on the pinned tree). *)
From Coq Require Import List Bool NArith.
From C2PA Require Import Generated.C32_facts Model.CliPaths Proofs.CliPathsProofs.
Import ListNotations.

(* the enumeration used below is the whole domain *)
Theorem c32_domain_complete : forall r : cli, In r all_cli.
Proof. exact all_cli_complete. Qed.

(* No Remove / Write / RemoveTree of a path that existed before the run unless --force, outside the two known
   classes (sidecar file exists, --sidecar, no --force; init segment exists in the fragment output folder). *)
Theorem c32_no_clobber :
  forall r, known r = false ->
  forall e p, In e (decide r) -> destructive e = Some p -> exists_before r p = true -> force r = true.
Proof. exact no_clobber_prop. Qed.

(* the same statement in the computed form, with the domain spelled out *)
Theorem c32_no_clobber_domain : forallb (fun r => known r || no_clobber_b r) all_cli = true.
Proof. exact no_clobber_all. Qed.

(* F-CLI-SIDECAR: `c2patool in.jpg -m m.json -o out.jpg --sidecar` with an existing out.c2pa and no -f *)
Theorem c32_no_clobber_refuted_sidecar :
  sidecar_write_guarded = false ->
  exists r, realisable r = true /\ force r = false /\ In (Write PSidecar) (decide r) /\ exists_before r PSidecar = true.
Proof. exact sidecar_refuted. Qed.

(* F-CLI-FRAG-INIT: `c2patool init.mp4 -m m.json -o outdir fragment --fragments_glob G` with an existing
   outdir/<rendition>/init.mp4 and no -f *)
Theorem c32_no_clobber_refuted_frag_init :
  frag_init_guarded = false ->
  exists r, realisable r = true /\ force r = false /\ In (Write PFragInit) (decide r) /\ exists_before r PFragInit = true.
Proof. exact frag_init_refuted. Qed.

(* the known classes are exact: on every realisable record, known <-> the property fails *)
Theorem c32_known_exact : forall r, realisable r = true -> known r = negb (no_clobber_b r).
Proof. exact known_exact. Qed.

(* a refusal by the tool itself (bail!) happens before anything is modified *)
Theorem c32_refusal_is_pure : forall r, In Bail (decide r) -> forall e, In e (decide r) -> destructive e = None.
Proof. exact bail_pure. Qed.

(* the sidecar path is only ever touched when --sidecar and a manifest definition are given *)
Theorem c32_sidecar_needs_flag :
  forall r e, In e (decide r) -> names e PSidecar = true -> sidecar r = true /\ has_manifest r = true.
Proof. exact sidecar_flag. Qed.

(* no effect names the input file as such (it is only rewritten as the output, when -o is the input and -f) *)
Theorem c32_input_kept : forall r e, In e (decide r) -> names e PIn = false.
Proof. exact input_kept. Qed.

(* non-vacuity: the plain signing run writes the output and reports; a forced overwrite removes then writes *)
Example c32_example :
  decide (Build_cli true false OAbsent Different true false false SAbsent false false FNone false false false)
    = [Write POut; Report]
  /\ decide (Build_cli true false OFile Different true true false SAbsent false false FNone false false false)
    = [Remove POut; Write POut; Report]
  /\ decide (Build_cli true false OFile Different true false false SAbsent false false FNone false false false)
    = [Bail]
  /\ N.of_nat (length all_cli) = 138240%N.
Proof. vm_compute. repeat split; reflexivity. Qed.
