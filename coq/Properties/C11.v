(* Properties/C11.v — The reader's verdict does not depend on a wrong format hint.
   Statements only; every theorem is closed by [exact] of a lemma in Proofs/SniffProofs.v.

   Model (Model/Sniff.v): [detect] = jumbf_io::container_from_stream (the `if` cascade, generated as MAGIC_ROWS and
   scanned in source order, first 16 bytes, ID3 rule), [container_from_format] = CONTAINER_MAP lookup of the
   normalised format string (generated FORMAT_TABLE), [resolve] = format_from_stream, which is what
   Reader::with_stream passes on to Store::from_stream.  Hints and byte strings are arbitrary (all quantifiers are
   universal); the theorems are about the generated tables, so a change of the source tables re-checks them.
   What the model does not cover — that handlers use the resolved string only through its family — is checked on
   the implementation by the exhaustive hint x asset cross-product in ./check C11. *)
From Coq Require Import List NArith Bool String.
From C2PA Require Import Base.Bytes Model.SniffTypes Generated.C11_facts Model.Sniff Proofs.SniffProofs.
Import ListNotations.
Open Scope N_scope.

(* the family detected from the bytes wins over any hint, known or unknown *)
Theorem c11_detected_wins :
  forall b d, detect b = Some d ->
    forall h, container_from_format (resolve h b) = container_from_format d /\ container_from_format d <> None.
Proof. exact detected_wins. Qed.

(* the hint is used (verbatim) only when detection fails *)
Theorem c11_hint_only_when_undetected :
  forall b, detect b = None -> forall h, resolve h b = h.
Proof. exact hint_only_when_undetected. Qed.

(* two hints always resolve to the same handler family when the bytes are recognised *)
Theorem c11_family_hint_independent :
  forall b d, detect b = Some d ->
    forall h1 h2, container_from_format (resolve h1 b) = container_from_format (resolve h2 b).
Proof. exact resolved_family_hint_independent. Qed.

(* the only influence a hint has on a recognised stream: a hint of the detected family is kept verbatim
   (e.g. "dng" within TIFF), any other hint is replaced by the container id *)
Theorem c11_same_family_hint_kept :
  forall b d h, detect b = Some d -> container_from_format h = Some d -> resolve h b = h.
Proof. exact same_family_hint_kept. Qed.
Theorem c11_other_family_hint_replaced :
  forall b d h, detect b = Some d -> container_from_format h <> Some d -> resolve h b = d.
Proof. exact other_family_hint_replaced. Qed.

(* CONTAINER_MAP is idempotent: the container id of any format string maps to itself *)
Theorem c11_container_idempotent :
  forall h c, container_from_format h = Some c -> container_from_format c = Some c.
Proof. exact container_idem. Qed.

(* rows of the magic table anchored at offset 0 are pairwise exclusive: their order cannot matter *)
Theorem c11_magic_disjoint_partial :
  forall i j n buf,
    (i < List.length MAGIC_ROWS)%nat -> (j < List.length MAGIC_ROWS)%nat -> i <> j ->
    floating (nth i MAGIC_ROWS dummy_row) = false -> floating (nth j MAGIC_ROWS dummy_row) = false ->
    bytes_ok buf ->
    ~ (row_ok n buf (nth i MAGIC_ROWS dummy_row) = true /\ row_ok n buf (nth j MAGIC_ROWS dummy_row) = true).
Proof. exact magic_disjoint_partial. Qed.

(* ... and exactly one row is not anchored at offset 0 (BMFF "ftyp" at offset 4); for that row the full statement
   "no byte string matches two rows of different families" is refuted: "RIFFftyp" matches the RIFF and the BMFF
   row, and the cascade order decides (RIFF).  The verdict stays a function of the bytes alone. *)
Theorem c11_one_floating_row : List.length (filter floating MAGIC_ROWS) = 1%nat.
Proof. exact one_floating_row. Qed.
Theorem c11_magic_disjoint_refuted :
  exists buf i j, bytes_ok buf /\ i <> j
    /\ row_ok (len buf) buf (nth i MAGIC_ROWS dummy_row) = true /\ row_ok (len buf) buf (nth j MAGIC_ROWS dummy_row) = true
    /\ rkind (nth i MAGIC_ROWS dummy_row) = RFam "avi"%string /\ rkind (nth j MAGIC_ROWS dummy_row) = RFam "avif"%string
    /\ detect buf = Some "avi"%string.
Proof. exact magic_overlap_refuted. Qed.

(* no format string is registered by two handlers: the HashMap insertion order of CONTAINER_MAP is immaterial *)
Theorem c11_format_table_nodup : NoDup (map fst FORMAT_TABLE).
Proof. exact format_table_nodup. Qed.

(* non-vacuity: a PNG signature is detected, a wrong hint is overridden, a right one kept, garbage leaves the hint *)
Example c11_example :
  detect [137;80;78;71;13;10;26;10;0;0;0;13] = Some "png"%string
  /\ resolve "image/jpeg" [137;80;78;71;13;10;26;10;0;0;0;13] = "png"%string
  /\ resolve " Image/PNG " [137;80;78;71;13;10;26;10;0;0;0;13] = " Image/PNG "%string
  /\ resolve "xyz" [1;2;3;4] = "xyz"%string
  /\ detect [73;68;51;4;0;0;0;0;0;2;9;9;102;76;97;67] = Some "flac"%string.
Proof. vm_compute. repeat split; reflexivity. Qed.
