(* Properties/C22.v — Saving and restoring a working store preserves the manifest.
   Model: Model/ArchiveRoundTrip.v (Builder::to_archive = working_store_sign: to_claim + archive metadata + box hash;
   Builder::with_archive = Reader::into_builder) on the fields the report depends on: title, format, claim generator
   info, assertions (label, kind, created flag, payload), ingredients (with recorded validation and manifest data),
   thumbnail resource, redactions — and on how a restored builder reaches its resources (URIs into the archive's store,
   resolved through the resolver chain).  The assertion part uses the label dispatch of builder.rs to_claim and the
   report order that C03 proves for the model of Manifest::from_store.  Serialisation is exercised by the run. *)
From Coq Require Import List NArith Bool String.
From C2PA Require Import Model.SignFlow Model.ArchiveRoundTrip Proofs.SignFlowProofs Proofs.ArchiveRoundTripProofs.
Import ListNotations.
Open Scope string_scope.

(* with_archive (to_archive b) is equivalent to b for signing.  For every builder
   - whose assertion labels are fixed points of to_claim's dispatch after one step and are not the archive's bookkeeping
     label (well_formed),
   - whose resources can be produced (resources_ok),
   - outside the open class F-ARCHIVE-DATABOX (archive_safe: claim v2, or no ingredient thumbnails),
   every SDK version tag, fresh labels and signing format: the archive is written, the restored builder signs, and its
   report equals the report of signing the original (all modelled fields: the two ReportM records are equal); the
   three hypotheses hold again for the restored builder. *)
Theorem c22_restore_id :
  forall sdk fresh fresh' fmt b,
    well_formed b -> resources_ok b -> archive_safe b ->
    exists b', save_restore sdk fresh b = Some b'
               /\ sign_read sdk fresh' fmt b' = sign_read sdk fresh' fmt b
               /\ sign_read sdk fresh' fmt b <> None
               /\ well_formed b' /\ resources_ok b' /\ archive_safe b'.
Proof. exact restore_id. Qed.

(* chains of any length (the property asks for 1-3), by induction on the length *)
Theorem c22_chain_id :
  forall n sdk fresh fresh' fmt b,
    well_formed b -> resources_ok b -> archive_safe b ->
    exists b', chain n sdk fresh b = Some b'
               /\ sign_read sdk fresh' fmt b' = sign_read sdk fresh' fmt b
               /\ sign_read sdk fresh' fmt b <> None
               /\ well_formed b' /\ resources_ok b' /\ archive_safe b'.
Proof. exact chain_id. Qed.

(* the hypotheses are about ordinary builders: local resource bytes are always resolvable, and every custom label
   without a version component (and not an actions label) is stable *)
Theorem c22_local_resources_ok :
  forall b,
    (forall f r, b_thumb b = Some (f, r) -> exists p, r = Local p) ->
    Forall (fun g => forall r, g_thumb g = Some r -> exists p, r = Local p) (b_ings b) ->
    resources_ok b.
Proof. exact local_resources_ok. Qed.
Theorem c22_plain_labels_stable : forall l j c p, plain_label l -> stable (l, j, c, p).
Proof. exact plain_stable. Qed.

(* the repaired class F-ARCHIVE-THUMB (a thumbnail but no ingredient) is covered by c22_restore_id; its old witness: *)
Theorem c22_archive_thumb_fixed :
  sign_read "v" "l" "f" thumb_builder <> None
  /\ match save_restore "v" "l" thumb_builder with
     | Some b' => sign_read "v" "l" "f" b' = sign_read "v" "l" "f" thumb_builder
     | None => False
     end.
Proof. exact archive_thumb_fixed. Qed.

(* outside the hypotheses the statement is false of the model (each witness is replayed on the implementation):
   claim v1 with an ingredient thumbnail; a label with two version components *)
Theorem c22_archive_databox_refuted :
  sign_read "v" "l" "f" databox_builder <> None
  /\ match save_restore "v" "l" databox_builder with Some b' => sign_read "v" "l" "f" b' = None | None => False end.
Proof. exact archive_databox_refuted. Qed.
Theorem c22_double_version_refuted :
  match save_restore "v" "l" double_version_builder with
  | Some b' => option_map rp_items (sign_read "v" "l" "f" b') <> option_map rp_items (sign_read "v" "l" "f" double_version_builder)
  | None => False
  end.
Proof. exact double_version_refuted. Qed.

(* the hypotheses are satisfiable and the model computes: two rounds over a builder with a created and a gathered
   assertion, an actions assertion, a thumbnail and an ingredient *)
Example c22_example :
  let b := mkB 2 (Some "t") "image/png" "xmp:iid:1" None [[("name", "verif")]]
               [("c2pa.actions", false, false, 1%nat); ("org.a", true, false, 2%nat); ("org.b", false, true, 3%nat)]
               [mkIng (Some "i") None "componentOf" "" None None None] (Some ("image/jpeg", Local 9%nat)) None None false None in
  match chain 2 "0.91" "urn:c2pa:1" b with
  | Some b' => option_map rp_items (sign_read "0.91" "urn:c2pa:2" "image/png" b')
               = Some [("org.b", false, true, 3%nat); ("c2pa.actions.v2", false, false, 1%nat); ("org.a", true, false, 2%nat)]
  | None => False
  end.
Proof. vm_compute. reflexivity. Qed.
