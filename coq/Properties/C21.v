(* Properties/C21.v — Update manifests cannot alter bound content or carry forbidden parts.
   Statements only; every theorem is closed by [exact] of a lemma in Proofs/UpdateManifestProofs.v.
   Model: Model/UpdateManifest.v (verify_internal's update branch, the head of verify_hash_binding,
   get_hash_binding_manifest, the exclusion re-basing of verify_hash_binding); the allowed-action list is
   regenerated from claim.rs (Generated/C21_facts.v); range hashing is C13's model and theorem.
   Remarks recorded as coded: the thumbnail rule is `count > 1` (one claim thumbnail passes); the test
   "update manifests cannot contain data hash assertions" of verify_hash_binding only runs on the binding manifest,
   which is never an update manifest (c21_hash_rule_unreachable) — since fix 37f0723a3 verify_internal's update branch
   carries the same test itself, so the former counterexample F-UPDATE-HARDBINDING is rejected
   (c21_hard_binding_flagged, c21_former_witness_rejected). *)
From Coq Require Import List NArith Bool String.
From C2PA Require Import Base.Bytes Model.RangeHash Model.UpdateManifest Generated.C21_facts
     Proofs.RangeHashProofs Proofs.UpdateManifestProofs.
Import ListNotations.
Open Scope N_scope.

(* the property's rule set, for every store and every update manifest: no manifest.update.* failure iff exactly one
   parentOf ingredient, no hard binding, only allowed actions (and the thumbnail rule as coded) *)
Theorem c21_valid_only_if :
  forall st c l,
    c_update c = true -> get_claim st (c_label c) = Some c -> binding_manifest st c = Some l ->
    (no_update_code (verify_active st c) <->
     parent_count c = 1%nat /\ c_hashes c = O /\ actions_allowed c /\ (c_thumbs c <= UPDATE_THUMBNAIL_LIMIT)%nat).
Proof. exact update_valid_only_if. Qed.

(* a hard binding inside an update manifest is flagged; the witness of the repaired finding is now rejected *)
Theorem c21_hard_binding_flagged :
  forall c, c_update c = true -> has_hard_binding c -> In UpdateInvalid (update_rule_failures c).
Proof. exact hard_binding_flagged. Qed.
Theorem c21_former_witness_rejected : verify_active [hb_parent; hb_update] hb_update = [UpdateInvalid].
Proof. exact hard_binding_witness_rejected. Qed.

(* why: whatever verify_hash_binding is run on is not an update manifest *)
Theorem c21_hash_rule_unreachable :
  forall st c l b,
    get_claim st (c_label c) = Some c -> binding_manifest st c = Some l -> get_claim st l = Some b ->
    c_update b = false /\ c_hashes b <> O.
Proof. exact binding_never_update. Qed.

(* a clean verdict on an update manifest: the rules, and a binding manifest that is not an update manifest and
   carries exactly one hard binding *)
Theorem c21_clean_verdict :
  forall st c,
    c_update c = true -> get_claim st (c_label c) = Some c -> verify_active st c = [] ->
    parent_count c = 1%nat /\ c_hashes c = O /\ actions_allowed c /\ (c_thumbs c <= UPDATE_THUMBNAIL_LIMIT)%nat /\
    exists l b, binding_manifest st c = Some l /\ get_claim st l = Some b /\ c_update b = false /\ c_hashes b = 1%nat.
Proof. exact verify_active_clean. Qed.

(* binding manifest = nearest non-update ancestor with a hash assertion (chains of any length through update manifests
   with one resolvable parentOf ingredient each, distinct labels) *)
Theorem c21_binding_found :
  forall st c b ls,
    upd_chain st c b ls -> NoDup ls -> (List.length ls <= S (List.length st))%nat ->
    binding_manifest st c = Some (c_label b) /\ c_update b = false /\ c_hashes b <> O.
Proof. exact binding_found. Qed.

(* whatever the walk returns is such a manifest; a label met twice (cycle) gives none; fuel is not an artefact *)
Theorem c21_binding_sound :
  forall fuel st vis c l, binding fuel st vis c = Some l -> bindable st c l.
Proof. exact binding_sound. Qed.
Theorem c21_binding_cycle_none :
  forall fuel st vis c, In (c_label c) vis -> binding fuel st vis c = None.
Proof. exact binding_cycle_none. Qed.
Theorem c21_binding_fuel_mono :
  forall f st vis c l, binding f st vis c = Some l -> binding (S f) st vis c = Some l.
Proof. exact binding_fuel_mono. Qed.

(* with an update manifest on top, a matching data hash means the content outside the manifest store is unchanged
   (or a collision of the hash function is exhibited); hashing is C13's model *)
Theorem c21_content_bound :
  forall (Hf : bytes -> bytes) debug buf pre m post pre' m' post' r r',
    len pre' = len pre -> 0 < len pre -> len m <= len m' -> 1 <= buf ->
    len (pre ++ m ++ post) < U32 -> len (pre' ++ m' ++ post') < U32 ->
    hash_model debug (pre ++ m ++ post) [HR (len pre) (len m) None] true buf = Ok r ->
    hash_model debug (pre' ++ m' ++ post')
               (effective_exclusions true [HR (len pre) (len m) None] (Some (len pre', len m'))) true buf = Ok r' ->
    Hf (hasher_input r') = Hf (hasher_input r) ->
    (pre' = pre /\ post' = post) \/ collision Hf.
Proof. exact content_bound. Qed.

(* re-basing lemma, any exclusion list: the grown store is excluded whole, exclusions behind it move with the content *)
Theorem c21_rebase_preserves_selection :
  forall a b s l l' mk pre m m' post,
    (forall r, In r a -> hstart r <> s) -> (forall r, In r (a ++ b) -> apart s l r) -> 0 < s -> l <= l' ->
    len pre = s -> len m = l -> len m' = l' ->
    sel (effective_exclusions true (a ++ HR s l mk :: b) (Some (s, l'))) 0 (pre ++ m' ++ post)
    = sel (a ++ HR s l mk :: b) 0 (pre ++ m ++ post).
Proof. exact rebase_preserves_selection. Qed.

(* non-vacuity: a three-deep stack (update on update on a normal manifest) binds to the bottom manifest, a forbidden
   action and a second parent are flagged, and re-basing moves a trailing exclusion by the growth *)
Example c21_example :
  let p := Claim 1 false [] 1 [] 1 in
  let u1 := Claim 2 true [Ing ComponentOf (Some 9); Ing ParentOf (Some 1)] 0 [["c2pa.opened"%string]] 0 in
  let u2 := Claim 3 true [Ing ParentOf (Some 2)] 0 [["c2pa.opened"%string; "c2pa.edited"%string]] 0 in
  let u3 := Claim 4 true [Ing ParentOf (Some 2); Ing ParentOf (Some 1)] 0 [] 0 in
  let u4 := Claim 5 true [Ing ParentOf (Some 2)] 1 [["c2pa.opened"%string]] 0 in
  binding_manifest [p; u1; u2; u3] u2 = Some 1
  /\ verify_active [p; u1; u2; u3] u1 = []
  /\ verify_active [p; u1; u2; u3] u2 = [UpdateInvalid]
  /\ verify_active [p; u1; u2; u3] u3 = [UpdateInvalid]
  /\ verify_active [p; u1; u4] u4 = [UpdateInvalid]
  /\ rebase [HR 2 100 None; HR 500 10 None] (Some (2, 160)) = [HR 2 160 None; HR 560 10 None].
Proof. vm_compute. repeat split; reflexivity. Qed.
