(* Properties/C35.v — Results do not depend on stream chunking, and I/O errors are never hidden.
   Statements only.  Model/Streams.v: a stream is {data; position; schedule}; each read/write/seek call consumes
   one schedule event (Short n: move at most n+1 bytes; FailEv: I/O error); read_exact / read_to_end / write_all /
   stream_len are the std loops over the primitive calls; [prog] is code built only from them with `?`. *)
From Coq Require Import List NArith Arith Bool String.
From C2PA Require Import Model.Streams Proofs.StreamsProofs Generated.C35_facts.
Import ListNotations.
Local Open Scope list_scope.

(* Anything built only from the exact/complete primitives returns the same value, leaves the source at the same
   position and has written the same bytes, for every two non-failing schedules (any short-read/short-write sizes). *)
Theorem c35_exact_sched_independent :
  forall (A : Type) (p : prog A) d pos o s1 s2,
    pos <= List.length d -> nofail s1 = true -> nofail s2 = true ->
    observe (run p (mkSt d (skipn pos d) s1 o)) = observe (run p (mkSt d (skipn pos d) s2 o)).
Proof. exact exact_sched_independent. Qed.

(* ... namely the value it has on an ideal stream that always transfers everything *)
Theorem c35_chunked_equals_unchunked :
  forall (A : Type) (p : prog A) s,
    nofail (sched s) = true -> (exists q, q <= List.length (data s) /\ rest s = skipn q (data s)) ->
    observe (run p s) = run_ideal p (data s) (rest s) (out s).
Proof. exact run_matches_ideal. Qed.

(* A failing call yields Err, never a value: whenever a run returns a value, every schedule event it consumed was a
   non-failing one ... *)
Theorem c35_error_propagates :
  forall (A : Type) (p : prog A) s a s',
    run p s = Ok (a, s') -> exists used, sched s = used ++ sched s' /\ nofail used = true.
Proof. exact run_consumed. Qed.

(* ... so a run that returned a value stopped before the injected failure, wherever it was placed *)
Theorem c35_value_means_failure_not_reached :
  forall (A : Type) (p : prog A) d r o before after a s',
    run p (mkSt d r (before ++ FailEv :: after) o) = Ok (a, s') ->
    exists mid, sched s' = mid ++ FailEv :: after.
Proof. exact error_propagates. Qed.

(* A bare read is schedule dependent (which is why every one of them is inventoried): the same 16 bytes, two
   non-failing schedules, different results — for the read itself and for container_from_stream built on it. *)
Theorem c35_single_read_dependent :
  let d := [255; 216; 255; 224; 0; 16; 74; 70; 73; 70; 0; 1; 1; 0; 0; 1]%N in
  nofail [] = true /\ nofail [Short 0; Short 0; Short 0] = true
  /\ observe (match prim_read 16 (mkSt d d [] []) with Ok (bs, s) => Ok (bs, s) | Err e => Err e end)
     <> observe (match prim_read 16 (mkSt d d [Short 0] []) with Ok (bs, s) => Ok (bs, s) | Err e => Err e end)
  /\ fst (container_from_stream nat classify_jpeg (mkSt d d [] [])) = Some 1
  /\ fst (container_from_stream nat classify_jpeg (mkSt d d [Short 0; Short 0; Short 0] [])) = None.
Proof. exact single_read_dependent. Qed.

(* With a hint that names the true container the dependence is absorbed by format_from_stream, provided the magic
   tests on a prefix never name a different container (partial: that proviso is exercised by the run, not proved
   for the sixteen-byte tests of container_from_stream). *)
Theorem c35_hint_absorbs_sniff_partial :
  forall (C : Type) (classify : list N -> option C) (h : C) (eqb : C -> C -> bool) s,
    (forall c, eqb h c = true <-> h = c) ->
    (forall bs, classify bs = None \/ classify bs = Some h) ->
    fst (format_from_stream C classify (Some h) eqb s) = inl tt.
Proof. exact hint_absorbs_sniff. Qed.

(* "I/O errors are never hidden" is refuted for that function: a failing rewind or read is turned into "nothing
   detected" and the operation continues with the hint (known finding F-IO-SNIFF; the run lists the other steps
   that swallow an injected failure). *)
Theorem c35_sniff_hides_errors_refuted :
  let d := [255; 216; 255; 224]%N in
  forall after,
    fst (format_from_stream nat classify_jpeg (Some 1) Nat.eqb (mkSt d d (FailEv :: after) [])) = inl tt
    /\ fst (format_from_stream nat classify_jpeg (Some 1) Nat.eqb (mkSt d d (Short 9 :: FailEv :: after) [])) = inl tt.
Proof. exact sniff_hides_errors. Qed.

(* The inventory regenerated from the source is exactly the modelled list, every site is classified, and the only
   bare read on a caller's stream is container_from_stream; BoxReader (whose two bare reads are classified
   "memory") is entered only from the two functions that create a Cursor on the spot. *)
Theorem c35_inventory_is_modelled : sites_eqb io_sites modelled_io_sites = true.
Proof. exact inventory_is_modelled. Qed.
Theorem c35_inventory_classified : forallb classified io_sites = true.
Proof. exact inventory_classified. Qed.
Theorem c35_only_sniff_is_schedule_dependent :
  run_exercised io_sites = [("jumbf_io.rs", "container_from_stream")]%string
  /\ boxreader_entries = [("jumbf/boxes.rs", "from"); ("store.rs", "from_jumbf_impl")]%string.
Proof. exact (conj inventory_run_exercised boxreader_entries_modelled). Qed.

(* the model computes: a length-prefixed parser under full reads, under one-byte reads, under a failure, at EOF *)
Example c35_example :
  let d := [3; 10; 11; 12; 20; 21]%N in
  observe (run ex_prog (mkSt d d [] [])) = Ok (([10; 11; 12]%N, [20; 21]%N, 6), ([], [10; 11; 12]%N))
  /\ observe (run ex_prog (mkSt d d [Short 5; Short 0; Short 0; Short 0; Short 1; Short 0; Short 0; Short 0; Short 0; Short 0] []))
     = Ok (([10; 11; 12]%N, [20; 21]%N, 6), ([], [10; 11; 12]%N))
  /\ run ex_prog (mkSt d d [Short 5; Short 0; Short 0; Short 0; FailEv] []) = Err EIo
  /\ run ex_prog (mkSt [9; 1]%N [9; 1]%N [] []) = Err EEof.
Proof. exact example_runs. Qed.
