(* Properties/C15.v — Embeddable signing returns bytes of exactly the placeholder size (data-hash formats).
   Statements only.  [rejects_longer], [dummy_count], [dummy_start], [dummy_len] are regenerated from
   sdk/src/builder.rs on every run (Generated/C15_facts.v). *)
From Coq Require Import List NArith Bool Lia.
From C2PA Require Import Model.Embeddable Proofs.EmbeddableProofs Generated.C15_facts.
Import ListNotations.
Open Scope N_scope.

Definition dummies : list excl := dummy_list dummy_count dummy_start dummy_len.

(* the contract, for every manifest (K) and every exclusion list: same length, or an error *)
Theorem c15_same_or_error :
  forall K ex n, workflow rejects_longer dummies K ex = SOk n -> n = jumbf_len K dummies.
Proof. unfold rejects_longer. exact (same_or_error dummies). Qed.

(* exactly when it succeeds *)
Theorem c15_fits_iff :
  forall K ex, (exists n, workflow rejects_longer dummies K ex = SOk n) <-> excls_size ex <= excls_size dummies.
Proof. unfold rejects_longer. exact (fits_iff dummies). Qed.

(* the documented workflow (a handful of exclusions with arbitrary 64-bit offsets and lengths) always succeeds *)
Theorem c15_five_fit :
  forall ex K, (length ex <= 5)%nat -> exists n, workflow rejects_longer dummies K ex = SOk n.
Proof. unfold rejects_longer, dummies, dummy_count, dummy_start, dummy_len. exact five_fit. Qed.

Theorem c15_six_can_fail :
  exists ex, length ex = 6%nat /\ workflow rejects_longer dummies 0 ex = SErr.
Proof. unfold rejects_longer, dummies, dummy_count, dummy_start, dummy_len. exact six_can_fail. Qed.

(* F-EMBED (fixed): without the rejection the function returned longer bytes *)
Theorem c15_unchecked_refuted :
  exists ex n, workflow false (dummy_list 10 0 2) 3355 ex = SOk n /\ jumbf_len 3355 (dummy_list 10 0 2) < n.
Proof. exact longer_refuted. Qed.

Example c15_example : workflow true (dummy_list 10 0 2) 3355 [(2, 3516); (100000, 5)] = SOk 3516.
Proof. vm_compute. reflexivity. Qed.
