(* Properties/C27.v — Redirects never reach internal addresses or leak credentials.
   Statements only.  Model: Model/IpPreds.v, Model/IpClass.v (classification, std IP literal parser,
   host_is_non_global), Model/Resolvers.v (RedirectResolver over a scripted transport; url::Url::join and
   http::Uri component extraction are Section variables, i.e. the theorems hold for every join function).
   Constants (MAX_REDIRECTS, dropped header names, masks and comparison literals) come from
   Generated/C27_facts.v, regenerated from the source on every run. *)
From Coq Require Import List NArith Bool Lia.
From C2PA Require Import Base.Bytes Model.HostPattern Model.IpPreds Model.IpClass Model.Resolvers
     Generated.C27_facts Proofs.HostPatternProofs Proofs.IpClassProofs Proofs.HostClassProofs Proofs.IpParseProofs Proofs.ResolverProofs.
Import ListNotations.
Open Scope N_scope.

(* an IPv4 address is refused exactly when its 32-bit value lies in one of the documented blocks
   (0/8, 10/8, 100.64/10, 127/8, 169.254/16, 172.16/12, 192.0.2/24, 192.168/16, 198.51.100/24, 203.0.113/24,
   224/4, 255.255.255.255) — interval arithmetic over all 2^32 addresses *)
Theorem c27_v4_blocks : forall a b c d, a < 256 -> b < 256 -> c < 256 -> d < 256 ->
  (ipv4_non_global (V4 a b c d) = true <-> v4_blocked (v4_value a b c d)).
Proof. exact ipv4_blocks. Qed.

(* an IPv6 address is refused exactly when it is IPv4-mapped with a refused IPv4 part, or (not mapped and) one of
   ::, ::1, ff00::/8, fc00::/7, fe80::/10 *)
Theorem c27_v6_blocks : forall g0 g1 g2 g3 g4 g5 g6 g7,
  g0 < 65536 -> g1 < 65536 -> g2 < 65536 -> g3 < 65536 -> g4 < 65536 -> g5 < 65536 -> g6 < 65536 -> g7 < 65536 ->
  (ipv6_non_global (V6 g0 g1 g2 g3 g4 g5 g6 g7) = true <->
     (v6_mapped g0 g1 g2 g3 g4 g5 /\ ipv4_non_global (V4 (g6 / 256) (g6 mod 256) (g7 / 256) (g7 mod 256)) = true)
     \/ (~ v6_mapped g0 g1 g2 g3 g4 g5 /\ v6_blocked g0 g1 g2 g3 g4 g5 g6 g7)).
Proof. exact ipv6_blocks. Qed.

Theorem c27_v6_mapped_blocks : forall a b c d, a < 256 -> b < 256 -> c < 256 -> d < 256 ->
  (ipv6_non_global (V6 0 0 0 0 0 65535 (a * 256 + b) (c * 256 + d)) = true <-> v4_blocked (v4_value a b c d)).
Proof. exact ipv6_mapped_blocks. Qed.

(* host strings: refused iff (after bracket / trailing-dot / case normalisation) the host is a standard literal of a
   refused address, or is not a standard literal and looks numeric, is "localhost", or ends in ".localhost";
   a URI without a host is refused *)
Theorem c27_host_blocked : forall uh, host_is_non_global uh = true <-> host_blocked uh.
Proof. exact host_blocked_iff. Qed.

Theorem c27_localhost_any_case : forall s, lower s = s_localhost ->
  host_is_non_global (Some s) = true /\ host_is_non_global (Some (s ++ [c_dot])) = true.
Proof. exact localhost_blocked. Qed.

Theorem c27_numeric_unparsable_blocked : forall h, numeric_looking (normalize_host h) ->
  host_is_non_global (Some h) = true
  \/ exists x, parse_ip (normalize_host h) = Some x /\ ip_non_global x = false /\ host_is_non_global (Some h) = false.
Proof. exact numeric_host_blocked. Qed.

(* any name under .localhost — any prefix at all, any letter case, with or without the trailing dot — is refused
   (uses: a string std's IpAddr::from_str accepts contains only hex digits, dots and colons) *)
Theorem c27_sub_localhost_blocked : forall p s, lower s = s_dot_localhost ->
  host_is_non_global (Some (p ++ s)) = true /\ host_is_non_global (Some ((p ++ s) ++ [c_dot])) = true.
Proof. exact sub_localhost_blocked. Qed.

(* the standard dotted-decimal text of EVERY IPv4 address parses back to it (also with a trailing dot), so such a host is
   refused exactly when its value lies in a documented block *)
Theorem c27_dotted_decimal_host : forall a b c d, a < 256 -> b < 256 -> c < 256 -> d < 256 ->
  parse_ip (dotted a b c d) = Some (Ip4 (V4 a b c d))
  /\ (host_is_non_global (Some (dotted a b c d)) = true <-> v4_blocked (v4_value a b c d))
  /\ host_is_non_global (Some (dotted a b c d ++ [c_dot])) = host_is_non_global (Some (dotted a b c d)).
Proof. exact dotted_decimal_host. Qed.

Section Stack.
  Variable U : Type.
  Variables scheme_of host_of port_of : U -> option bytes.
  Variable join : U -> bytes -> option U.
  Notation stack := (default_stack U scheme_of host_of port_of join).

  (* at most MAX_REDIRECTS = 10 redirects are followed (11 transport calls), none when redirects are disabled *)
  Theorem c27_hops : forall allow ar rq st st' tr r,
    stack allow ar (transport U) rq st = (st', tr, r) ->
    (length tr <= 11)%nat /\ (ar = false -> (length tr <= 1)%nat).
  Proof. exact (stack_hops U scheme_of host_of port_of join). Qed.

  (* every request after hop 0: none of Authorization / Cookie / Proxy-Authorization / Host, otherwise the original
     headers in order, the original method and body *)
  Theorem c27_headers : forall allow ar rq st st' tr r q,
    stack allow ar (transport U) rq st = (st', tr, r) -> In q (tl tr) ->
    (forall name, In name [[97;117;116;104;111;114;105;122;97;116;105;111;110];                      (* authorization *)
                           [99;111;111;107;105;101];                                                   (* cookie *)
                           [112;114;111;120;121;45;97;117;116;104;111;114;105;122;97;116;105;111;110]; (* proxy-authorization *)
                           [104;111;115;116]] ->                                                       (* host *)
                  ~ In name (map fst (rq_headers U q)))
    /\ rq_headers U q = filter keep (rq_headers U rq) /\ rq_method U q = rq_method U rq /\ rq_body U q = rq_body U rq.
  Proof. exact (stack_headers U scheme_of host_of port_of join). Qed.

  (* no request after hop 0 goes to a host that host_is_non_global refuses, i.e. (c27_host_blocked) to a literal of a
     blocked address, a numeric-looking non-literal, localhost / *.localhost, or a URI without host *)
  Theorem c27_no_internal_request : forall allow ar rq st st' tr r q,
    stack allow ar (transport U) rq st = (st', tr, r) -> In q (tl tr) ->
    host_is_non_global (host_of (rq_uri U q)) = false /\ ~ host_blocked (host_of (rq_uri U q)).
  Proof. exact (stack_no_internal U scheme_of host_of port_of join). Qed.
End Stack.

(* the model computes non-trivial cases: a redirect to 169.254.169.254 written as an IPv4-mapped IPv6 literal is
   refused after one transport call; a redirect to a public host is followed with the credentials removed *)
Example c27_example :
  let u0 := OUri 0 (Some s_http) (Some [101;120]) None in
  let meta := OUri 1 (Some s_http) (Some [91;58;58;102;102;102;102;58;97;57;102;101;58;97;57;102;101;93]) None in
  let pub := OUri 2 (Some s_http) (Some [56;46;56;46;56;46;56]) None in
  run_stack [(0, [49], Some meta)] None true u0 [71] [([99;111;111;107;105;101], [120])] [] [inl (Resp 302 (Some [49]))]
    = ([(0, [71], [([99;111;111;107;105;101], [120])], [])], inr ERedirectTargetDisallowed)
  /\ run_stack [(0, [49], Some pub)] None true u0 [71] [([99;111;111;107;105;101], [120]); ([120], [121])] [] [inl (Resp 302 (Some [49]))]
    = ([(0, [71], [([99;111;111;107;105;101], [120]); ([120], [121])], []); (2, [71], [([120], [121])], [])], inl 200).
Proof. vm_compute. split; reflexivity. Qed.
