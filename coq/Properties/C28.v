(* Properties/C28.v — No network access unless the configuration enables it.
   Statements only.  Model: Model/NetGate.v — the requests made by reading, ingredient import and signing
   over configuration (remote_manifest_fetch, ocsp_fetch, certificate_status_fetch, auto_timestamp_assertion.{enabled, skip_existing, fetch_scope}) x asset kind
   (embedded, remote-only, remote+embedded, none, OCSP responder named, OCSP stapled and usable, remote-only with responder, OCSP stapled but unusable) x signer (TSA URL or
   not) x operation x whether the resolver serves the remote manifest. *)
From Coq Require Import List NArith Bool.
From C2PA Require Import Model.NetGate Proofs.NetGateProofs.
Import ListNotations.
Open Scope N_scope.

(* the whole finite domain, spelled out in Model/NetGate.v ([domain], 64 x 8 x 2 x 3 x 2 = 6144 points),
   evaluated by vm_compute and lifted; [gated] is the property at one point *)
Theorem c28_domain_checked : forallb (gated 7) domain = true.
Proof. exact gated_domain. Qed.

Theorem c28_domain_is_everything : forall c k s o b, In (c, k, s, o, b) domain.
Proof. exact domain_complete. Qed.

Theorem c28_gated_everywhere : forall c k s o b, gated 7 (c, k, s, o, b) = true.
Proof. exact gated_everywhere. Qed.

(* the same for every referenced URL, in propositional form: a manifest request only for the referenced URL
   of a remote-only asset with remote_manifest_fetch on; an OCSP request only with ocsp_fetch or
   certificate_status_fetch on; a time-stamp request only when the signer has a TSA URL; a time-stamp request for an
   ingredient manifest only with auto_timestamp_assertion.enabled and such a signer *)
Theorem c28_no_request_unless_enabled :
  forall u c k s o b rq out,
    requests c (A k u) s o b = (rq, out) ->
    (forall v, In (RManifest v) rq -> v = u /\ rmf c = true /\ remote_only k = true) /\
    (In ROcsp rq -> ocspf c = true \/ csf c = true) /\
    (In RTsa rq -> s = STsa) /\
    (In RTsaIng rq -> ats_on c = true /\ s = STsa).
Proof. exact no_request_unless_enabled. Qed.

(* remote manifest fetching disabled + remote-only asset: the remote-manifest error carrying the URL, no request *)
Theorem c28_remote_only_error :
  forall u c k s b, rmf c = false -> remote_only k = true -> requests c (A k u) s OpRead b = ([], OErrRemoteUrl u).
Proof. exact remote_only_error. Qed.

Theorem c28_embedded_never_fetches :
  forall u c k s o b, has_embedded k = true -> existsb is_manifest (fst (requests c (A k u) s o b)) = false.
Proof. exact embedded_never_fetches. Qed.

(* no time-stamp request for ingredient manifests unless enabled, whatever skip_existing / fetch_scope say *)
Theorem c28_no_ingredient_timestamp_unless_enabled :
  forall u c k s o b, ats_on c = false -> existsb is_tsa_ing (fst (requests c (A k u) s o b)) = false.
Proof. exact no_ingredient_timestamp_unless_enabled. Qed.

Theorem c28_ingredient_timestamp_when_enabled :
  forall u rm oc cs sk sc b,
    fst (requests (C rm oc cs true sk sc) (A ARemoteEmbedded u) STsa OpSign b) = [RTsaIng] /\
    existsb is_tsa_ing (fst (requests (C rm oc cs true sk sc) (A AEmbedded u) STsa OpSign b)) = negb sk.
Proof. exact ingredient_timestamp_when_enabled. Qed.

Theorem c28_all_off_silent :
  forall u k o b sk sc, fst (requests (C false false false false sk sc) (A k u) SNoTsa o b) = [].
Proof. exact all_off_silent. Qed.

(* stapled OCSP responses: a usable, conclusive staple settles revocation without any request in any
   configuration; a staple that is present but unusable neither suppresses the fetch asked for by
   verify.ocsp_fetch nor causes one when it is off *)
Theorem c28_usable_staple_settles :
  forall u c s o b, existsb is_ocsp (fst (requests c (A AEmbeddedStapled u) s o b)) = false.
Proof. exact usable_staple_settles. Qed.

Theorem c28_unusable_staple_falls_through :
  forall u c s b, existsb is_ocsp (fst (requests c (A AEmbeddedStapledUnusable u) s OpRead b)) = ocspf c.
Proof. exact unusable_staple_falls_through. Qed.

(* non-vacuity: with the settings on, the requests are made *)
Example c28_example :
  requests (C true true true false true false) (A ARemoteOnly 7) SNoTsa OpRead true = ([RManifest 7], OOk) /\
  requests (C false true false false true false) (A AEmbeddedAia 7) SNoTsa OpRead true = ([ROcsp], OOk) /\
  requests (C false false true false true false) (A AEmbeddedAia 7) STsa OpSign true = ([ROcsp; RTsa], OErrTsa) /\
  requests (C false false false true false false) (A AEmbedded 7) STsa OpSign true = ([RTsaIng], OErrTsaIng) /\
  length domain = 6144%nat.
Proof. vm_compute. repeat split. Qed.
