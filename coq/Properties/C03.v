(* Properties/C03.v — Signing round trip: signed output validates and reports what was signed.
   Statements only; every theorem is closed by [exact] of a lemma in Proofs/SignFlowProofs.v.
   The model (Model/SignFlow.v) has three parts: the size arithmetic of the two-pass save
   (store.rs start_save_stream, claim.rs update_data_hash, data_hash.rs pad_to_size), the second embed as a byte
   composition, and the field mapping definition -> claim (builder.rs to_claim) -> report (manifest.rs from_store)
   with payloads represented by their position.  COSE, X.509, CBOR payload encoding and the container writers are
   exercised by the differential run of ./check, not modelled. *)
From Coq Require Import List NArith Bool String.
From C2PA Require Import Base.Cbor Base.Bytes Generated.C03_facts Model.SignFlow Proofs.SignFlowProofs.
Import ListNotations.
Close Scope string_scope.
Open Scope N_scope.

(* The `jumbf_size != data.len()` check of start_save_stream (a fact regenerated from the source): when the first
   phase succeeds, the re-serialised store has the size of the placeholder store that was embedded. *)
Theorem c03_two_pass_same_size :
  forall pad_loop others m alg_len hash_len e0 e1 s1 s2,
    SIZE_CHECK_PRESENT = true ->
    start_save pad_loop others m alg_len hash_len e0 e1 = SOk (s1, s2) -> s1 = s2.
Proof. exact two_pass_same_size. Qed.

(* Given exact padding (DataHash::pad_to_size reaches every target not below the current size — C14), the two-pass
   save succeeds exactly when the CBOR of the located exclusions grew by at most the slack bytes that
   start_save_stream adds to the placeholder, both serialisations then have the placeholder store's size (so the
   check never fires), and otherwise the result is JumbfCreationError, never a store of another size. *)
Theorem c03_two_pass_exact :
  forall pad_loop : DataHashM -> N -> option DataHashM,
    (forall d t, dh_size d <= t -> exists d', pad_loop d t = Some d' /\ dh_size d' = t) ->
    forall others m alg_len hash_len e0 e1,
      (excl_size e1 <= excl_size e0 + DH_SLACK ->
       exists s, start_save pad_loop others m alg_len hash_len e0 e1 = SOk (s, s)
                 /\ s = store_size (others ++ [with_hash_assertion m (dh_size (placeholder_dh alg_len hash_len e0))]))
      /\ (excl_size e0 + DH_SLACK < excl_size e1 ->
          start_save pad_loop others m alg_len hash_len e0 e1 = SErrJumbfCreation).
Proof. exact two_pass_exact. Qed.

(* One located range whose start does not move (store embedded at a fixed position), or no range at all (sidecar,
   remote): the growth is always within the slack, for all 64-bit offsets and lengths. *)
Theorem c03_slack_suffices_single_range :
  forall s l0 l1, excl_size [(s, l1)] <= excl_size [(s, l0)] + DH_SLACK.
Proof. exact single_exclusion_fits. Qed.
Theorem c03_slack_suffices_no_range : excl_size [] <= excl_size [] + DH_SLACK.
Proof. exact no_exclusion_fits. Qed.
(* ...but not for arbitrary range lists of equal length (partial: which containers can produce such lists is C12's subject) *)
Theorem c03_slack_bound_is_tight_partial :
  exists e0 e1, List.length e0 = List.length e1 /\ excl_size e0 + DH_SLACK < excl_size e1.
Proof. exact slack_can_be_exceeded. Qed.

(* The second embed: for any asset split [pre]/[post] that depends on the store only through its length and any
   framing [wrap], the bytes outside the located manifest range are the same for the placeholder store and the final
   store of equal length, so the hash recorded after the first embed is the hash of the final output; with a
   length-determined framing the recorded range is the located range of the final output too. *)
Theorem c03_hash_survives_second_embed :
  forall (pre post : bytes -> N -> bytes) (wrap H : bytes -> bytes) a j1 j2,
    len j1 = len j2 ->
    H (sel_excl (embed pre post wrap a j2) (cai_range pre wrap a j2))
    = H (sel_excl (embed pre post wrap a j1) (cai_range pre wrap a j1)).
Proof. exact hash_survives_second_embed. Qed.

Theorem c03_sign_then_verify_hash :
  forall (pre post : bytes -> N -> bytes) (wrap H : bytes -> bytes) a j1 j2,
    (forall x y, len x = len y -> len (wrap x) = len (wrap y)) ->
    len j1 = len j2 ->
    cai_range pre wrap a j2 = cai_range pre wrap a j1
    /\ H (sel_excl (embed pre post wrap a j2) (cai_range pre wrap a j1))
       = H (sel_excl (embed pre post wrap a j1) (cai_range pre wrap a j1)).
Proof. exact sign_then_verify_hash. Qed.

Open Scope string_scope.

(* Definition -> report, claim v2.  For every definition (any labels, duplicates, labels that are substrings of each
   other, thumbnails, ingredients) whose labels do not themselves use the reserved `__<n>` instance syntax to collide
   (label_collision; decidable, see c03_no_collision_decidable — the repaired class F-CREATED-SUBSTR needed a much wider
   carve-out before fix 9afceaf9c), the reported assertions are exactly the supplied ones — created ones first, each
   group in the supplied order — with the label produced by to_claim's dispatch, the kind, the created flag and the
   payload (position) as given; thumbnails, ingredient assertions and the hard binding are not listed. *)
Theorem c03_report_v2_as_given :
  forall d h,
    d_version d = 2%nat -> d_auto_actions d = false -> hidden_hash_label h = true ->
    ~ label_collision (to_claim d h) ->
    map ra_view (r_assertions (sign_report d h))
    = (filter it_created (user_items d) ++ filter (fun t => negb (it_created t)) (user_items d))%list.
Proof. exact report_v2_as_given. Qed.

Theorem c03_no_collision_decidable : forall c, no_collision_b c = true -> ~ label_collision c.
Proof. exact no_collision_b_sound. Qed.

(* "created flag as given": user_items carries claim_created, which is the supplied flag for every label — including the
   deprecated stds.schema-org.CreativeWork, whose arm dropped it before fix 937eabecd (repaired class F-CW-CREATED) *)
Theorem c03_created_flag_kept : forall a, claim_created a = ad_created a.
Proof. exact created_kept. Qed.
Theorem c03_creative_work_created_fixed :
  map ra_view (r_assertions (sign_report cw_witness "c2pa.hash.data"))
  = [("stds.schema-org.CreativeWork", true, true, Some 1%nat); ("c2pa.actions.v2", false, false, Some 0%nat)].
Proof. exact creative_work_created_fixed. Qed.

(* claim v1: supplied order, no created attribution *)
Theorem c03_report_v1_as_given :
  forall d h,
    d_version d = 1%nat -> d_auto_actions d = false -> hidden_hash_label h = true ->
    map (fun r => (ra_label r, ra_json r, ra_src r)) (r_assertions (sign_report d h))
    = map (fun t => match t with (l, j, _, s) => (l, j, s) end) (user_items d)
    /\ Forall (fun r => ra_created r = false) (r_assertions (sign_report d h)).
Proof. exact report_v1_as_given. Qed.

(* ingredients are reported in the supplied order *)
Theorem c03_ingredients_as_given :
  forall d h, d_version d = 2%nat ->
    r_ingredients (sign_report d h) = map (fun it => Some (fst it)) (index_from 0 (d_ingredients d)).
Proof. exact ingredients_v2_as_given. Qed.

(* labels: a custom label that is not an actions label and has no `.v<digits>` last component is reported unchanged *)
Theorem c03_plain_label_kept : forall l, plain_label l -> claim_label l = l.
Proof. exact plain_label_kept. Qed.

(* created assertions are always reported as created *)
Theorem c03_created_reported_created :
  forall c x, In x c -> ca_created x = true -> loaded_created 2 c x = true.
Proof. exact loaded_created_sound. Qed.

(* the repaired class: substring labels and duplicate labels with mixed flags are reported with the supplied flags *)
Theorem c03_substring_labels_fixed :
  no_collision_b (to_claim substr_witness "c2pa.hash.data") = true
  /\ map ra_view (r_assertions (sign_report substr_witness "c2pa.hash.data"))
     = [("org.ab", false, true, Some 2%nat); ("com.x", false, true, Some 5%nat);
        ("c2pa.actions.v2", false, false, Some 0%nat); ("org.a", false, false, Some 1%nat);
        ("com.x", false, false, Some 3%nat); ("com.x", false, false, Some 4%nat)].
Proof. exact substring_labels_fixed. Qed.

(* the open class F-USER-VERSION is real in the model; ./check replays it on the implementation *)
Theorem c03_version_suffix_refuted : claim_label "com.acme.review.v2" = "com.acme.review".
Proof. exact version_suffix_refuted. Qed.

(* the model computes: a JPEG-like save whose located range grows from 20 to 20000 bytes, with the transcription of
   pad_to_size as padding loop, produces two serialisations of the same size *)
Example c03_two_pass_example :
  start_save pad_loop_real [] (mkM 45 [(15, 100)] 13 500 1000 0) 6 32 [(2, 20)%N] [(2, 20000)%N] = SOk (2152, 2152)%N.
Proof. vm_compute. reflexivity. Qed.
