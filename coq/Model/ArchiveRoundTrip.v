(* Model/ArchiveRoundTrip.v — C22: Builder::to_archive / Builder::with_archive (builder.rs working_store_sign,
   reader.rs Reader::into_builder) on the fields the report depends on.  No proofs.
   The assertion part reuses the label dispatch of Model/SignFlow.v (to_claim) and the "ideal" report order proved
   equal to the model's report in C03 (created assertions first, each group in order). *)
From Coq Require Import List NArith Bool String Arith.
From C2PA Require Import Model.SignFlow.
Import ListNotations.
Open Scope string_scope.

(* an assertion of a builder: label, Json kind, created flag, payload (identity of the data) *)
Definition Item := (string * bool * bool * nat)%type.
Definition i_label (t : Item) : string := match t with (l, _, _, _) => l end.
Definition i_created (t : Item) : bool := match t with (_, _, c, _) => c end.

(* to_claim's dispatch on one item: label and kind as written into the claim *)
Definition kind_json (l : string) (j : bool) : bool :=
  match claim_kind (mkA l j false) with KJson => true | _ => false end.
Definition norm_item (t : Item) : Item :=
  match t with (l, j, c, p) => (claim_label l, kind_json l j, c, p) end.
Definition clear_created (t : Item) : Item := match t with (l, j, _, p) => (l, j, false, p) end.

(* claim v2 lists created assertions first; a v1 claim keeps the order *)
Definition created_first (version : nat) (l : list Item) : list Item :=
  if Nat.leb 2 version then (filter i_created l ++ filter (fun t => negb (i_created t)) l)%list else l.

(* what reading a claim built from these items reports (C03: c03_report_v2_as_given / c03_report_v1_as_given) *)
Definition reported (version : nat) (l : list Item) : list Item :=
  created_first version (map norm_item (if Nat.leb 2 version then l else map clear_created l)).

(* a resource reference held by a builder: bytes added to the builder's own ResourceStore, or a JUMBF URI into the
   store of the archive the builder was restored from (an assertion box, or a v1 data box) *)
Inductive Res := Local (p : nat) | InStore (p : nat) | InDatabox (p : nat).
Definition res_payload (r : Res) : nat := match r with Local p | InStore p | InDatabox p => p end.

(* an ingredient as the report shows it: title, format, relationship, payloads of manifest data / thumbnail,
   recorded validation (state, codes) *)
Record IngM := mkIng {
  g_title : option string; g_format : option string; g_relationship : string; g_instance : string;
  g_manifest : option nat; g_thumb : option Res; g_validation : option (nat * list string)
}.
Definition with_thumb (g : IngM) (t : option Res) : IngM :=
  mkIng (g_title g) (g_format g) (g_relationship g) (g_instance g) (g_manifest g) t (g_validation g).

Definition GenInfo := list (string * string).    (* claim_generator_info entry as key/value pairs *)

Record BState := mkB {
  b_version : nat;
  b_title : option string;
  b_format : string;
  b_instance : string;
  b_label : option string;
  b_gens : list GenInfo;
  b_items : list Item;
  b_ings : list IngM;
  b_thumb : option (string * Res);          (* format, resource *)
  b_redactions : option (list string);
  (* builder options that are not part of the manifest *)
  b_remote : option string; b_no_embed : bool; b_hash_alg : option string
}.

(* ResourceStore::get along the builder's resolver chain (resource_store.rs chain_resolver_from, manifest.rs
   ManifestStoreResolver, ingredient.rs IngredientStoreResolver): local bytes are always found; a URI into the archive
   store is found through the manifest's store resolver that Reader::into_builder chains (fix 39e7c1520) or through an
   ingredient's store resolver, so it no longer matters whether the builder has an ingredient; the data-box arm of both
   resolvers does not find the absolute URI of a v1 data box. *)
Definition resolve (has_ingredient : bool) (r : Res) : option nat :=
  match r with
  | Local p => Some p
  | InStore p => Some p
  | InDatabox _ => None
  end.
Definition has_ings (l : list IngM) : bool := match l with [] => false | _ => true end.
(* an ingredient resolves its own thumbnail through its own store resolver *)
Definition ing_resolvable (g : IngM) : bool :=
  match g_thumb g with Some r => match resolve true r with Some _ => true | None => false end | None => true end.
Definition claim_ing (g : IngM) : IngM := with_thumb g (option_map (fun r => Local (res_payload r)) (g_thumb g)).

Definition SDK_KEY := "org.contentauth.c2pa_rs".
Fixpoint set_key (k v : string) (g : GenInfo) : GenInfo :=
  match g with
  | [] => [(k, v)]
  | (k', v') :: t => if String.eqb k k' then (k, v) :: t else (k', v') :: set_key k v t
  end.
(* to_claim: an empty list gets one default entry; entry 0 is stamped with the SDK version *)
Definition stamp_gens (sdk : string) (gs : list GenInfo) : list GenInfo :=
  match gs with
  | [] => [set_key SDK_KEY sdk [("name", "c2pa-rs")]]
  | g :: t => set_key SDK_KEY sdk g :: t
  end.

Definition ARCHIVE_META := "org.contentauth.archive.metadata".

(* the claim of a manifest, as far as the report goes *)
Record ClaimM := mkC {
  c_version : nat; c_label : string; c_title : option string; c_format : option string; c_instance : string;
  c_gens : list GenInfo; c_items : list Item; c_ings : list IngM; c_thumb : option (string * nat);
  c_redactions : option (list string)
}.

(* Builder::to_claim on the modelled fields; None = Error::ResourceNotFound.  [fresh]: label when the definition has
   none.  A v2 claim does not serialise dc:format. *)
Definition resolve_thumb (has_ingredient : bool) (t : option (string * Res)) : option (option (string * nat)) :=
  match t with
  | None => Some None
  | Some (f, r) => option_map (fun p => Some (f, p)) (resolve has_ingredient r)
  end.

Definition to_claim_m (sdk fresh : string) (b : BState) : option ClaimM :=
  match resolve_thumb (has_ings (b_ings b)) (b_thumb b) with
  | None => None
  | Some th =>
      if forallb ing_resolvable (b_ings b) then
        Some (mkC (b_version b) (match b_label b with Some l => l | None => fresh end) (b_title b)
                  (if Nat.leb 2 (b_version b) then None else Some (b_format b)) (b_instance b)
                  (stamp_gens sdk (b_gens b)) (reported (b_version b) (b_items b)) (map claim_ing (b_ings b)) th
                  (match b_redactions b with Some [] => None | r => r end))
      else None
  end.

(* working_store_sign: to_claim, then the archive metadata (created) and a box hash (hidden in reports) *)
Definition to_archive (sdk fresh : string) (b : BState) : option ClaimM :=
  match to_claim_m sdk fresh b with
  | None => None
  | Some c =>
      Some (mkC (c_version c) (c_label c) (c_title c) (c_format c) (c_instance c) (c_gens c)
                (reported (b_version b) (b_items b ++ [(ARCHIVE_META, true, true, 0%nat)]))
                (c_ings c) (c_thumb c) (c_redactions c))
  end.

(* Reader::into_builder on the archive's active manifest: resources become URIs into the archive's store (v1 claims keep
   ingredient thumbnails in data boxes) *)
Definition restored_ing (version : nat) (g : IngM) : IngM :=
  with_thumb g (option_map (fun r => if Nat.leb 2 version then InStore (res_payload r) else InDatabox (res_payload r)) (g_thumb g)).

Definition with_archive (c : ClaimM) : BState :=
  mkB (c_version c) (c_title c) (match c_format c with Some f => f | None => "" end) (c_instance c)
      (Some (c_label c)) (c_gens c)
      (filter (fun t => negb (prefix ARCHIVE_META (i_label t))) (c_items c))
      (map (restored_ing (c_version c)) (c_ings c))
      (option_map (fun t : string * nat => (fst t, InStore (snd t))) (c_thumb c))
      (c_redactions c)
      None false None.

Definition save_restore (sdk fresh : string) (b : BState) : option BState := option_map with_archive (to_archive sdk fresh b).

Fixpoint chain (n : nat) (sdk fresh : string) (b : BState) : option BState :=
  match n with
  | O => Some b
  | S k => match chain k sdk fresh b with Some b' => save_restore sdk fresh b' | None => None end
  end.

(* Builder::sign followed by a read: sign sets the format (and the XMP instance id when the asset has one) *)
Record ReportM := mkRep {
  rp_title : option string; rp_format : option string; rp_gens : list GenInfo; rp_items : list Item;
  rp_ings : list IngM; rp_thumb : option (string * nat); rp_redactions : option (list string)
}.

Definition sign_read (sdk fresh fmt : string) (b : BState) : option ReportM :=
  option_map (fun c => mkRep (c_title c) (c_format c) (c_gens c) (c_items c) (c_ings c) (c_thumb c) (c_redactions c))
    (to_claim_m sdk fresh
       (mkB (b_version b) (b_title b) fmt (b_instance b) (b_label b) (b_gens b) (b_items b) (b_ings b)
            (b_thumb b) (b_redactions b) (b_remote b) (b_no_embed b) (b_hash_alg b))).

(* evaluation helper for the correspondence run: labels/kinds/flags/payloads reported after n save/restore rounds;
   [thumb]: a thumbnail resource was supplied; [ings]: number of ingredients, [ing_thumbs]: they carry thumbnails *)
Definition c22_eval (n version : nat) (items : list Item) (thumb : bool) (ings : nat) (ing_thumbs : bool) :=
  let g := mkIng None None "componentOf" "" None (if ing_thumbs then Some (Local 7) else None) None in
  let b := mkB version None "" "" None [] items (repeat g ings) (if thumb then Some ("image/jpeg", Local 9) else None)
               None None false None in
  (option_map rp_items (sign_read "v" "l" "f" b),
   match chain n "v" "l" b with
   | Some b' => option_map rp_items (sign_read "v" "l" "f" b')
   | None => None
   end).
