(* Model/ValState.v — executable transcription of
     sdk/src/validation_results.rs :: StatusCodes::add_status, ValidationResults::add_status,
                                      ValidationResults::validation_state, is_tolerated_manifest_failure_code,
                                      validation_codes::log_kind
     sdk/src/reader.rs             :: Reader::validation_state (results object first, then the status-list fallback).
   Codes are byte strings; the constants and the lists of codes consulted come from Generated/C04_facts.v.
   No proofs here. *)
From Coq Require Import List NArith Bool.
From C2PA Require Import Base.Bytes Model.ByteStr Generated.C04_facts.
Import ListNotations.
Open Scope N_scope.

Definition code := bytes.

Inductive kind := KSuccess | KInformational | KFailure.

(* ValidationStatus: code, LogKind, ingredient_uri (url/explanation play no role here) *)
Record status := St { scode : code; skind : kind; suri : option bytes }.

Record status_codes := SC { success : list status; informational : list status; failure : list status }.

(* IngredientDeltaValidationResult *)
Record delta := D { duri : bytes; dcodes : status_codes }.

Record results := VR { active : option status_codes; deltas : option (list delta) }.

Inductive vstate := Invalid | Valid | Trusted.

Definition sc_empty : status_codes := SC [] [] [].

(* StatusCodes::add_status: push on the list selected by the status' own kind *)
Definition sc_add (sc : status_codes) (s : status) : status_codes :=
  match skind s with
  | KSuccess => SC (success sc ++ [s]) (informational sc) (failure sc)
  | KInformational => SC (success sc) (informational sc ++ [s]) (failure sc)
  | KFailure => SC (success sc) (informational sc) (failure sc ++ [s])
  end.

(* iter_mut().find(uri == ingredient_url): first match is updated; none: a new entry is pushed *)
Fixpoint add_delta (u : bytes) (s : status) (ds : list delta) : list delta :=
  match ds with
  | [] => [D u (sc_add sc_empty s)]
  | d :: t => if beq (duri d) u then D (duri d) (sc_add (dcodes d) s) :: t
              else d :: add_delta u s t
  end.

(* ValidationResults::add_status *)
Definition add_status (r : results) (s : status) : results :=
  match suri s with
  | None =>
      VR (Some (sc_add (match active r with Some a => a | None => sc_empty end) s)) (deltas r)
  | Some u =>
      VR (active r) (Some (add_delta u s (match deltas r with Some ds => ds | None => [] end)))
  end.

Definition add_all (r : results) (l : list status) : results := fold_left add_status l r.

(* is_tolerated_manifest_failure_code *)
Definition is_tolerated (c : code) : bool :=
  existsb (beq c) tolerated_exact || existsb (fun p => starts_with p c) tolerated_prefixes.

Definition has_code (c : code) (l : list status) : bool := existsb (fun s => beq (scode s) c) l.

Definition is_nil {A} (l : list A) : bool := match l with [] => true | _ => false end.

(* failure().is_empty() || failure().iter().all(tolerated) *)
Definition fails_ok (sc : status_codes) : bool :=
  is_nil (failure sc) || forallb (fun s => is_tolerated (scode s)) (failure sc).

(* self.ingredient_deltas.as_ref().iter().all(|deltas| deltas.iter().all(|idv| p idv.validation_deltas())) *)
Definition deltas_all (p : status_codes -> bool) (r : results) : bool :=
  match deltas r with
  | None => true
  | Some ds => forallb (fun d => p (dcodes d)) ds
  end.

(* ValidationResults::validation_state *)
Definition validation_state (r : results) : vstate :=
  match active r with
  | None => Invalid
  | Some a =>
      let is_valid :=
        forallb (fun c => has_code c (success a)) valid_success_req
        && fails_ok a
        && deltas_all fails_ok r in
      let is_trusted :=
        forallb (fun c => has_code c (success a)) trusted_success_req
        && is_nil (failure a)
        && deltas_all (fun sc => is_nil (failure sc)) r
        && is_valid in
      if is_trusted then Trusted else if is_valid then Valid else Invalid
  end.

(* validation_codes::log_kind *)
Definition log_kind (c : code) : kind :=
  if existsb (beq c) success_table then KSuccess
  else if existsb (beq c) informational_table then KInformational
  else KFailure.

(* Reader::validation_state without a results object: only the flat status list is consulted *)
Definition legacy_state (verify_trust : bool) (st : option (list code)) : vstate :=
  match st with
  | Some l =>
      if existsb (fun c => negb (beq c legacy_tolerated)) l then Invalid
      else if verify_trust then Trusted else Valid
  | None => if verify_trust then Trusted else Valid
  end.

Record reader := RD { rd_results : option results; rd_status : option (list code); rd_verify_trust : bool }.

Definition reader_state (rd : reader) : vstate :=
  match rd_results rd with
  | Some r => validation_state r
  | None => legacy_state (rd_verify_trust rd) (rd_status rd)
  end.

(* ---- what the correspondence run evaluates ---- *)
Definition run_results (a : option status_codes) (ds : option (list delta)) (ops : list status) (extra : option status)
  : vstate * results * option vstate :=
  let r := add_all (VR a ds) ops in
  (validation_state r, r, match extra with Some s => Some (validation_state (add_status r s)) | None => None end).

(* compact form for large enumerations: states only *)
Definition run_states (a : option status_codes) (ds : option (list delta)) (extra : option status)
  : vstate * option vstate :=
  let r := VR a ds in
  (validation_state r, match extra with Some s => Some (validation_state (add_status r s)) | None => None end).
