(* Model/Resolvers.v — RestrictedResolver::http_resolve, RedirectResolver::{redirect_target, http_resolve},
   redirect_location, build_redirected_request (sdk/src/http/restricted.rs) and the default stack of
   Context::build_default_{sync,async}_resolver (sdk/src/context.rs), over a scripted transport.
   The sync and async loops are textually the same; one model serves both (the harness runs both).

   Observed, not modelled (Section variables): the URI type with the components http::Uri reports, and
   resolve_redirect_target (url::Url::join + re-parse as http::Uri). *)
From Coq Require Import List NArith Bool Arith.
From C2PA Require Import Base.Bytes Model.HostPattern Model.IpPreds Model.IpClass Model.StackLayers
     Generated.C27_facts Generated.C26_facts.
Import ListNotations.
Open Scope N_scope.

Inductive error :=
| EUriDisallowed | ERedirectDisallowed | ERedirectTargetDisallowed | ETooManyRedirects
| EJoin          (* resolve_redirect_target failed: HttpResolverError::Other / Http *)
| ETransport.    (* whatever error the transport itself returned *)

(* a response as far as the resolvers look at it: status and the raw Location header value *)
Record response := Resp { rs_status : N; rs_location : option bytes }.

Section Resolvers.
  Variable U : Type.
  Variables scheme_of host_of port_of : U -> option bytes.
  Variable join : U -> bytes -> option U.

  Record request := Req { rq_uri : U; rq_method : bytes; rq_headers : list (bytes * bytes); rq_body : bytes }.

  (* the transport's remaining script; an exhausted script answers 200 without Location *)
  Definition tstate := list (response + error).
  Definition result := (response + error)%type.
  (* a resolver returns the new transport state, the requests that reached the transport during the call
     (in order) and the result *)
  Definition resolver := request -> tstate -> tstate * list request * result.

  Definition transport : resolver := fun rq st =>
    match st with
    | [] => ([], [rq], inl (Resp 200 None))
    | r :: rest => (rest, [rq], r)
    end.

  (* RestrictedResolver::is_uri_allowed / http_resolve *)
  Definition uri_allowed (allow : option (list pat)) (u : U) : bool :=
    match allow with
    | None => true
    | Some ps => is_uri_allowed ps (scheme_of u) (host_of u) (port_of u)
    end.

  Definition restricted (allow : option (list pat)) (inner : resolver) : resolver := fun rq st =>
    if negb (uri_allowed allow (rq_uri rq)) then (st, [], inr EUriDisallowed) else inner rq st.

  (* HeaderValue::to_str: visible ASCII or tab *)
  Definition visible_ascii (b : N) : bool := ((32 <=? b) && (b <? 127)) || (b =? 9).

  (* redirect_location *)
  Definition redirect_location (r : response) : option bytes :=
    if negb ((300 <=? rs_status r) && (rs_status r <? 400)) then None
    else match rs_location r with
         | Some v => if forallb visible_ascii v then Some v else None
         | None => None
         end.

  Inductive decision := Final | Follow (t : U) | Fail (e : error).

  (* RedirectResolver::redirect_target *)
  Definition redirect_target (allow_redirects : bool) (from : U) (r : response) : decision :=
    match redirect_location r with
    | None => Final
    | Some loc =>
        if negb allow_redirects then Fail ERedirectDisallowed
        else match join from loc with
             | None => Fail EJoin
             | Some target =>
                 if host_is_non_global (host_of target) then Fail ERedirectTargetDisallowed
                 else Follow target
             end
    end.

  (* build_redirected_request: header names are http::HeaderName, i.e. canonical lower case *)
  Definition dropped (name : bytes) : bool := existsb (beqb name) dropped_headers.

  Definition build_redirected (rq : request) (target : U) : request :=
    Req target (rq_method rq) (filter (fun h => negb (dropped (fst h))) (rq_headers rq)) (rq_body rq).

  (* RedirectResolver::http_resolve: `for _ in 0..=MAX_REDIRECTS` is [fuel = S MAX_REDIRECTS] *)
  Fixpoint redirect_loop (fuel : nat) (allow_redirects : bool) (inner : resolver) (rq : request) (st : tstate)
    : tstate * list request * result :=
    match fuel with
    | O => (st, [], inr ETooManyRedirects)
    | S f =>
        match inner rq st with
        | (st', tr, inr e) => (st', tr, inr e)
        | (st', tr, inl resp) =>
            match redirect_target allow_redirects (rq_uri rq) resp with
            | Final => (st', tr, inl resp)
            | Fail e => (st', tr, inr e)
            | Follow t =>
                let '(st'', tr', r) := redirect_loop f allow_redirects inner (build_redirected rq t) st' in
                (st'', tr ++ tr', r)
            end
        end
    end.

  Definition redirect (allow_redirects : bool) (inner : resolver) : resolver :=
    redirect_loop (S MAX_REDIRECTS) allow_redirects inner.

  (* Context::build_default_sync_resolver / build_default_async_resolver with [client] in place of the
     generic HTTP client: the wrappers are applied innermost first; which wrappers, in which order, is
     read from the source (Generated/C26_facts.v) *)
  Definition wrap (allow : option (list pat)) (allow_redirects : bool) (l : layer) (inner : resolver) : resolver :=
    match l with
    | LRedirect => redirect allow_redirects inner
    | LRestricted => restricted allow inner
    end.

  Definition stack_of (with_list without_list : list layer)
             (allowed_network_hosts : option (list pat)) (allow_redirects : bool) (client : resolver) : resolver :=
    match allowed_network_hosts with
    | Some hs => fold_right (wrap (Some hs) allow_redirects) client with_list
    | None => fold_right (wrap None allow_redirects) client without_list
    end.

  (* build_default_sync_resolver *)
  Definition default_stack := stack_of sync_layers_with_allow_list sync_layers_without_allow_list.
  (* build_default_async_resolver (read separately from the source) *)
  Definition default_stack_async := stack_of async_layers_with_allow_list async_layers_without_allow_list.
End Resolvers.

(* ---- a concrete URI type for the correspondence run: the components the harness observed, and the
   observed join as a finite table keyed by (base id, Location bytes) ---- *)
Record ouri := OUri { u_id : N; u_scheme : option bytes; u_host : option bytes; u_port : option bytes }.

Fixpoint table_join (tbl : list (N * bytes * option ouri)) (base : ouri) (loc : bytes) : option ouri :=
  match tbl with
  | [] => None
  | (i, l, t) :: rest => if (i =? u_id base) && beqb l loc then t else table_join rest base loc
  end.

Definition run_stack (tbl : list (N * bytes * option ouri)) (allowed : option (list bytes)) (allow_redirects : bool)
           (start : ouri) (method : bytes) (headers : list (bytes * bytes)) (body : bytes)
           (script : list (response + error)) :=
  let '(_, tr, r) :=
    default_stack ouri u_scheme u_host u_port (table_join tbl)
                  (option_map (map parse_pattern) allowed) allow_redirects (transport ouri)
                  (Req ouri start method headers body) script in
  (map (fun q => (u_id (rq_uri _ q), rq_method _ q, rq_headers _ q, rq_body _ q)) tr,
   match r with inl resp => inl (rs_status resp) | inr e => inr e end).
