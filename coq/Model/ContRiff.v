(* Model/ContRiff.v — transcription of sdk/src/asset_handlers/riff_io.rs (inject_c2pa, read_cai,
   get_manifest_pos, write_cai incl. the AVIX copy loop, get_object_locations_from_stream,
   remove_cai_store_from_stream = write_cai with an empty store) on top of the vendored riff 2.0.0
   crate (Chunk::read, Chunk::iter with end = pos + 4 + len, ChunkContents::write).  No proofs here. *)
From Coq Require Import List NArith Bool.
From C2PA Require Import Base.Bytes Model.Container Model.ContPng.
Import ListNotations.
Open Scope N_scope.

Inductive rchunk :=
| RData (id data : bytes)
| RList (id ty : bytes) (ch : list rchunk)      (* RIFF / LIST: has a type fourcc *)
| RSeqt (id : bytes) (ch : list rchunk).

Definition RIFF_ID : bytes := [82; 73; 70; 70].
Definition LIST_ID : bytes := [76; 73; 83; 84].
Definition SEQT_ID : bytes := [115; 101; 113; 116].
Definition C2PA_CHUNK_ID : bytes := [67; 50; 80; 65].
Definition AVIX_ID : bytes := [65; 86; 73; 88].
Definition MAX_DEPTH : nat := 32.

Definition rid (c : rchunk) : bytes :=
  match c with RData id _ => id | RList id _ _ => id | RSeqt id _ => id end.

(* ChunkContents::write *)
Fixpoint renc (c : rchunk) : bytes :=
  match c with
  | RData id data =>
      id ++ le 4 (len data) ++ data ++ (if N.odd (len data) then [0] else [])
  | RList id ty ch =>
      let body := concat (map renc ch) in id ++ le 4 (4 + len body) ++ ty ++ body
  | RSeqt id ch =>
      let body := concat (map renc ch) in id ++ le 4 (len body) ++ body
  end.

Definition nslice (file : bytes) (pos n : N) : bytes := slice file (N.to_nat pos) (N.to_nat n).

(* Chunk::read(stream, pos): id and little-endian length; None = io::Error *)
Definition rhead (file : bytes) (pos : N) : option (bytes * N) :=
  if len file <? pos + 8 then None
  else Some (nslice file pos 4, dle (nslice file (pos + 4) 4)).

(* Chunk::iter: chunk headers from cur while cur < end *)
Fixpoint riter (fuel : nat) (file : bytes) (cur e : N) : option (list (N * bytes * N)) :=
  match fuel with
  | O => None
  | S f =>
    if e <=? cur then Some []
    else match rhead file cur with
         | None => None
         | Some (id, l) =>
           option_map (cons (cur, id, l)) (riter f file (cur + l + 8 + l mod 2) e)
         end
  end.

Fixpoint sequence {A} (l : list (res A)) : res (list A) :=
  match l with
  | [] => ROk []
  | ROk a :: t => rbind (sequence t) (fun r => ROk (a :: r))
  | RErr e :: _ => RErr e
  end.

(* inject_c2pa (xmp_data = None); [strip_c2pa]: drop an existing C2PA chunk even when the store is empty
   (removal, fix eec3bf439) *)
Fixpoint rinject (fuel : nat) (file data : bytes) (strip_c2pa : bool) (pos : N) (id : bytes) (ln : N) (depth : nat)
  : res rchunk :=
  match fuel with
  | O => RErr EInvalidAsset
  | S f =>
    if Nat.ltb MAX_DEPTH depth then RErr EInvalidAsset
    else
      let is_riff := beq id RIFF_ID in
      if is_riff || beq id LIST_ID then
        if len file <? pos + 12 then RErr EInvalidAsset
        else
          let ty := nslice file (pos + 8) 4 in
          match riter (length file) file (pos + 12) (pos + 4 + ln) with
          | None => RErr EIoError
          | Some children =>
            let nonempty := negb (match data with [] => true | _ => false end) in
            let strip_it := is_riff && (strip_c2pa || nonempty) in
            let add_it := is_riff && nonempty in
            let children := if strip_it
                            then filter (fun c => negb (beq (snd (fst c)) C2PA_CHUNK_ID)) children
                            else children in
            rbind (sequence (map (fun c => rinject f file data strip_c2pa (fst (fst c)) (snd (fst c)) (snd c) (S depth))
                                 children))
                  (fun cs => ROk (RList id ty (if add_it then cs ++ [RData C2PA_CHUNK_ID data] else cs)))
          end
      else if beq id SEQT_ID then
        match riter (length file) file (pos + 12) (pos + 4 + ln) with
        | None => RErr EIoError
        | Some children =>
          rbind (sequence (map (fun c => rinject f file data strip_c2pa (fst (fst c)) (snd (fst c)) (snd c) (S depth))
                               children))
                (fun cs => ROk (RSeqt id cs))
        end
      else if len file <? pos + 8 + ln then RErr EInvalidAsset
      else ROk (RData id (nslice file (pos + 8) ln))
  end.

(* the AVIX copy loop of write_cai *)
Fixpoint avix_copy (fuel : nat) (file : bytes) (pos : N) : res bytes :=
  match fuel with
  | O => ROk []
  | S f =>
    if len file <=? pos then ROk []
    else match rhead file pos with
         | None => ROk []
         | Some (id, sz) =>
           if negb (beq id RIFF_ID || beq id AVIX_ID) then ROk []
           else if len file <? pos + 8 + sz then RErr EIoError
           else rbind (avix_copy f file (pos + 8 + sz))
                      (fun r => ROk (nslice file pos (8 + sz) ++ r))
         end
  end.

(* write_cai_impl.  [avi_literal]: the handler was created for one of the registered AVI format strings
   (avi, video/avi, video/msvideo, video/x-msvideo, application/x-troff-msvideo) *)
Definition riff_write_impl (avi_literal : bool) (a b : bytes) (strip_c2pa : bool) : res bytes :=
  match rhead a 0 with
  | None => RErr EIoError
  | Some (id, ln) =>
    if negb (beq id RIFF_ID) then RErr EInvalidAsset
    else
      rbind (rinject (S (length a)) a b strip_c2pa 0 id ln 0) (fun c =>
        if avi_literal
        then rbind (avix_copy (S (length a)) a (8 + ln)) (fun x => ROk (renc c ++ x))
        else ROk (renc c))
  end.

Definition riff_write (avi_literal : bool) (a b : bytes) : res bytes := riff_write_impl avi_literal a b false.

(* remove_cai_store_from_stream: write_cai_impl with an empty store and strip_c2pa = true *)
Definition riff_remove (avi_literal : bool) (a : bytes) : res bytes := riff_write_impl avi_literal a [] true.

(* the lazy search of read_cai / get_manifest_pos over the children of the first chunk *)
Fixpoint rfind_c2pa (fuel : nat) (file : bytes) (cur e : N) : res (option (N * N)) :=
  match fuel with
  | O => RErr EInvalidAsset
  | S f =>
    if e <=? cur then ROk None
    else match rhead file cur with
         | None => RErr EInvalidAsset
         | Some (id, l) =>
           if beq id C2PA_CHUNK_ID then ROk (Some (cur, l))
           else rfind_c2pa f file (cur + l + 8 + l mod 2) e
         end
  end.

Definition riff_read (a : bytes) : res bytes :=
  match rhead a 0 with
  | None => RErr EIoError
  | Some (id, ln) =>
    if negb (beq id RIFF_ID) then RErr ESignature
    else
      rbind (rfind_c2pa (length a) a 12 (4 + ln)) (fun r =>
        match r with
        | None => RErr EJumbfNotFound
        | Some (pos, l) =>
          if len a <? pos + 8 + l then RErr EInvalidAsset
          else nonempty_or_notfound (ROk (nslice a (pos + 8) l))
        end)
  end.

Definition riff_manifest_pos (a : bytes) : option (N * N) :=
  match rhead a 0 with
  | None => None
  | Some (id, ln) =>
    if negb (beq id RIFF_ID) then None
    else match rfind_c2pa (length a) a 12 (4 + ln) with
         | ROk (Some (pos, l)) => Some (pos, l + 8)
         | _ => None
         end
  end.

Definition riff_locations (avi_literal : bool) (a : bytes) : res (list (N * N * kind)) :=
  let mkl pos mlen file_end :=
    ROk [(pos, mlen, KCai); (0, pos, KOther); (pos + mlen, file_end - (pos + mlen), KOther)] in
  match riff_manifest_pos a with
  | Some (pos, mlen) => mkl pos mlen (len a)
  | None =>
    rbind (riff_write avi_literal a [1; 2; 3; 4]) (fun out =>
      match riff_manifest_pos out with
      | Some (pos, mlen) => mkl pos mlen (len out)
      | None => RErr EEmbeddingError
      end)
  end.

(* ---- segment-level view: the children of the first RIFF chunk ---- *)
Definition is_c2pa_chunk (c : rchunk) : bool := beq (rid c) C2PA_CHUNK_ID.

Definition riff_payload (cs : list rchunk) : res bytes :=
  match find is_c2pa_chunk cs with
  | Some (RData _ d) => nonempty_or_notfound (ROk d)
  | Some _ => RErr EInvalidAsset
  | None => RErr EJumbfNotFound
  end.

Definition riff_format : format :=
  Format rchunk (map is_c2pa_chunk) (fun b => [RData C2PA_CHUNK_ID b]) riff_payload
         (fun l => length (select false l (map is_c2pa_chunk l))) renc.

(* inject_c2pa at the top level, on already parsed children without nested RIFF-id chunks *)
Definition riff_write_children (strip_c2pa : bool) (cs : list rchunk) (b : bytes) : list rchunk :=
  let nonempty := negb (match b with [] => true | _ => false end) in
  let kept := if strip_c2pa || nonempty then filter (fun c => negb (is_c2pa_chunk c)) cs else cs in
  if nonempty then kept ++ [RData C2PA_CHUNK_ID b] else kept.
