(* Model/Jumbf.v — the JUMBF box layer of sdk/src/jumbf/boxes.rs: the BMFFBox writers (box_size / write_box /
   write_box_payload) and BoxReader (read_header, read_desc_box, read_*_box, read_super_box_impl), transcribed
   branch by branch.  Executable Gallina, no proofs.

   Reader state: std::io::Cursor over an immutable buffer = (buf, pos).  [rd] is Cursor::read (short reads at the
   end of the buffer), [rd_exact] is read_exact / ReaderUtils::read_to_vec (all or error), [unread] is
   seek(Current(-8)) (error when it would become negative).

   What is left out: the u32 arithmetic of box_size is modelled without its overflow behaviour (debug builds panic,
   release builds wrap; [be 4] of the exact sum is the wrapped value) — boxes of 4 GiB and more are out of scope. *)
From Coq Require Import List NArith Bool.
From C2PA Require Import Base.Bytes Generated.C18_facts.
Import ListNotations.
Open Scope N_scope.

Definition U32 : N := 4294967296.
Definition U64 : N := 18446744073709551616.

(* ------------------------------------------------------------------ box trees *)

(* JUMBFDescriptionBox { box_uuid, toggles, label (CString without its NUL), box_id, signature, private (salt) } *)
Record desc := mkdesc {
  d_uuid : bytes; d_tog : N; d_label : bytes; d_id : option N; d_sig : option bytes; d_salt : option bytes }.

Inductive jbox :=
| Super (d : desc) (cs : list jbox)       (* JUMBFSuperBox        "jumb" *)
| Json (x : bytes)                        (* JUMBFJSONContentBox  "json" *)
| Cbor (x : bytes)                        (* JUMBFCBORContentBox  "cbor" *)
| Free (x : bytes)                        (* JUMBFPaddingContentBox "free" *)
| Jp2c (x : bytes)                        (* JUMBFCodestreamContentBox "jp2c" *)
| Brob (x : bytes)                        (* JUMBFBrotliContentBox "brob" *)
| Uuid (u x : bytes)                      (* JUMBFUUIDContentBox  "uuid" *)
| Bfdb (tog : N) (mt : bytes) (fn : option bytes)  (* JUMBFEmbeddedFileDescriptionBox "bfdb" *)
| Bidb (x : bytes).                       (* JUMBFEmbeddedFileContentBox "bidb" *)

(* ------------------------------------------------------------------ std::str::from_utf8 *)

Definition between (lo b hi : N) : bool := (lo <=? b) && (b <=? hi).
Definition cont (b : N) : bool := between 128 b 191.

Fixpoint valid_utf8 (l : bytes) : bool :=
  match l with
  | [] => true
  | b0 :: t0 =>
    if b0 <? 128 then valid_utf8 t0
    else if between 194 b0 223 then
      match t0 with
      | b1 :: t1 => cont b1 && valid_utf8 t1
      | _ => false
      end
    else if between 224 b0 239 then
      match t0 with
      | b1 :: b2 :: t2 =>
        (if b0 =? 224 then between 160 b1 191 else if b0 =? 237 then between 128 b1 159 else cont b1)
        && cont b2 && valid_utf8 t2
      | _ => false
      end
    else if between 240 b0 244 then
      match t0 with
      | b1 :: b2 :: b3 :: t3 =>
        (if b0 =? 240 then between 144 b1 191 else if b0 =? 244 then between 128 b1 143 else cont b1)
        && cont b2 && cont b3 && valid_utf8 t3
      | _ => false
      end
    else false
  end.

Definition is_nil {A} (l : list A) : bool := match l with [] => true | _ => false end.

(* `cstring.to_str().unwrap_or_default().chars().count() > 0` (writer) and
   `!cstring.into_string().unwrap_or_default().is_empty()` (reader): valid UTF-8 and not empty *)
Definition has_text (l : bytes) : bool := valid_utf8 l && negb (is_nil l).

(* ------------------------------------------------------------------ writer *)

Definition sumN (l : list N) : N := fold_right N.add 0 l.

Definition fourcc (t : N) : bytes := be 4 t.

(* CAISaltContentBox::write_box *)
Definition enc_salt (s : bytes) : bytes := be 4 (HEADER_SIZE + len s) ++ fourcc W_C2SH ++ s.

Definition enc_oid (o : option N) : bytes := match o with Some i => be 4 i | None => [] end.
Definition enc_osig (o : option bytes) : bytes := match o with Some s => s | None => [] end.
Definition enc_osalt (o : option bytes) : bytes := match o with Some s => enc_salt s | None => [] end.

(* JUMBFDescriptionBox::write_box_payload *)
Definition desc_payload (d : desc) : bytes :=
  d_uuid d ++ [d_tog d]
  ++ (if has_text (d_label d) then d_label d ++ [0] else [])
  ++ enc_oid (d_id d) ++ enc_osig (d_sig d) ++ enc_osalt (d_salt d).

(* box_payload_size = ByteCounter over write_box_payload *)
Definition desc_size (d : desc) : N := HEADER_SIZE + len (desc_payload d).
Definition enc_desc (d : desc) : bytes := be 4 (desc_size d) ++ fourcc W_JUMD ++ desc_payload d.

(* JUMBFEmbeddedFileDescriptionBox::write_box_payload: toggles, media type with NUL when it has text;
   the file name is never written (commented out in the source) *)
Definition bfdb_payload (tog : N) (mt : bytes) : bytes := [tog] ++ (if has_text mt then mt ++ [0] else []).

(* BMFFBox::box_size = 8 + box_payload_size *)
Fixpoint box_size (b : jbox) : N :=
  match b with
  | Super d cs => HEADER_SIZE + (desc_size d + sumN (map box_size cs))
  | Json x | Cbor x | Free x | Jp2c x | Brob x | Bidb x => HEADER_SIZE + len x
  | Uuid u x => HEADER_SIZE + (16 + len x)          (* even when nothing is written *)
  | Bfdb tog mt fn => HEADER_SIZE + len (bfdb_payload tog mt)
  end.

(* BMFFBox::write_box *)
Fixpoint enc (b : jbox) : bytes :=
  match b with
  | Super d cs => be 4 (box_size (Super d cs)) ++ fourcc W_JUMB ++ enc_desc d ++ concat (map enc cs)
  | Json x => be 4 (box_size (Json x)) ++ fourcc W_JSON ++ x
  | Cbor x => be 4 (box_size (Cbor x)) ++ fourcc W_CBOR ++ x
  | Free x => be 4 (box_size (Free x)) ++ fourcc W_FREE ++ x
  | Jp2c x => be 4 (box_size (Jp2c x)) ++ fourcc W_JP2C ++ x
  | Brob x => be 4 (box_size (Brob x)) ++ fourcc W_BROB ++ x
  | Bidb x => be 4 (box_size (Bidb x)) ++ fourcc W_BIDB ++ x
  | Uuid u x => be 4 (box_size (Uuid u x)) ++ fourcc W_UUID
                ++ (if is_nil x then [] else u ++ x)      (* `if !self.data.is_empty()` guards the uuid too *)
  | Bfdb tog mt fn => be 4 (box_size (Bfdb tog mt fn)) ++ fourcc W_BFDB ++ bfdb_payload tog mt
  end.

(* ------------------------------------------------------------------ reader primitives *)

Inductive perr :=
| EUnexpectedEof | EInvalidJumbfHeader | EExpectedJumdError | EInvalidJumbBox | EInvalidJsonBox | EInvalidCborBox
| EInvalidJp2cBox | EInvalidUuidBox | EInvalidEmbeddedFileBox | EInvalidUnknownBox | EInvalidBoxHeader | EIoError
| EBoxNestingTooDeep.

Inductive res (A : Type) := Ok (a : A) | Err (e : perr) | Panic | OutOfFuel.
Arguments Ok {A} a.
Arguments Err {A} e.
Arguments Panic {A}.
Arguments OutOfFuel {A}.

(* bytes from the cursor position to the end *)
Definition rest (buf : bytes) (pos : N) : bytes :=
  if len buf <=? pos then [] else skipn (N.to_nat pos) buf.

(* Cursor::read (repeated until n bytes or end of data for the header): up to n bytes (n is 8 or 16 here) *)
Definition rd (buf : bytes) (pos n : N) : bytes * N :=
  let r := firstn (N.to_nat n) (rest buf pos) in (r, pos + len r).

(* read_exact / read_to_vec: all n bytes or an error *)
Definition rd_exact (buf : bytes) (pos n : N) : option (bytes * N) :=
  if pos + n <=? len buf then Some (firstn (N.to_nat n) (rest buf pos), pos + n) else None.

(* unread_bytes(reader, HEADER_SIZE) *)
Definition unread (pos : N) : option N := if pos <? HEADER_SIZE then None else Some (pos - HEADER_SIZE).

(* BoxReader::read_header: Some (name, size, pos') or None for an error.  name 0 is BoxType::Empty.
   The 8 header bytes are read completely (loop over Cursor::read): nothing left = Empty, a truncated header is
   UnexpectedEof (every caller maps the error to its own). *)
Definition read_header (buf : bytes) (pos : N) : option (N * N * N) :=
  let '(b, p1) := rd buf pos 8 in
  if len b =? 0 then Some (0, 0, p1)                       (* end of file *)
  else if len b <? 8 then None                             (* truncated header *)
  else
    let size := de (firstn 4 b) in
    let typ := de (skipn 4 b) in
    if size =? 1 then
      match rd_exact buf p1 8 with
      | None => None
      | Some (l, p2) => Some (typ, de l, p2)               (* XLBox *)
      end
    else Some (typ, size, p1).

(* the label loop of read_desc_box on the bytes ahead: (label, bytes consumed, bytes_left) *)
Fixpoint read_label (l : bytes) (bl : N) : option (bytes * N * N) :=
  if bl <=? HEADER_SIZE then None
  else match l with
       | [] => None
       | c :: t =>
         if c =? 0 then Some ([], 1, bl - 1)
         else match read_label t (bl - 1) with
              | Some (s, n, bl') => Some (c :: s, n + 1, bl')
              | None => None
              end
       end.

(* BoxReader::read_desc_box.  Every error is mapped to UnexpectedEof by the only caller, and the early
   `Ok(JUMBFDescriptionBox::new("", None))` (nothing read) is rejected there as an empty label: both are [None]. *)
Definition read_desc (buf : bytes) (pos size : N) : option (desc * N) :=
  if size <? JUMD_MIN_SIZE then None else
  let '(u, p1) := rd buf pos 16 in
  if len u =? 0 then None else
  let bl := size - len u in
  match rd_exact buf p1 1 with
  | None => None
  | Some (tg, p2) =>
    let tog := hd 0 tg in
    let bl := bl - 1 in
    if negb (N.land tog 3 =? 3) then None else
    match read_label (rest buf p2) bl with
    | None => None
    | Some (lab, n, bl) =>
      let p3 := p2 + n in
      match (if N.land tog 4 =? 4
             then match rd_exact buf p3 4 with
                  | None => None
                  | Some (b, p) => Some (Some (de b), p, bl - 4)
                  end
             else Some (None, p3, bl)) with
      | None => None
      | Some (id, p4, bl) =>
        match (if N.land tog 8 =? 8
               then match rd_exact buf p4 32 with
                    | None => None
                    | Some (b, p) => if bl <? 32 then None else Some (Some b, p, bl - 32)
                    end
               else Some (None, p4, bl)) with
        | None => None
        | Some (sig, p5, bl) =>
          match (if N.land tog 16 =? 16
                 then match read_header buf p5 with
                      | None => None
                      | Some (name, hsize, p6) =>
                        if hsize =? 0 then None else
                        match (if (HEADER_SIZE <=? bl) && (bl - HEADER_SIZE =? hsize) then Some p6 else unread p6) with
                        | None => None
                        | Some p7 =>
                          if name =? T_C2SH then
                            if hsize <? HEADER_SIZE then None else
                            match rd_exact buf p7 (hsize - HEADER_SIZE) with
                            | None => None
                            | Some (s, p8) => if bl <? hsize then None else Some (Some s, p8, bl - hsize)
                            end
                          else None
                        end
                      end
                 else Some (None, p5, bl)) with
          | None => None
          | Some (salt, p9, bl) =>
            if bl =? HEADER_SIZE then Some (mkdesc u tog lab id sig salt, p9) else None
          end
        end
      end
    end
  end.

(* read_json_box / read_cbor_box / read_padding_box / read_jp2c_box / read_brotli_box / read_embedded_content_box *)
Definition read_plain (buf : bytes) (pos size : N) : option (bytes * N) :=
  match read_header buf pos with
  | None => None
  | Some (_, hsize, p1) =>
    if hsize =? 0 then Some ([], p1)                        (* "bad read, return empty box" *)
    else match (if hsize =? size then Some p1 else unread p1) with
         | None => None
         | Some p2 => if size <? HEADER_SIZE then None else rd_exact buf p2 (size - HEADER_SIZE)
         end
  end.

(* read_uuid_box *)
Definition read_uuid (buf : bytes) (pos size : N) : option (jbox * N) :=
  match read_header buf pos with
  | None => None
  | Some (_, hsize, p1) =>
    if hsize =? 0 then Some (Uuid (repeat 0 16) [], p1)
    else match (if hsize =? size then Some p1 else unread p1) with
         | None => None
         | Some p2 =>
           match rd_exact buf p2 16 with
           | None => None
           | Some (u, p3) =>
             if size <? HEADER_SIZE + 16 then None else
             match rd_exact buf p3 (size - (HEADER_SIZE + 16)) with
             | None => None
             | Some (x, p4) => Some (Uuid u x, p4)
             end
           end
         end
  end.

Fixpoint find0 (l : bytes) : option nat :=
  match l with
  | [] => None
  | c :: t => if c =? 0 then Some O else option_map S (find0 t)
  end.

(* the `match togs[0]` at the end of read_embedded_media_desc_box *)
Definition bfdb_split (tog : N) (b : bytes) : bytes * option bytes :=
  if tog =? 1 then
    match find0 b with
    | Some p => if negb (Nat.eqb p (length b - 1)) then (b, None) else (firstn p b, Some (skipn p b))
    | None => (b, None)
    end
  else (if last b 1 =? 0 then removelast b else b, None).

(* read_embedded_media_desc_box *)
Definition read_bfdb (buf : bytes) (pos size : N) : option (jbox * N) :=
  if size <? BFDB_MIN_SIZE then None else
  match read_header buf pos with
  | None => None
  | Some (_, hsize, p1) =>
    if hsize =? 0 then Some (Bfdb 0 [] None, p1)
    else match (if hsize =? size then Some p1 else unread p1) with
         | None => None
         | Some p2 =>
           match rd_exact buf p2 1 with
           | None => None
           | Some (tg, p3) =>
             let tog := hd 0 tg in
             match rd_exact buf p3 (size - HEADER_SIZE - TOGGLE_SIZE) with
             | None => None
             | Some (b, p4) => let '(mt, fn) := bfdb_split tog b in Some (Bfdb tog mt fn, p4)
             end
           end
         end
  end.

Definition lift {A B} (e : perr) (f : A -> B) (r : option (A * N)) : res (B * N) :=
  match r with Some (a, p) => Ok (f a, p) | None => Err e end.

(* the content-box arms of the `match box_header.name` in read_super_box_impl; None = not a content box type *)
Definition read_leaf (name size : N) (buf : bytes) (p0 : N) : option (res (jbox * N)) :=
  if name =? T_JSON then Some (lift EInvalidJsonBox Json (read_plain buf p0 size))
  else if name =? T_CBOR then Some (lift EInvalidCborBox Cbor (read_plain buf p0 size))
  else if name =? T_FREE then Some (lift EInvalidCborBox Free (read_plain buf p0 size))      (* sic *)
  else if name =? T_JP2C then Some (lift EInvalidJp2cBox Jp2c (read_plain buf p0 size))
  else if name =? T_BROB then Some (lift EInvalidJp2cBox Brob (read_plain buf p0 size))      (* sic *)
  else if name =? T_UUID then Some (lift EInvalidUuidBox (fun b => b) (read_uuid buf p0 size))
  else if name =? T_BFDB then Some (lift EInvalidEmbeddedFileBox (fun b => b) (read_bfdb buf p0 size))
  else if name =? T_BIDB then Some (lift EInvalidEmbeddedFileBox Bidb (read_plain buf p0 size))
  else None.

(* the `_ =>` arm: skip a box of unknown type; Ok pos' or the error *)
Definition skip_unknown (size : N) (buf : bytes) (p0 : N) : res N :=
  match read_header buf p0 with
  | None => Err EInvalidBoxHeader
  | Some (_, hsize, p1) =>
    if hsize =? 0 then Err EInvalidUnknownBox
    else match (if hsize =? size then Some p1 else unread p1) with
         | None => Err EIoError
         | Some p2 =>
           if size <? HEADER_SIZE then Err EInvalidBoxHeader
           else match rd_exact buf p2 (size - HEADER_SIZE) with
                | None => Err EInvalidBoxHeader
                | Some (_, p3) => Ok p3
                end
         end
  end.

(* BoxReader::read_super_box_impl and its `while found` loop.  One unit of fuel per call / per iteration. *)
Fixpoint read_super (fuel : nat) (depth : N) (buf : bytes) (pos : N) {struct fuel} : res (jbox * N) :=
  match fuel with
  | O => OutOfFuel
  | S f =>
    if MAX_JUMB_DEPTH <=? depth then Err EBoxNestingTooDeep else
    match read_header buf pos with
    | None => Err EInvalidJumbfHeader
    | Some (name, size, p1) =>
      if name =? 0 then Err EUnexpectedEof
      else if negb (name =? T_JUMB) then Err EInvalidJumbfHeader
      else if U64 <=? pos + size then Err EInvalidJumbBox  (* start_pos.checked_add(jumb_header.size) *)
      else
        let dest := pos + size in
        match read_header buf p1 with
        | None => Err EExpectedJumdError
        | Some (name2, size2, p2) =>
          if negb (name2 =? T_JUMD) then Err EExpectedJumdError else
          match read_desc buf p2 size2 with
          | None => Err EUnexpectedEof
          | Some (d, p3) =>
            if negb (has_text (d_label d)) then Err EUnexpectedEof else
            match read_children f depth buf p3 dest [] with
            | Ok (cs, p4) => Ok (Super d cs, p4)
            | Err e => Err e
            | Panic => Panic
            | OutOfFuel => OutOfFuel
            end
          end
        end
    end
  end
with read_children (fuel : nat) (depth : N) (buf : bytes) (pos dest : N) (acc : list jbox) {struct fuel}
  : res (list jbox * N) :=
  match fuel with
  | O => OutOfFuel
  | S f =>
    match read_header buf pos with
    | None => Err EInvalidJumbfHeader
    | Some (name, size, p1) =>
      if name =? 0 then
        (* found = false; then the position check: only `p > dest_pos` is an error *)
        if dest <? p1 then Err EInvalidJumbBox else Ok (rev acc, p1)
      else
        match unread p1 with
        | None => Err EIoError
        | Some p0 =>
          if name =? T_JUMB then
            match read_super f (depth + 1) buf p0 with
            | Ok (b, p) =>
              if p =? dest then Ok (rev (b :: acc), p)
              else if dest <? p then Err EInvalidJumbBox
              else read_children f depth buf p dest (b :: acc)
            | Err e => Err e
            | Panic => Panic
            | OutOfFuel => OutOfFuel
            end
          else
            match read_leaf name size buf p0 with
            | Some (Ok (b, p)) =>
              if p =? dest then Ok (rev (b :: acc), p)
              else if dest <? p then Err EInvalidJumbBox
              else read_children f depth buf p dest (b :: acc)
            | Some (Err e) => Err e
            | Some Panic => Panic
            | Some OutOfFuel => OutOfFuel
            | None =>
              (* unknown box: skipped, and `continue` bypasses the position check *)
              match skip_unknown size buf p0 with
              | Ok p => read_children f depth buf p dest acc
              | Err e => Err e
              | Panic => Panic
              | OutOfFuel => OutOfFuel
              end
            end
        end
    end
  end.

(* BoxReader::read_super_box on a whole buffer *)
Definition decode_fuel (fuel : nat) (buf : bytes) : res jbox :=
  match read_super fuel 0 buf 0 with
  | Ok (t, _) => Ok t
  | Err e => Err e
  | Panic => Panic
  | OutOfFuel => OutOfFuel
  end.
Definition decode (buf : bytes) : res jbox := decode_fuel (S (length buf)) buf.

(* ------------------------------------------------------------------ well-formed (canonical) trees *)

Definition len_is {A} (l : list A) (n : nat) : bool := Nat.eqb (length l) n.
Definition no_nul (l : bytes) : bool := forallb (fun c => negb (c =? 0)) l.
Definition bit (tog m : N) : bool := N.land tog m =? m.

Definition wf_desc (d : desc) : bool :=
  len_is (d_uuid d) 16 && bit (d_tog d) 3 && has_text (d_label d) && no_nul (d_label d)
  && (match d_id d with Some i => bit (d_tog d) 4 && (i <? U32) | None => negb (bit (d_tog d) 4) end)
  && (match d_sig d with Some s => bit (d_tog d) 8 && len_is s 32 | None => negb (bit (d_tog d) 8) end)
  && (match d_salt d with Some s => bit (d_tog d) 16 | None => negb (bit (d_tog d) 16) end).

(* canonical embedded-file description: what the reader returns for what the writer writes *)
Definition wf_bfdb (tog : N) (mt : bytes) (fn : option bytes) : bool :=
  if is_nil mt then (match fn with None => true | _ => false end)
  else has_text mt &&
       (if tog =? 1 then no_nul mt && (match fn with Some [0] => true | _ => false end)
        else match fn with None => true | _ => false end).

Fixpoint shape (b : jbox) : bool :=
  match b with
  | Super d cs => wf_desc d && negb (is_nil cs) && forallb shape cs
  | Uuid u x => len_is u 16 && negb (is_nil x)
  | Bfdb tog mt fn => wf_bfdb tog mt fn
  | _ => true
  end.

Fixpoint height (b : jbox) : N :=
  match b with
  | Super d cs => 1 + fold_right N.max 0 (map height cs)
  | _ => 0
  end.

Definition wf (t : jbox) : Prop :=
  shape t = true /\ box_size t < U32 /\ height t <= MAX_JUMB_DEPTH.

Definition is_super (b : jbox) : bool := match b with Super _ _ => true | _ => false end.

(* ------------------------------------------------------------------ compressed manifests (CAIManifest) *)

Section Compressed.
  Variable compress : bytes -> bytes.              (* brotli::BrotliCompress with default parameters *)
  Variable decompress : bytes -> option bytes.     (* brotli::BrotliDecompress into the bounded writer *)

  (* CAIManifest::write_box_payload *)
  Definition manifest_write (compressed : bool) (store : jbox) : bytes :=
    if compressed then
      let label := match store with Super d _ => d_label d | _ => [] end in
      enc (Super (mkdesc CAI_COMPRESSED_MANIFEST_UUID 3 label None None None) [Brob (compress (enc store))])
    else enc store.

  (* CAIManifest::from: (compressed_store, store) *)
  Definition manifest_from (sbox : jbox) : res (bool * jbox) :=
    match sbox with
    | Super _ (Brob z :: _) =>
      match decompress z with
      | None => Err EIoError
      | Some raw => match decode raw with Ok s => Ok (true, s) | Err e => Err e | Panic => Panic | OutOfFuel => OutOfFuel end
      end
    | _ => match decode (enc sbox) with Ok s => Ok (false, s) | Err e => Err e | Panic => Panic | OutOfFuel => OutOfFuel end
    end.
End Compressed.

(* ------------------------------------------------------------------ reports evaluated by the correspondence run *)

Fixpoint bytes_eqb (a b : bytes) : bool :=
  match a, b with
  | [], [] => true
  | x :: a', y :: b' => (x =? y) && bytes_eqb a' b'
  | _, _ => false
  end.
Definition obytes_eqb (a b : option bytes) : bool :=
  match a, b with Some x, Some y => bytes_eqb x y | None, None => true | _, _ => false end.
Definition oN_eqb (a b : option N) : bool :=
  match a, b with Some x, Some y => x =? y | None, None => true | _, _ => false end.
Definition desc_eqb (a b : desc) : bool :=
  bytes_eqb (d_uuid a) (d_uuid b) && (d_tog a =? d_tog b) && bytes_eqb (d_label a) (d_label b)
  && oN_eqb (d_id a) (d_id b) && obytes_eqb (d_sig a) (d_sig b) && obytes_eqb (d_salt a) (d_salt b).

Fixpoint jbox_eqb (a b : jbox) : bool :=
  match a, b with
  | Super d cs, Super d' cs' =>
    desc_eqb d d' &&
    (fix go (l l' : list jbox) : bool :=
       match l, l' with
       | [], [] => true
       | x :: t, y :: t' => jbox_eqb x y && go t t'
       | _, _ => false
       end) cs cs'
  | Json x, Json y | Cbor x, Cbor y | Free x, Free y | Jp2c x, Jp2c y | Brob x, Brob y | Bidb x, Bidb y => bytes_eqb x y
  | Uuid u x, Uuid v y => bytes_eqb u v && bytes_eqb x y
  | Bfdb g m f, Bfdb g' m' f' => (g =? g') && bytes_eqb m m' && obytes_eqb f f'
  | _, _ => false
  end.

Inductive second := SameTree | OtherTree (t : jbox) (e : bytes) | SecondErr (e : perr) | SecondPanic | SecondFuel.
Inductive report := RepOk (t : jbox) (e : bytes) (s : second) | RepErr (e : perr) | RepPanic | RepFuel.

(* parse; re-serialise; parse again (what the harness does with the implementation) *)
Definition box_report (b : bytes) : report :=
  match decode b with
  | Ok t =>
    let e := enc t in
    RepOk t e (match decode e with
               | Ok t2 => if jbox_eqb t t2 then SameTree else OtherTree t2 (enc t2)
               | Err x => SecondErr x
               | Panic => SecondPanic
               | OutOfFuel => SecondFuel
               end)
  | Err x => RepErr x
  | Panic => RepPanic
  | OutOfFuel => RepFuel
  end.

(* for model-generated trees: the model's own serialisation, and the report on it *)
Definition tree_report (t : jbox) : bytes * bool * report := (enc t, shape t, box_report (enc t)).

(* ------------------------------------------------------------------ compact reports for long inputs: the printed tree and
   the bytes are replaced by (length, checksum) of a canonical printing; the driver computes the same from the
   implementation's output *)

Definition cksum (l : bytes) : N := fold_left (fun a b => (a * 257 + b + 1) mod 4294967291) l 7.
Definition digest (l : bytes) : N * N := (len l, cksum l).

Definition pr_bytes (x : bytes) : bytes := be 8 (len x) ++ x.
Definition pr_obytes (o : option bytes) : bytes := match o with Some x => 1 :: pr_bytes x | None => [0] end.
Definition pr_oN (o : option N) : bytes := match o with Some i => 1 :: be 4 i | None => [0] end.

Fixpoint print_tree (b : jbox) : bytes :=
  match b with
  | Super d cs =>
    1 :: pr_bytes (d_uuid d) ++ [d_tog d] ++ pr_bytes (d_label d) ++ pr_oN (d_id d) ++ pr_obytes (d_sig d) ++ pr_obytes (d_salt d)
      ++ be 4 (len cs) ++ concat (map print_tree cs)
  | Json x => 2 :: pr_bytes x
  | Cbor x => 3 :: pr_bytes x
  | Free x => 4 :: pr_bytes x
  | Jp2c x => 5 :: pr_bytes x
  | Brob x => 6 :: pr_bytes x
  | Bidb x => 7 :: pr_bytes x
  | Uuid u x => 8 :: pr_bytes u ++ pr_bytes x
  | Bfdb g m f => 9 :: g :: pr_bytes m ++ pr_obytes f
  end.

Inductive dsecond := DSame | DOther (t e : N * N) (same_bytes : bool) | DSecondErr (e : perr) | DSecondPanic | DSecondFuel.
Inductive dreport := DOk (t e : N * N) (same_as_input : bool) (s : dsecond) | DErr (e : perr) | DPanic | DFuel.

Definition box_digest (b : bytes) : dreport :=
  match decode b with
  | Ok t =>
    let e := enc t in
    DOk (digest (print_tree t)) (digest e) (bytes_eqb e b)
        (match decode e with
         | Ok t2 => if jbox_eqb t t2 then DSame else DOther (digest (print_tree t2)) (digest (enc t2)) (bytes_eqb (enc t2) e)
         | Err x => DSecondErr x
         | Panic => DSecondPanic
         | OutOfFuel => DSecondFuel
         end)
  | Err x => DErr x
  | Panic => DPanic
  | OutOfFuel => DFuel
  end.
