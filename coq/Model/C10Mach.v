(* Model/C10Mach.v — machine-level primitives shared by the C10 parser models: u32/u64 ranges, the
   four-way outcome (Ok / Err / Panic / OutOfFuel), std::io::Cursor<&[u8]> reads and seeks, and
   String::from_utf8 validity.  Executable Gallina, no proofs.

   Cursor semantics transcribed from library/std/src/io/cursor.rs:
     read(buf[n])        copies min(n, len - min(pos, len)) bytes, pos += that many
     read_exact(buf[n])  all n bytes or Err(UnexpectedEof)
     seek(Start(p))      pos = p, never fails (p may be past the end)
     seek(Current(d))    pos.checked_add_signed(d), Err when negative or above u64::MAX
     seek(End(0))        pos = len
   Debug builds panic on u64/usize overflow ("attempt to add with overflow"), release builds wrap:
   the models take [dbg : bool] where an unchecked operation exists in the code. *)
From Coq Require Import List NArith Bool.
From C2PA Require Import Base.Bytes.
Import ListNotations.
Open Scope N_scope.

Definition U32MAX : N := 4294967295.
Definition U64MAX : N := 18446744073709551615.
Definition U64MOD : N := 18446744073709551616.

Inductive out (E A : Type) :=
| Ok (a : A)
| Err (e : E)
| Panic (site : N) (x y : N)      (* which unchecked operation, and its operands *)
| OutOfFuel.
Arguments Ok {E A} a.
Arguments Err {E A} e.
Arguments Panic {E A} site x y.
Arguments OutOfFuel {E A}.

(* unchecked `a + b` on u64: debug panics, release wraps *)
Definition add64 {E} (dbg : bool) (site a b : N) : out E N :=
  if a + b <=? U64MAX then Ok (a + b)
  else if dbg then Panic site a b else Ok ((a + b) mod U64MOD).

(* unchecked `a - b` on u64 *)
Definition sub64 {E} (dbg : bool) (site a b : N) : out E N :=
  if b <=? a then Ok (a - b)
  else if dbg then Panic site a b else Ok ((U64MOD + a - b) mod U64MOD).

Definition checked_add64 (a b : N) : option N := if a + b <=? U64MAX then Some (a + b) else None.
Definition checked_sub64 (a b : N) : option N := if b <=? a then Some (a - b) else None.

(* ---------------------------------------------------------------- Cursor over an immutable buffer *)

Definition rest (buf : bytes) (pos : N) : bytes :=
  if len buf <=? pos then [] else skipn (N.to_nat pos) buf.

Definition avail (buf : bytes) (pos : N) : N := len buf - pos.

(* Read::read into an n-byte array (n is 8 or 16 in the callers) *)
Definition cread (buf : bytes) (pos n : N) : bytes * N :=
  let r := firstn (N.to_nat n) (rest buf pos) in (r, pos + len r).

(* read_exact / read_u8 / read_u32: all n bytes or an error.  [n] may be huge: it is compared first *)
Definition cread_exact (buf : bytes) (pos n : N) : option (bytes * N) :=
  if n <=? avail buf pos then Some (firstn (N.to_nat n) (rest buf pos), pos + n) else None.

(* seek(SeekFrom::Current(-(n as i64))) for a small constant n *)
Definition seek_back (pos n : N) : option N := if pos <? n then None else Some (pos - n).

(* seek(SeekFrom::Current(n as i64)) for n < 2^63 *)
Definition seek_fwd (pos n : N) : option N := if pos + n <=? U64MAX then Some (pos + n) else None.

(* ReaderUtils::read_to_vec(data_len): position/length probe, checked_add, bound check, then a Vec of
   exactly data_len bytes.  Some (new position) or None (every failure is one error for the callers) *)
Definition read_to_vec (buf : bytes) (pos n : N) : option N :=
  match checked_add64 pos n with
  | None => None
  | Some e => if len buf <? e then None else Some e
  end.

(* an array zero-filled before a short read *)
Definition pad_to (k : nat) (b : bytes) : bytes := b ++ repeat 0 (k - length b).

(* ---------------------------------------------------------------- String::from_utf8 *)

Definition between (lo b hi : N) : bool := (lo <=? b) && (b <=? hi).
Definition cont (b : N) : bool := between 128 b 191.

Fixpoint valid_utf8 (l : bytes) : bool :=
  match l with
  | [] => true
  | b0 :: t0 =>
    if b0 <? 128 then valid_utf8 t0
    else if between 194 b0 223 then
      match t0 with
      | b1 :: t1 => cont b1 && valid_utf8 t1
      | _ => false
      end
    else if between 224 b0 239 then
      match t0 with
      | b1 :: b2 :: t2 =>
        (if b0 =? 224 then between 160 b1 191 else if b0 =? 237 then between 128 b1 159 else cont b1)
        && cont b2 && valid_utf8 t2
      | _ => false
      end
    else if between 240 b0 244 then
      match t0 with
      | b1 :: b2 :: b3 :: t3 =>
        (if b0 =? 240 then between 144 b1 191 else if b0 =? 244 then between 128 b1 143 else cont b1)
        && cont b2 && cont b3 && valid_utf8 t3
      | _ => false
      end
    else false
  end.

Fixpoint beqb (a b : bytes) : bool :=
  match a, b with
  | [], [] => true
  | x :: a', y :: b' => (x =? y) && beqb a' b'
  | _, _ => false
  end.
