(* Model/Process.v — C38: the process-global state of the SDK and the footprint of each API operation on it.

   The cells are exactly the inventory that vlib/props/c38.py regenerates from the source (Generated/C38_facts.v):
   ten lazily initialised immutable tables/regexes, four write-once HTTP clients, and one mutable cell, the
   thread-local SETTINGS of settings/mod.rs.  Per-object state (a Context's OnceLocks, a Store's
   manifest_box_hash_cache) lives and dies with the object and is not process state.

   A lazily initialised cell is observable only through its forced value, which is a constant of the program (the
   translator checks that no initialiser mentions the mutable cell); so the state carries, for those, only the
   "already initialised" flag.  Executable Gallina only; proofs in Proofs/ProcessProofs.v. *)
From Coq Require Import List String Bool Arith.
Import ListNotations.
Open Scope string_scope.

Definition cell := string.

(* name, file, enclosing fn, kind — must equal Generated.C38_facts.cells *)
Definition modelled_cells : list (string * string * string * string) := [
  ("HANDLER_PROTOTYPES", "jumbf_io.rs", "", "lazy");
  ("CAI_READERS", "jumbf_io.rs", "", "lazy");
  ("CAI_WRITERS", "jumbf_io.rs", "", "lazy");
  ("CONTAINER_MAP", "jumbf_io.rs", "", "lazy");
  ("METADATA_LABEL_REGEX", "assertions/labels.rs", "", "lazy");
  ("VERSION_RE", "assertions/labels.rs", "parse_label", "lazy");
  ("ALLOWED_SCHEMAS", "assertions/metadata.rs", "", "lazy");
  ("BACKCOMPAT_LIST", "assertions/metadata.rs", "", "lazy");
  ("SYNC_CLIENT", "http/reqwest.rs", "", "once");
  ("SYNC_CLIENT_REDIRECTS", "http/reqwest.rs", "", "once");
  ("ASYNC_CLIENT", "http/reqwest.rs", "", "once");
  ("ASYNC_CLIENT_REDIRECTS", "http/reqwest.rs", "", "once");
  ("VALID_DID", "identity/claim_aggregation/w3c_vc/did.rs", "", "lazy");
  ("ABSOLUTE_URL_PREFIX", "identity/identity_assertion/signer_payload.rs", "", "lazy");
  ("SETTINGS", "settings/mod.rs", "", "tls_mut")
].

Definition cell_name (c : string * string * string * string) : string := let '(n, _, _, _) := c in n.
Definition cell_kind (c : string * string * string * string) : string := let '(_, _, _, k) := c in k.

Definition lazy_cells : list cell :=
  map cell_name (filter (fun c => String.eqb (cell_kind c) "lazy" || String.eqb (cell_kind c) "once") modelled_cells).
Definition mutable_cells : list cell :=
  map cell_name (filter (fun c => negb (String.eqb (cell_kind c) "lazy" || String.eqb (cell_kind c) "once")) modelled_cells).

Fixpoint mem (x : string) (l : list string) : bool :=
  match l with [] => false | y :: r => String.eqb x y || mem x r end.

Record pstate := mkP {
  vals   : cell -> nat;       (* contents of the mutable cells *)
  inited : cell -> bool       (* which lazy / write-once cells have been forced already *)
}.

Record op := mkOp {
  o_name   : string;
  o_reads  : list cell;
  o_writes : list cell;
  o_inits  : list cell        (* lazy cells it may force *)
}.

(* ---- footprints, transcribed from the code.
   Every operation that parses or writes an asset goes through jumbf_io's handler tables; label parsing and
   metadata validation force the regex / schema tables; remote manifests, OCSP and time-stamps force the HTTP clients.
   The context API takes its settings from the Context ... except that the BMFF handler (BmffIO::read_cai for update
   manifests, BmffIO::write_cai always) calls Store::from_jumbf, the legacy constructor, which reads
   core.max_decompressed_manifest_size_in_mb from the thread-local SETTINGS (Generated: SETTINGS_callers_2). *)
Definition ctx_footprint (name : string) : op := mkOp name (lazy_cells ++ ["SETTINGS"]) [] lazy_cells.

Definition context_ops : list op := [
  ctx_footprint "Context::with_settings";
  ctx_footprint "Builder::from_context";
  ctx_footprint "Builder::with_definition";
  ctx_footprint "Builder::add_ingredient_from_stream";
  ctx_footprint "Builder::add_ingredient_from_archive";
  ctx_footprint "Builder::to_archive";
  ctx_footprint "Builder::with_archive";
  ctx_footprint "Builder::sign";
  ctx_footprint "Builder::sign_data_hashed_embeddable";
  ctx_footprint "Builder::save_to_stream";
  ctx_footprint "Reader::from_context";
  ctx_footprint "Reader::with_stream";
  ctx_footprint "Reader::with_manifest_data_and_stream";
  ctx_footprint "Reader::json"
].

(* the deprecated thread-local settings entry points: the only writers *)
Definition legacy_writer (name : string) : op := mkOp name ["SETTINGS"] ["SETTINGS"] [].
Definition legacy_writers : list op := [
  legacy_writer "Settings::from_file";
  legacy_writer "Settings::from_string";
  legacy_writer "Settings::from_toml";
  legacy_writer "Settings::reset";
  legacy_writer "Settings::set_thread_local_value"
].

(* the deprecated entry points that take their settings from the thread-local (Generated: SETTINGS_callers_1) *)
Definition legacy_reader (name : string) : op := mkOp name (lazy_cells ++ ["SETTINGS"]) [] lazy_cells.
Definition legacy_readers : list op := [
  legacy_reader "Builder::from_json";
  legacy_reader "Builder::new";
  legacy_reader "Ingredient::from_manifest_and_asset_stream_async";
  legacy_reader "Ingredient::from_stream";
  legacy_reader "Ingredient::from_stream_async";
  legacy_reader "Reader::from_file";
  legacy_reader "Reader::from_fragmented_files";
  legacy_reader "Reader::from_manifest_data_and_stream";
  legacy_reader "Reader::from_stream";
  legacy_reader "Settings::to_pretty_toml";
  legacy_reader "Settings::to_toml";
  legacy_reader "SignerSettings::signer";
  legacy_reader "Store::from_jumbf"
].

Definition all_ops : list op := context_ops ++ legacy_writers ++ legacy_readers.

(* functions one call further away from the thread-local than the legacy readers: the hand-made link from the
   dynamically dispatched BMFF handler, the async twins, and Settings::signer *)
Definition modelled_callers_2 : list string :=
  ["BmffIO::read_cai"; "BmffIO::write_cai"; "Ingredient::from_manifest_and_asset_bytes_async";
   "Ingredient::from_memory_async"; "Settings::signer"].

Definition disjointb (a b : list string) : bool := forallb (fun x => negb (mem x b)) a.

Section Sem.
  Variable init_val : cell -> nat.                            (* forced value of a lazy cell: a program constant *)
  Variable eff : string -> nat -> list nat -> cell -> nat.    (* what a writer stores: any function of its argument and of what it read *)
  Variable obs : string -> nat -> list nat -> nat.            (* what an operation returns: any function of argument and reads *)

  Definition lookup (st : pstate) (c : cell) : nat :=
    if mem c lazy_cells then init_val c else vals st c.

  Definition apply (o : op) (arg : nat) (st : pstate) : pstate :=
    let seen := map (lookup st) (o_reads o) in
    mkP (fun c => if mem c (o_writes o) then eff (o_name o) arg seen c else vals st c)
        (fun c => if mem c (o_inits o) then true else inited st c).

  Definition observe (o : op) (arg : nat) (st : pstate) : nat := obs (o_name o) arg (map (lookup st) (o_reads o)).

  Fixpoint run (h : list (op * nat)) (st : pstate) : pstate :=
    match h with
    | [] => st
    | (o, a) :: r => run r (apply o a st)
    end.
End Sem.

Definition string_list_eqb (a b : list string) : bool :=
  (fix go (a b : list string) : bool :=
     match a, b with
     | [], [] => true
     | x :: a', y :: b' => String.eqb x y && go a' b'
     | _, _ => false
     end) a b.

Definition cell4_eqb (a b : string * string * string * string) : bool :=
  let '(a1, a2, a3, a4) := a in let '(b1, b2, b3, b4) := b in
  String.eqb a1 b1 && String.eqb a2 b2 && String.eqb a3 b3 && String.eqb a4 b4.

Fixpoint cells_eqb (a b : list (string * string * string * string)) : bool :=
  match a, b with
  | [], [] => true
  | x :: a', y :: b' => cell4_eqb x y && cells_eqb a' b'
  | _, _ => false
  end.
