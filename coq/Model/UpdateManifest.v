(* Model/UpdateManifest.v — executable transcription of the update-manifest rules:
     sdk/src/claim.rs :: Claim::verify_internal   (parent count, update-manifest branch)
     sdk/src/claim.rs :: Claim::verify_hash_binding (the three hard-binding count tests and the
                                                    exclusion re-basing done when an update manifest is active)
     sdk/src/store.rs :: Store::get_hash_binding_manifest(_impl)
     sdk/src/store.rs :: Store::verify_store / get_store_validation_info (which claim gets verify_hash_binding)
   No proofs here.  A claim is reduced to what those functions look at. *)
From Coq Require Import List NArith Bool String.
From C2PA Require Import Base.Bytes Model.RangeHash Generated.C21_facts.
Import ListNotations.
Open Scope N_scope.

Inductive rel := ParentOf | ComponentOf | InputTo.

(* an ingredient assertion: relationship and the manifest label its c2pa_manifest / activeManifest points at *)
Record ingredient := Ing { irel : rel; itarget : option N }.

Record claim := Claim {
  c_label   : N;
  c_update  : bool;                  (* Claim::update_manifest(): the manifest box is a c2um box *)
  c_ings    : list ingredient;       (* Claim::ingredient_assertions(), in order *)
  c_hashes  : nat;                   (* Claim::hash_assertions().len(): data / boxes / bmff / collection *)
  c_actions : list (list string);    (* Claim::action_assertions(): the action names of each *)
  c_thumbs  : nat                    (* claim assertions whose label contains "c2pa.thumbnail.claim" *)
}.

(* validation status codes produced by the modelled branches *)
Inductive ucode :=
| UpdateInvalid          (* manifest.update.invalid *)
| UpdateWrongParents     (* manifest.update.wrongParents *)
| MultipleParents        (* manifest.multipleParents *)
| HardBindingsMissing    (* claim.hardBindings.missing *)
| HardBindingsMultiple.  (* assertion.multipleHardBindings *)

Definition is_parent (i : ingredient) : bool := match irel i with ParentOf => true | _ => false end.

Definition parent_count (c : claim) : nat := List.length (filter is_parent (c_ings c)).

Definition allowed_action (a : string) : bool := existsb (String.eqb a) ALLOWED_UPDATE_MANIFEST_ACTIONS.

(* one failure per disallowed action, in order *)
Definition action_failures (c : claim) : list ucode :=
  flat_map (fun aa => flat_map (fun a => if allowed_action a then [] else [UpdateInvalid]) aa) (c_actions c).

(* verify_internal: "check update manifest rules" and its else branch *)
Definition update_rule_failures (c : claim) : list ucode :=
  if c_update c then
    (if negb (Nat.eqb (c_hashes c) 0) then [UpdateInvalid] else [])   (* hard binding inside an update manifest (fix 37f0723a3) *)
    ++ action_failures c
    ++ (if Nat.ltb UPDATE_THUMBNAIL_LIMIT (c_thumbs c) then [UpdateInvalid] else [])   (* count() > 1 *)
    ++ (match parent_count c with
        | O => [UpdateWrongParents]
        | S O => []
        | _ => [UpdateInvalid]
        end)
  else
    if Nat.ltb 1 (parent_count c) then [MultipleParents] else [].

(* verify_hash_binding, the three tests at its head; only run for the claim whose label is svi.binding_claim *)
Definition binding_rule_failures (c : claim) : list ucode :=
  (if Nat.eqb (c_hashes c) 0 && negb (c_update c) then [HardBindingsMissing] else [])
  ++ (if negb (Nat.eqb (c_hashes c) 1) && negb (c_update c) then [HardBindingsMultiple] else [])
  ++ (if negb (Nat.eqb (c_hashes c) 0) && c_update c then [UpdateInvalid] else []).

(* the store: claims_map *)
Definition store := list claim.

Fixpoint get_claim (st : store) (l : N) : option claim :=
  match st with
  | [] => None
  | c :: t => if c_label c =? l then Some c else get_claim t l
  end.

Definition memN (x : N) (l : list N) : bool := existsb (N.eqb x) l.

(* the `for i in claim.ingredient_assertions()` loop of get_hash_binding_manifest_impl; [rec] is the recursive call *)
Fixpoint walk (rec : claim -> option N) (st : store) (l : list ingredient) : option N :=
  match l with
  | [] => None
  | i :: t =>
      match irel i, itarget i with
      | ParentOf, Some pl =>
          match get_claim st pl with
          | Some p =>
              if c_update p then rec p                                   (* `return` of the recursion, found or not *)
              else if negb (Nat.eqb (c_hashes p) 0) then Some (c_label p)
              else walk rec st t
          | None => walk rec st t
          end
      | _, _ => walk rec st t
      end
  end.

(* get_hash_binding_manifest_impl; [fuel] bounds the recursion (the visited set does in the source) *)
Fixpoint binding (fuel : nat) (st : store) (visited : list N) (c : claim) {struct fuel} : option N :=
  match fuel with
  | O => None
  | S f =>
      if memN (c_label c) visited then None                       (* cyclic chain *)
      else if negb (c_update c) && negb (Nat.eqb (c_hashes c) 0) then Some (c_label c)
      else walk (binding f st (c_label c :: visited)) st (c_ings c)
  end.

Definition binding_manifest (st : store) (c : claim) : option N := binding (S (List.length st)) st [] c.

(* what verify_store reports for the active claim [c], restricted to the modelled codes:
   get_store_validation_info fails with claim.hardBindings.missing when there is no binding manifest (nothing else is
   verified then); otherwise verify_internal on the active claim, then verify_hash_binding on the binding claim *)
Definition verify_active (st : store) (c : claim) : list ucode :=
  match binding_manifest st c with
  | None => [HardBindingsMissing]
  | Some l =>
      update_rule_failures c
      ++ match get_claim st l with
         | Some b => binding_rule_failures b
         | None => []
         end
  end.

Definition is_update_code (u : ucode) : bool :=
  match u with UpdateInvalid | UpdateWrongParents => true | _ => false end.

(* ---- verify_hash_binding: data-hash exclusions re-based onto the grown manifest store
   (only when svi.update_manifest_label is set, i.e. the active manifest is an update manifest) *)

Fixpoint position (rs : N) (ex : list hrange) : option nat :=
  match ex with
  | [] => None
  | r :: t => if hstart r =? rs then Some O else option_map S (position rs t)
  end.

Fixpoint set_nth (n : nat) (x : hrange) (l : list hrange) : list hrange :=
  match l, n with
  | [], _ => []
  | _ :: t, O => x :: t
  | h :: t, S n' => h :: set_nth n' x t
  end.

(* [range] = (offset, length) of the first C2PA object found in the asset *)
Definition rebase (ex : list hrange) (range : option (N * N)) : list hrange :=
  match range with
  | None => ex
  | Some (rs, rl) =>
      match position rs ex with
      | None => ex                                   (* start_offset stays 0: nothing is moved *)
      | Some pos =>
          let old := nth pos ex (HR 0 0 None) in
          let adjust := rl - hlen old in            (* saturating_sub *)
          let ex1 := set_nth pos (HR rs rl None) ex in
          if 0 <? rs then
            map (fun r => if rs <? hstart r then HR (hstart r + adjust) (hlen r) (hmark r) else r) ex1
          else ex1
      end
  end.

(* exclusions the data hash is verified with *)
Definition effective_exclusions (active_is_update : bool) (ex : list hrange) (range : option (N * N)) : list hrange :=
  if active_is_update then rebase ex range else ex.
