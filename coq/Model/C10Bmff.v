(* Model/C10Bmff.v — machine-integer model of the BMFF box-header reader and tree builder of
   sdk/src/asset_handlers/bmff_io.rs: BoxHeaderLite::read (size 0 = to the end of the stream, size 1 =
   64-bit largesize), read_ftyp_box, build_bmff_tree (the `while current < end` loop, the uuid / container /
   default arms, the nested `while current < end` loop of the container arm, the recursion counter) and
   BMFFArena::from_stream, over a Cursor.  The arena is represented by the list of (offset, size) of the
   nodes in insertion (= pre-) order; its length is the allocation counter.  Executable Gallina, no proofs. *)
From Coq Require Import List NArith Bool.
From C2PA Require Import Base.Bytes Generated.C10_facts Model.C10Mach.
Import ListNotations.
Open Scope N_scope.

Inductive berr :=
| BIoError                (* `?` on a read inside a box *)
| BBadBmff                (* InvalidAsset("Bad BMFF ..."): the first header cannot be read *)
| BFtypSize               (* InvalidAsset("ftyp size too small or not aligned") *)
| BTooDeep                (* InvalidAsset("Boxes are too deply nested, unsupported asset") *)
| BSizeOverflow           (* InvalidAsset("BMFF box size overflow") *)
| BBeyondBounds.          (* InvalidAsset("Box size extends beyond asset bounds") *)

Notation "'do' x <- e ; f" :=
  (match e with Ok x => f | Err e' => Err e' | Panic s a b => Panic s a b | OutOfFuel => OutOfFuel end)
  (at level 200, x pattern, e at level 100, f at level 200).

Definition SITE_B_TO_END : N := 20.     (* end_of_stream - box_start *)
Definition SITE_B_FTYP_SKIP : N := 21.  (* start + size in read_ftyp_box *)
Definition SITE_B_RL : N := 22.         (* *recursion_level += 1 *)
Definition SITE_B_MDAT : N := 23.       (* s = end - current *)
Definition SITE_B_START : N := 24.      (* box_start: stream_position - HEADER_SIZE(_LARGE) *)
Definition SITE_B_SKIP : N := 25.       (* start + s *)
Definition SITE_B_FTYP_CNT : N := 26.   (* size - 16 *)

Definition mem (x : N) (l : list N) : bool := existsb (N.eqb x) l.

Section Builder.
  Variable dbg : bool.

  (* BoxHeaderLite::read: (type, size, large_size, position after); Err BIoError = any read failure *)
  Definition bh_read (buf : bytes) (pos : N) : out berr (N * N * bool * N) :=
    match cread_exact buf pos 8 with
    | None => Err BIoError
    | Some (b, p1) =>
      let size := de (firstn 4 b) in
      let typ := de (skipn 4 b) in
      if size =? 1 then
        match cread_exact buf p1 8 with
        | None => Err BIoError
        | Some (l, p2) => Ok (typ, de l, true, p2)
        end
      else if size =? 0 then
        do actual <- sub64 dbg SITE_B_TO_END (len buf) pos;
        Ok (typ, actual, false, p1)
      else Ok (typ, size, false, p1)
    end.

  (* the `for _ in 0..brand_count` loop of read_ftyp_box: brand_count comes from the file, every iteration
     reads four bytes; one unit of fuel per iteration *)
  Fixpoint ftyp_brands (fuel : nat) (buf : bytes) (pos cnt : N) : out berr N :=
    match fuel with
    | O => OutOfFuel
    | S f =>
      if cnt =? 0 then Ok pos
      else match cread_exact buf pos 4 with
           | None => Err BIoError
           | Some (_, p) => ftyp_brands f buf p (cnt - 1)
           end
    end.

  (* read_ftyp_box at position 0: the number of compatible brands pushed (0 when there is no ftyp) *)
  Definition read_ftyp (fuel : nat) (buf : bytes) : out berr N :=
    match bh_read buf 0 with
    | Err _ => Err BBadBmff
    | Panic s x y => Panic s x y
    | OutOfFuel => OutOfFuel
    | Ok (typ, size, _, p1) =>
      if negb (typ =? B_FTYP) then Ok 0
      else if (size <? 16) || negb (size mod 4 =? 0) then Err BFtypSize
      else
        do c16 <- sub64 dbg SITE_B_FTYP_CNT size 16;
        let cnt := c16 / 4 in
        match cread_exact buf p1 4 with
        | None => Err BIoError
        | Some (_, p2) =>
          match cread_exact buf p2 4 with
          | None => Err BIoError
          | Some (_, p3) =>
            do p4 <- ftyp_brands fuel buf p3 cnt;
            do tgt <- add64 dbg SITE_B_FTYP_SKIP 0 size;
            Ok cnt
          end
        end
    end.

  (* read_box_header_ext: one byte of version, three of flags *)
  Definition read_ext (buf : bytes) (pos : N) : out berr N :=
    match cread_exact buf pos 4 with
    | None => Err BIoError
    | Some (_, p) => Ok p
    end.

  (* meta_box_lacks_fullbox_header: peek eight bytes, position restored *)
  Definition meta_lacks (buf : bytes) (pos : N) : bool :=
    match cread_exact buf pos 8 with
    | None => false
    | Some (b, _) => de (skipn 4 b) =? B_HDLR
    end.

  (* state threaded through the builder: (reader position, nodes in reverse insertion order, deepest level) *)
  Definition bres := (N * list (N * N) * N)%type.

  (* one iteration of the `while current < end` loop of build_bmff_tree at level [rl]; [loop] continues the
     same loop at a new position, [cont] runs the nested loop of the container arm up to a new limit *)
  Definition bt_loop_body (loop : N -> list (N * N) -> N -> out berr bres)
                          (cont : N -> N -> list (N * N) -> N -> out berr bres)
                          (buf : bytes) (pos end_ : N) (acc : list (N * N)) (deep : N) : out berr bres :=
    if negb (pos <? end_) then Ok (pos, acc, deep)               (* loop exit; *recursion_level -= 1 *)
    else
      match bh_read buf pos with
      | Err _ => Ok (end_, acc, deep)       (* UnexpectedEof (the only read failure of a Cursor): skip_bytes_to(end);
                                               break.  Since a0a6903a3 any other I/O error is returned instead *)
      | Panic s x y => Panic s x y
      | OutOfFuel => OutOfFuel
      | Ok (typ, size, large, p1) =>
        if size =? 0 then Ok (p1, acc, deep)                     (* break, the reader stays after the header *)
        else
          match checked_add64 pos size with
          | None => Err BSizeOverflow
          | Some box_end =>
            do s <- (if end_ <? box_end
                     then if typ =? B_MDAT then sub64 dbg SITE_B_MDAT end_ pos else Err BBeyondBounds
                     else Ok size);
            do start <- sub64 dbg SITE_B_START p1 (if large then B_HEADER_SIZE_LARGE else B_HEADER_SIZE);
            if typ =? B_UUID then
              match cread_exact buf p1 16 with
              | None => Err BIoError
              | Some (ext, p2) =>
                do p3 <- (if beqb ext C2PA_UUID then read_ext buf p2 else Ok p2);
                do tgt <- add64 dbg SITE_B_SKIP start s;
                loop tgt ((start, s) :: acc) deep
              end
            else if mem typ B_CONTAINERS then
              do p2 <- (if mem typ B_FULL_BOX_TYPES
                        then if (typ =? B_META) && meta_lacks buf p1 then Ok p1 else read_ext buf p1
                        else Ok p1);
              do end' <- add64 dbg SITE_B_SKIP start s;
              do r <- cont p2 end' ((start, s) :: acc) deep;
              let '(_, acc', deep') := r in
              loop end' acc' deep'                                 (* skip_bytes_to(start + s) *)
            else
              do p2 <- (if mem typ B_FULL_BOX_TYPES then read_ext buf p1 else Ok p1);
              do tgt <- add64 dbg SITE_B_SKIP start s;
              loop tgt ((start, s) :: acc) deep
          end
      end.

  (* build_bmff_tree.  [rl] is *recursion_level on entry.  Fuel bounds the height of the call tree: one unit
     per call ([bt_call]), per iteration of the box loop ([bt_loop]) and per iteration of the nested
     `while current < end` loop of the container arm ([bt_cont]). *)
  Fixpoint bt_call (fuel : nat) (rl : N) (buf : bytes) (pos end_ : N) (acc : list (N * N)) (deep : N)
           {struct fuel} : out berr bres :=
    match fuel with
    | O => OutOfFuel
    | S f =>
      do rl1 <- add64 dbg SITE_B_RL rl 1;
      if MAX_BOX_DEPTH <? rl1 then Err BTooDeep
      else bt_loop f rl1 buf pos end_ acc (N.max deep rl1)
    end
  with bt_loop (fuel : nat) (rl : N) (buf : bytes) (pos end_ : N) (acc : list (N * N)) (deep : N)
       {struct fuel} : out berr bres :=
    match fuel with
    | O => OutOfFuel
    | S f =>
      bt_loop_body (fun p a d => bt_loop f rl buf p end_ a d) (fun p e' a d => bt_cont f rl buf p e' a d)
                   buf pos end_ acc deep
    end
  with bt_cont (fuel : nat) (rl : N) (buf : bytes) (pos end' : N) (acc : list (N * N)) (deep : N)
       {struct fuel} : out berr bres :=
    match fuel with
    | O => OutOfFuel
    | S f =>
      if negb (pos <? end') then Ok (pos, acc, deep)
      else
        do r <- bt_call f rl buf pos end' acc deep;
        let '(p, acc', deep') := r in
        bt_cont f rl buf p end' acc' deep'
    end.

  (* BMFFArena::from_stream: (nodes in insertion order, deepest recursion level, compatible brands) *)
  Definition bmff_from_stream (fuel : nat) (buf : bytes) : out berr (list (N * N) * N * N) :=
    do brands <- read_ftyp fuel buf;
    do r <- bt_call fuel 0 buf 0 (len buf) [] 0;
    let '(_, acc, deep) := r in Ok (rev acc, deep, brands).
End Builder.

(* fuel that is always enough (Proofs/C10BmffProofs.v): two units per byte *)
Definition bfuel (buf : bytes) : nat := 2 * length buf + 4.

Definition bmff_read (dbg : bool) (buf : bytes) : out berr (list (N * N) * N * N) :=
  bmff_from_stream dbg (bfuel buf) buf.
