(* Model/XmpAttr.v — remote-manifest references in XMP (sdk/src/utils/xmp_inmemory_utils.rs: add_xmp_key,
   extract_xmp_key, add_provenance, extract_provenance, write_xmp_padding) and the two quick-xml 0.41 functions
   they rely on for attribute values (escape::escape via BytesStart::push_attribute, escape::unescape).

   The XML tokenizer is external: a document arrives already split into
     pre  — the bytes before the first <rdf:Description ...> start/empty tag,
     desc — that tag's attributes (key, raw value between the quotes) and whether it is an empty-element tag,
     post — the bytes after it,
   after the trailing <?xpacket end..?> (if any) and the whitespace before it were cut off, as add_xmp_key does
   before it tokenizes.  Everything the Rust code itself decides (which attribute is replaced, what is written,
   escaping, padding, what extraction returns) is transcribed here. *)
From Coq Require Import List NArith Bool Arith Ascii String.
From C2PA Require Import Base.Bytes.
Import ListNotations.
Open Scope N_scope.

Definition str (s : string) : bytes := map N_of_ascii (list_ascii_of_string s).

Fixpoint beqb (a b : bytes) : bool :=
  match a, b with
  | [], [] => true
  | x :: a', y :: b' => N.eqb x y && beqb a' b'
  | _, _ => false
  end.

Definition RDF_DESCRIPTION : bytes := str "rdf:Description".
Definition XMP_END : bytes := str "<?xpacket end=""w""?>".
Definition XMLNS_DCTERMS : bytes := str "xmlns:dcterms".
Definition DCTERMS_URI : bytes := str "http://purl.org/dc/terms/".
Definition PROVENANCE : bytes := str "dcterms:provenance".

(* ---- quick_xml::escape::escape: the five characters < > & apostrophe and double quote are replaced, everything else is copied *)
Definition esc_char (c : N) : bytes :=
  if c =? 60 then str "&lt;"
  else if c =? 62 then str "&gt;"
  else if c =? 39 then str "&apos;"
  else if c =? 38 then str "&amp;"
  else if c =? 34 then str "&quot;"
  else [c].
Definition escape (s : bytes) : bytes := flat_map esc_char s.

Definition special (c : N) : bool := (c =? 60) || (c =? 62) || (c =? 39) || (c =? 38) || (c =? 34).
Definition no_special (s : bytes) : Prop := forallb (fun c => negb (special c)) s = true.

(* ---- quick_xml::escape::unescape = unescape_with(raw, resolve_predefined_entity) *)
Definition resolve_named (pat : bytes) : option bytes :=
  if beqb pat (str "lt") then Some [60]
  else if beqb pat (str "gt") then Some [62]
  else if beqb pat (str "amp") then Some [38]
  else if beqb pat (str "apos") then Some [39]
  else if beqb pat (str "quot") then Some [34]
  else None.

Section Unescape.
  (* parse_number + char::encode_utf8 on the text after the ampersand-hash (decimal or x-hex character reference) *)
  Variable charref : bytes -> option bytes.

  Definition resolve (pat : bytes) : option bytes :=
    match pat with
    | 35 :: num => charref num
    | _ => resolve_named pat
    end.

  (* the scan over the positions of '&' and ';': text outside entities is copied (a stray ';' included);
     after '&' the next of {'&',';'} must be ';' (else UnterminatedEntity), the text between is resolved
     (else UnrecognizedEntity / InvalidCharRef).  [pend] = Some acc while inside an entity (acc reversed). *)
  Fixpoint unesc (s : bytes) (pend : option bytes) : option bytes :=
    match s with
    | [] => match pend with None => Some [] | Some _ => None end
    | c :: r =>
        match pend with
        | None => if c =? 38 then unesc r (Some []) else option_map (cons c) (unesc r None)
        | Some acc =>
            if c =? 59 then
              match resolve (rev acc) with
              | Some v => option_map (app v) (unesc r None)
              | None => None
              end
            else if c =? 38 then None
            else unesc r (Some (c :: acc))
        end
    end.
  Definition unescape (s : bytes) : option bytes := unesc s None.

  (* what extract_xmp_key returns for the raw attribute bytes.
     unescapes = false: the code as it stands (String::from_utf8(attribute.value)).
     unescapes = true : the proposed repair (unescape(&s).ok().unwrap_or(s)). *)
  Definition decode (unescapes : bool) (raw : bytes) : bytes :=
    if unescapes then match unescape raw with Some u => u | None => raw end else raw.
End Unescape.

(* ---- the rdf:Description attributes *)
Definition attr := (bytes * bytes)%type.

Fixpoint find_attr (k : bytes) (attrs : list attr) : option bytes :=
  match attrs with
  | [] => None
  | (k', raw) :: r => if beqb k' k then Some raw else find_attr k r
  end.

(* for attr in e.attributes() { if attr.key == key { elem.push_attribute((key, value)); added = true }
                               else { elem.extend_attributes([attr]) } } *)
Fixpoint add_loop (k v : bytes) (attrs : list attr) : list attr * bool :=
  match attrs with
  | [] => ([], false)
  | (k', raw) :: r =>
      let (r', added) := add_loop k v r in
      if beqb k' k then ((k, escape v) :: r', true) else ((k', raw) :: r', added)
  end.
(* if !added { elem.push_attribute((key, value)) } *)
Definition add_attrs (k v : bytes) (attrs : list attr) : list attr :=
  let (a, added) := add_loop k v attrs in if added then a else a ++ [(k, escape v)].

(* Attributes iterator with duplicate checks: a repeated key is an Err item -> XmpReadError *)
Fixpoint has_dup (ks : list bytes) : bool :=
  match ks with
  | [] => false
  | k :: r => existsb (beqb k) r || has_dup r
  end.

(* BytesStart::push_attr: space key = dquote value dquote — always double quotes, value bytes as they are *)
Definition write_attr (a : attr) : bytes := 32 :: fst a ++ 61 :: 34 :: snd a ++ [34].
Definition write_elem (attrs : list attr) (empty : bool) : bytes :=
  60 :: RDF_DESCRIPTION ++ flat_map write_attr attrs ++ (if empty then [47; 62] else [62]).

(* the tokenizer's rule for a quoted attribute value: it ends at the first occurrence of the opening quote *)
Fixpoint until (q : N) (s : bytes) : option (bytes * bytes) :=
  match s with
  | [] => None
  | c :: r => if c =? q then Some ([], r) else match until q r with Some (a, b) => Some (c :: a, b) | None => None end
  end.
Definition read_quoted (s : bytes) : option (bytes * bytes) :=
  match s with
  | q :: r => if (q =? 34) || (q =? 39) then until q r else None
  | [] => None
  end.

(* ---- write_xmp_padding(writer, len) *)
Fixpoint pad_loop (fuel : nat) (remaining : N) : bytes :=
  match fuel with
  | O => []
  | S f =>
      if remaining =? 0 then []
      else
        let chunk := N.min remaining 99 in
        let rem1 := remaining - chunk in
        repeat 32 (N.to_nat chunk) ++ (if 0 <? rem1 then 10 :: pad_loop f (rem1 - 1) else [])
  end.
Definition padding (len : N) : bytes :=
  let remaining := len - 1 in       (* saturating_sub *)
  10 :: (if 0 <? remaining then pad_loop (N.to_nat remaining) (remaining - 1) ++ [10] else []) ++ XMP_END.

(* ---- documents *)
Record xdoc := {
  pre : bytes;
  desc : option (list attr * bool);
  post : bytes;                 (* [] when desc = None *)
  trailer : bool;               (* xmp.rfind of the xpacket-end marker found something *)
  orig_len : N                  (* xmp.len() *)
}.

Definition is_ws (c : N) : bool := (c =? 32) || ((9 <=? c) && (c <=? 13)).
Definition rtrim (s : bytes) : bytes :=
  rev ((fix drop (l : bytes) := match l with [] => [] | c :: r => if is_ws c then drop r else l end) (rev s)).

Inductive xres := XOk (out : bytes) (d' : xdoc) | XErr | XPanic.

Definition body (pre' : bytes) (desc' : option (list attr * bool)) (post' : bytes) : bytes :=
  pre' ++ match desc' with Some (a, e) => write_elem a e | None => [] end ++ post'.

(* fn add_xmp_key(xmp, key, value) -> Result<String>; besides the output bytes the model returns how the output
   splits again (the next call re-finds the trailer it wrote and trims the padding before it) *)
Definition add_xmp_key (d : xdoc) (k v : bytes) : xres :=
  if trailer d && (orig_len d <? 19) then XPanic      (* orig_length - xpacket_end_length, overflow checks on *)
  else
    let target := if trailer d then orig_len d - 19 else N.max (orig_len d) 4096 in
    match desc d with
    | Some (attrs, e) =>
        if has_dup (map fst attrs) then XErr
        else
          let desc' := Some (add_attrs k v attrs, e) in
          let b := body (pre d) desc' (post d) in
          let out := b ++ padding (target - len b) in
          XOk out {| pre := pre d; desc := desc'; post := rtrim (post d); trailer := true; orig_len := len out |}
    | None =>
        let b := body (pre d) None (post d) in
        let out := b ++ padding (target - len b) in
        XOk out {| pre := rtrim (pre d); desc := None; post := []; trailer := true; orig_len := len out |}
    end.

(* fn add_provenance(xmp, provenance) *)
Definition add_provenance (d : xdoc) (v : bytes) : xres :=
  match add_xmp_key d XMLNS_DCTERMS DCTERMS_URI with
  | XOk _ d1 => add_xmp_key d1 PROVENANCE v
  | r => r
  end.

Section Extract.
  Variable charref : bytes -> option bytes.
  (* the tokenizer run over a document segment: the first hit there (an element named key -> its text, or a
     later rdf:Description carrying the key) *)
  Variable scan : bytes -> bytes -> option bytes.

  (* fn extract_xmp_key(xmp, key) -> Option<String> *)
  Definition extract_xmp_key (unescapes : bool) (d : xdoc) (k : bytes) : option bytes :=
    match scan k (pre d) with
    | Some t => Some t
    | None =>
        match desc d with
        | Some (attrs, _) =>
            match find_attr k attrs with
            | Some raw => Some (decode charref unescapes raw)
            | None => scan k (post d)
            end
        | None => None
        end
    end.

  Definition extract_provenance (unescapes : bool) (d : xdoc) : option bytes := extract_xmp_key unescapes d PROVENANCE.
End Extract.

(* evaluation entry point for the correspondence run: output bytes, attributes after, extraction result *)
Definition run_add (unescapes : bool) (hit : option bytes) (d : xdoc) (k : option bytes) (v : bytes) :=
  let sc := fun (_ s : bytes) => if beqb s (pre d) then hit else None in
  let key := match k with Some k => k | None => PROVENANCE end in
  match (match k with Some k => add_xmp_key d k v | None => add_provenance d v end) with
  | XOk out d' => (1, out, match desc d' with Some (a, _) => a | None => [] end,
                   extract_xmp_key (fun _ => None) sc unescapes d' key)
  | XErr => (0, [], [], None)
  | XPanic => (2, [], [], None)
  end.
