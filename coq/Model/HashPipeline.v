(* Model/HashPipeline.v — the read-ahead pipeline of hash_stream_by_alg_with_progress_impl for one
   range as a two-actor small-step system.  The main thread reads the next chunk while a worker
   thread owns the hasher and absorbs the current chunk; the hasher comes back through the channel.
   h : chunks absorbed so far (the hasher state), in order. *)
From Coq Require Import List.
From C2PA Require Import Base.Bytes.
Import ListNotations.

Inductive worker :=
| WBusy (h : list bytes) (c : bytes)      (* spawned: owns hasher h and chunk c, update not yet done *)
| WSent (h : list bytes).                 (* update done, hasher sent on the channel *)

Inductive mainst :=
| MReading (n : bytes) (p : list bytes)   (* about to read_exact the next chunk n; p still unread *)
| MWaiting (n : bytes) (p : list bytes).  (* next chunk n read; blocked in rx.recv() *)

Inductive pstate :=
| PLoop (h : list bytes) (c : bytes) (p : list bytes)   (* main owns the hasher and holds chunk c *)
| PPar (w : worker) (m : mainst)
| PDone (h : list bytes).

Inductive pstep : pstate -> pstate -> Prop :=
| S_final h c : pstep (PLoop h c []) (PDone (h ++ [c]))                     (* chunk_left == 0: hash inline *)
| S_spawn h c n p : pstep (PLoop h c (n :: p)) (PPar (WBusy h c) (MReading n p))
| S_update h c m : pstep (PPar (WBusy h c) m) (PPar (WSent (h ++ [c])) m)    (* worker: update; tx.send *)
| S_read w n p : pstep (PPar w (MReading n p)) (PPar w (MWaiting n p))       (* main: read next chunk *)
| S_recv h n p : pstep (PPar (WSent h) (MWaiting n p)) (PLoop h n p).        (* main: rx.recv() *)

Inductive psteps : pstate -> pstate -> Prop :=
| PS_refl s : psteps s s
| PS_step s1 s2 s3 : pstep s1 s2 -> psteps s2 s3 -> psteps s1 s3.

(* all chunks in the system, in stream order *)
Definition pview (s : pstate) : list bytes :=
  match s with
  | PLoop h c p => h ++ c :: p
  | PPar (WBusy h c) (MReading n p) => h ++ c :: n :: p
  | PPar (WBusy h c) (MWaiting n p) => h ++ c :: n :: p
  | PPar (WSent h) (MReading n p) => h ++ n :: p
  | PPar (WSent h) (MWaiting n p) => h ++ n :: p
  | PDone h => h
  end.
