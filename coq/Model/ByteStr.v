(* Model/ByteStr.v — the [str] operations used by the label/URI helpers and by the validation-state
   decision, on byte strings (UTF-8 encoded [&str]; every separator used is ASCII, so splitting the
   bytes equals splitting the characters).  Executable definitions only. *)
From Coq Require Import List NArith Bool Ascii String.
From C2PA Require Import Base.Bytes.
Import ListNotations.
Open Scope N_scope.

(* a Coq string literal as a byte string (used for the constants of the sources) *)
Fixpoint b (s : string) : bytes :=
  match s with
  | EmptyString => []
  | String a t => N_of_ascii a :: b t
  end.

(* [a == b] on &str *)
Fixpoint beq (x y : bytes) : bool :=
  match x, y with
  | [], [] => true
  | a :: x', c :: y' => (a =? c) && beq x' y'
  | _, _ => false
  end.

(* [s.starts_with(p)] *)
Fixpoint starts_with (p s : bytes) : bool :=
  match p, s with
  | [], _ => true
  | a :: p', c :: s' => (a =? c) && starts_with p' s'
  | _ :: _, [] => false
  end.

(* [s.contains(p)] *)
Fixpoint contains_str (p s : bytes) : bool :=
  starts_with p s || match s with [] => false | _ :: t => contains_str p t end.

Definition mem (c : N) (s : bytes) : bool := existsb (N.eqb c) s.

(* [s.split(c).collect::<Vec<_>>()] for a one-character separator: always at least one part *)
Fixpoint split_acc (c : N) (s cur : bytes) : list bytes :=
  match s with
  | [] => [rev cur]
  | x :: t => if x =? c then rev cur :: split_acc c t [] else split_acc c t (x :: cur)
  end.
Definition split (c : N) (s : bytes) : list bytes := split_acc c s [].

(* [s.split("cc")] for the two-character separator [c c] (leftmost, non-overlapping matches) *)
Fixpoint split2_acc (c : N) (s cur : bytes) : list bytes :=
  match s with
  | [] => [rev cur]
  | x :: t =>
      match t with
      | y :: t' => if (x =? c) && (y =? c) then rev cur :: split2_acc c t' []
                   else split2_acc c t (x :: cur)
      | [] => [rev (x :: cur)]
      end
  end.
Definition split2 (c : N) (s : bytes) : list bytes := split2_acc c s [].

(* [parts.join(sep)] *)
Fixpoint join (sep : bytes) (l : list bytes) : bytes :=
  match l with
  | [] => []
  | [x] => x
  | x :: t => x ++ sep ++ join sep t
  end.

(* [v[i]] where the caller has checked the length; [v.get(i)] *)
Definition idx (l : list bytes) (i : nat) : bytes := nth i l [].
Definition get (l : list bytes) (i : nat) : option bytes := nth_error l i.

(* --- decimal numbers: Display for usize and str::parse::<usize>() (64-bit) --- *)
Definition USIZE : N := 18446744073709551616.

Fixpoint digits_rev (fuel : nat) (n : N) : list N :=
  match fuel with
  | O => []
  | S f => (n mod 10) :: (if n <? 10 then [] else digits_rev f (n / 10))
  end.
(* 20 digits suffice below 2^64 *)
Definition show_usize (n : N) : bytes := map (fun d => 48 + d) (rev (digits_rev 20 n)).

Definition is_digit (c : N) : bool := (48 <=? c) && (c <=? 57).

(* from_str_radix: digit by digit with checked_mul / checked_add *)
Fixpoint parse_digits (acc : N) (s : bytes) : option N :=
  match s with
  | [] => Some acc
  | c :: t =>
      if is_digit c then
        let acc' := acc * 10 + (c - 48) in
        if USIZE <=? acc' then None else parse_digits acc' t
      else None
  end.

(* unsigned: an optional leading '+', then at least one digit *)
Definition parse_usize (s : bytes) : option N :=
  match s with
  | [] => None
  | c :: t =>
      if c =? 43 then match t with [] => None | _ => parse_digits 0 t end
      else parse_digits 0 s
  end.

(* char::is_whitespace restricted to ASCII (the callers require is_ascii as well) *)
Definition is_ws (c : N) : bool := ((9 <=? c) && (c <=? 13)) || (c =? 32).

(* [s.split_whitespace().count()] *)
Fixpoint ws_tokens (s : bytes) (in_tok : bool) : nat :=
  match s with
  | [] => O
  | c :: t => if is_ws c then ws_tokens t false
              else if in_tok then ws_tokens t true else S (ws_tokens t true)
  end.

Definition is_ascii (s : bytes) : bool := forallb (fun c => c <? 128) s.

(* [s.to_ascii_lowercase()] *)
Definition lower (s : bytes) : bytes :=
  map (fun c => if (65 <=? c) && (c <=? 90) then c + 32 else c) s.
