(* Model/CliPaths.v — the output-path decisions of c2patool (cli/src/main.rs, fn main) as a function from
   a finite record of predicates about the command line and the file-system state before the run to the
   ordered list of file-system effects the tool performs.  Branch order follows main.rs:
     info / certs / tree  (return before anything is written)
     manifest given:   output required -> fragment sub-command | single file (ext test, exists/force test,
                       sign_file or in-place sign, sidecar File::create, report)
     no manifest:      parent/sidecar/remote need a manifest -> folder report (exists/force test,
                       remove_dir_all, create_dir_all, to_folder | ingredient) -> read-only reports.
   No proofs here. *)
From Coq Require Import List Bool.
From C2PA Require Import Generated.C32_facts.
Import ListNotations.

(* state of the path given with -o before the run *)
Inductive outst := ONone       (* no -o *)
                 | OAbsent     (* does not exist, its parent directory does *)
                 | ONoParent   (* does not exist, neither does its parent *)
                 | OFile | ODir.
(* relation of the -o path to the input path: PathBuf equality (Same) or another spelling of it (Alias) *)
Inductive samest := Different | Same | Alias.
(* state of output.with_extension("c2pa") before the run *)
Inductive scst := SAbsent | SFile | SDir.
(* `fragment` sub-command: absent, without --fragments_glob, with it *)
Inductive fragst := FNone | FNoGlob | FGlob.

Record cli := {
  has_manifest : bool;   (* -m / -c *)
  early : bool;          (* --info, --certs or --tree *)
  out : outst;
  same : samest;
  ext_match : bool;      (* ext_normal(output) == ext_normal(path) *)
  force : bool;
  sidecar : bool;
  sc : scst;
  remote : bool;         (* --remote URL *)
  remote_ok : bool;      (* the URL can be fetched when the output is read back *)
  fragment : fragst;
  finit : bool;          (* output/<rendition>/<init segment> exists before the run *)
  fseg : bool;           (* output/<rendition>/<fragment> exists before the run *)
  ingredient : bool
}.

Inductive cpath := PIn | POut | POutParent | PSidecar | POutChild | PFragDir | PFragSeg | PFragInit.

Inductive effect :=
| Remove (p : cpath) | Write (p : cpath) | RemoveTree (p : cpath) | Mkdir (p : cpath)
| Report          (* reads and prints, exit 0 *)
| Bail            (* bail!(..) : the tool's own refusal *)
| Fail.           (* an I/O or SDK error propagated with `?` *)

Definition out_exists (r : cli) := match out r with OFile | ODir => true | _ => false end.
Definition out_is_dir (r : cli) := match out r with ODir => true | _ => false end.
Definition same_eq (r : cli) := match same r with Same => true | _ => false end.

Definition exists_before (r : cli) (p : cpath) : bool :=
  match p with
  | PIn => true
  | POut => out_exists r
  | POutParent => match out r with ONone | ONoParent => false | _ => true end
  | PSidecar => match sc r with SAbsent => false | _ => true end
  | POutChild => out_is_dir r
  | PFragDir => out_is_dir r && (finit r || fseg r)
  | PFragSeg => out_is_dir r && fseg r
  | PFragInit => out_is_dir r && finit r
  end.

Definition is_stop (e : effect) := match e with Bail | Fail => true | _ => false end.
(* `a; b` where an error in a returns from main *)
Definition andthen (a b : list effect) := if existsb is_stop a then a else a ++ b.

(* Reader::with_file(&output) + print_reader after signing *)
Definition report_step (r : cli) : list effect :=
  if sidecar r && remote r && negb (remote_ok r) then [Fail] else [Report].

(* if args.sidecar { File::create(output.with_extension("c2pa")) ... } *)
Definition sidecar_step (r : cli) : list effect :=
  if sidecar r then match sc r with SDir => [Fail] | _ => [Write PSidecar] end else [].

(* if output.exists() { if force && output != path { remove_file } else if !force { bail } } *)
Definition exists_step (r : cli) : list effect :=
  if out_exists r then
    if force r && negb (same_eq r) then (if out_is_dir r then [Fail] else [Remove POut])
    else if negb (force r) then [Bail] else []
  else [].

(* The two existence tests added by the repairs of F-CLI-SIDECAR (5fdfaf69f) and F-CLI-FRAG-INIT (414c938c4) are
   parameters of the decision: [sg] = the sidecar write is guarded, [fg] = the init-segment write is guarded.
   [decide] below instantiates them with the facts regenerated from the source (Generated/C32_facts.v); the
   behaviour before the repairs is [decide_g false false]. *)
Section Guards.
Variables sg fg : bool.

(* if args.sidecar { if sidecar.exists() && !args.force { bail } } *)
Definition sidecar_guard (r : cli) : list effect :=
  if sg && sidecar r && negb (force r) && match sc r with SAbsent => false | _ => true end
  then [Bail] else [].

(* if path != output { builder.sign_file(path, output) } else { sign to a temp file; persist over output }
   sign_file: set_asset_from_dest (create_dir_all(parent) when dest is absent), File::open(source),
   OpenOptions::create(true).truncate(true).open(dest) *)
Definition sign_file (r : cli) : list effect :=
  match out r with
  | ONone => [Fail]
  | ONoParent => [Mkdir POutParent; Write POut]
  | _ => [Write POut]
  end.
Definition sign_step (r : cli) : list effect :=
  match same r with
  | Same => match out r with OFile => [Write POut] | _ => [Fail] end
  | Alias => (* output != path as PathBufs, yet the same file: remove_file(output) has just removed the input *)
             if out_exists r && force r then [Fail] else sign_file r
  | Different => sign_file r
  end.

Definition manifest_file_mode (r : cli) : list effect :=
  if negb (ext_match r) then [Bail]
  else andthen (exists_step r) (andthen (sidecar_guard r)
         (andthen (sign_step r) (andthen (sidecar_step r) (report_step r)))).

(* sign_fragmented -> Store::save_to_bmff_fragmented -> add_merkle_for_fragmented (create_new per fragment)
   -> save_jumbf_to_file(init segment) *)
Definition fragment_sign (r : cli) : list effect :=
  andthen (if out_exists r then [] else [Mkdir POut])
  (andthen (if exists_before r PFragDir then [] else [Mkdir PFragDir])
  (andthen (if exists_before r PFragSeg then [Fail] else [Write PFragSeg])
           (* if output_file.exists() { return Err(..) }  before save_jumbf_to_file *)
           (if fg && exists_before r PFragInit then [Fail] else [Write PFragInit; Report]))).

Definition manifest_fragment_mode (r : cli) : list effect :=
  if out_exists r && negb (out_is_dir r) then [Bail]
  else match fragment r with FGlob => fragment_sign r | _ => [Bail] end.

Definition folder_mode (r : cli) : list effect :=
  if out_exists r && negb (out_is_dir r) then [Bail]
  else andthen (if out_exists r then (if force r then [RemoveTree POut] else [Bail]) else [])
               [Mkdir POut; Write POutChild; Report].

Definition decide_g (r : cli) : list effect :=
  if early r then [Report]
  else if has_manifest r then
    match out r with
    | ONone => [Bail]
    | _ => match fragment r with
           | FNone => manifest_file_mode r
           | _ => manifest_fragment_mode r
           end
    end
  else if sidecar r || remote r then [Bail]
  else match out r with
       | ONone => [Report]
       | _ => folder_mode r
       end.
End Guards.

Definition decide : cli -> list effect := decide_g sidecar_write_guarded frag_init_guarded.

(* effects that modify, replace or delete what they name *)
Definition destructive (e : effect) : option cpath :=
  match e with Remove p | Write p | RemoveTree p => Some p | _ => None end.

(* the property, per record: every destructive effect on something that existed needs --force *)
Definition no_clobber_of (d : cli -> list effect) (r : cli) : bool :=
  forallb (fun e => match destructive e with
                    | Some p => implb (exists_before r p) (force r)
                    | None => true
                    end) (d r).
Definition no_clobber_b : cli -> bool := no_clobber_of decide.

(* the two classes of the behaviour before the repairs (both fixed; kept to state what the old code did) *)
(* F-CLI-SIDECAR: File::create(sidecar) had no existence test *)
Definition known_sidecar (r : cli) : bool :=
  negb (early r) && has_manifest r && match fragment r with FNone => true | _ => false end
  && sidecar r && match sc r with SFile => true | _ => false end && negb (force r)
  && ext_match r && match out r with OAbsent | ONoParent => true | _ => false end
  && match same r with Same => false | _ => true end.
(* F-CLI-FRAG-INIT: fragments were written with create_new, the init segment was overwritten *)
Definition known_frag_init (r : cli) : bool :=
  negb (early r) && has_manifest r && match fragment r with FGlob => true | _ => false end
  && out_is_dir r && finit r && negb (fseg r) && negb (force r).
Definition old_known (r : cli) := known_sidecar r || known_frag_init r.

(* the whole domain, spelled out *)
Definition bools := [false; true].
Definition outs := [ONone; OAbsent; ONoParent; OFile; ODir].
Definition sames := [Different; Same; Alias].
Definition scs := [SAbsent; SFile; SDir].
Definition frags := [FNone; FNoGlob; FGlob].

Definition all_cli : list cli :=
  flat_map (fun a => flat_map (fun b => flat_map (fun c => flat_map (fun d => flat_map (fun e =>
  flat_map (fun f => flat_map (fun g => flat_map (fun h => flat_map (fun i => flat_map (fun j =>
  flat_map (fun k => flat_map (fun l => flat_map (fun m => map (fun n =>
    Build_cli a b c d e f g h i j k l m n)
  bools) bools) bools) frags) bools) bools) scs) bools) bools) bools) sames) outs) bools) bools.

(* which records can be set up as a real directory state + command line (used by the correspondence run) *)
Definition realisable (r : cli) : bool :=
  negb (remote_ok r)
  && match same r with Different => true | _ => match out r with OFile => true | _ => false end end
  && match out r with
     | ONone => ext_match r && match sc r with SAbsent => true | _ => false end
     | ONoParent => match sc r with SAbsent => true | _ => false end
     | _ => true end
  && (implb (finit r || fseg r) (out_is_dir r && match fragment r with FGlob => true | _ => false end && has_manifest r))
  && match same r with Different => true | _ => ext_match r end.
