(* Model/C10Png.v — machine-integer model of the PNG chunk walker of sdk/src/asset_handlers/png_io.rs:
   get_png_chunk_positions (signature check, the chunk loop) and get_cai_data (count / find caBX, seek,
   read_to_vec), over a Cursor.  length is a u32, positions are u64; the Vec<PngChunkPos> is represented by
   its length (the allocation counter) and the list of caBX entries.  Executable Gallina, no proofs. *)
From Coq Require Import List NArith Bool.
From C2PA Require Import Base.Bytes Generated.C10_facts Model.C10Mach.
Import ListNotations.
Open Scope N_scope.

Inductive perr :=
| PIoError               (* `?` on the 8-byte signature read *)
| PSignature             (* PngError::InvalidFileSignature *)
| POutOfRange            (* InvalidAsset("PNG out of range") *)
| PBadChunkName          (* InvalidAsset("PNG bad chunk name") *)
| PTooManyManifestStores
| PJumbfNotFound
| PBadParam.             (* read_to_vec: range / past end *)

Definition SITE_PNG_CAI_SEEK : N := 10.   (* pcp.start + 8 *)

(* walker result: (position after the last chunk, number of chunk entries pushed, caBX entries (start, length)) *)
Definition pwalk := (N * N * list (N * N))%type.

(* the `loop` of get_png_chunk_positions; one unit of fuel per iteration *)
Fixpoint png_loop (fuel : nat) (buf : bytes) (pos n : N) (cai : list (N * N)) : out perr pwalk :=
  match fuel with
  | O => OutOfFuel
  | S f =>
    match cread_exact buf pos 4 with                 (* read_u32::<BigEndian>() *)
    | None => Err POutOfRange
    | Some (lb, p1) =>
      let length := de lb in
      match cread_exact buf p1 4 with                (* chunk type *)
      | None => Err POutOfRange
      | Some (name, p2) =>
        match seek_fwd p2 length with                (* seek(Current(length as i64)): may go past the end *)
        | None => Err POutOfRange
        | Some p3 =>
          match cread_exact buf p3 4 with            (* crc *)
          | None => Err POutOfRange
          | Some (_, p4) =>
            if negb (valid_utf8 name) then Err PBadChunkName else
            let cai' := if beqb name PNG_CAI then cai ++ [(pos, length)] else cai in
            if beqb name PNG_END || (len buf <? p4) then Ok (p4, n + 1, cai')
            else png_loop f buf p4 (n + 1) cai'
          end
        end
      end
    end
  end.

Definition png_chunk_positions (fuel : nat) (buf : bytes) : out perr pwalk :=
  match cread_exact buf 0 8 with
  | None => Err PIoError
  | Some (hdr, p) => if negb (beqb hdr PNG_ID) then Err PSignature else png_loop fuel buf p 0 []
  end.

(* get_cai_data after the walk: the length of the returned Vec *)
Definition png_cai (dbg : bool) (buf : bytes) (cai : list (N * N)) : out perr N :=
  match cai with
  | [] => Err PJumbfNotFound
  | [(start, length)] =>
    match add64 (E := perr) dbg SITE_PNG_CAI_SEEK start 8 with
    | Ok p => match read_to_vec buf p length with
              | None => Err PBadParam
              | Some _ => Ok length
              end
    | Err e => Err e
    | Panic s x y => Panic s x y
    | OutOfFuel => OutOfFuel
    end
  | _ => Err PTooManyManifestStores
  end.

(* fuel that is always enough: a chunk takes at least 12 bytes *)
Definition pfuel (buf : bytes) : nat := S (length buf).

(* (chunk entries, end position, outcome of get_cai_data) *)
Definition png_read (dbg : bool) (buf : bytes) : out perr (N * N * out perr N) :=
  match png_chunk_positions (pfuel buf) buf with
  | Ok (p, n, cai) => Ok (n, p, png_cai dbg buf cai)
  | Err e => Err e
  | Panic s x y => Panic s x y
  | OutOfFuel => OutOfFuel
  end.
