(* Model/Merkle.v — executable transcription of
     sdk/src/utils/merkle.rs        :: C2PAMerkleTree::{to_layout, generate_tree, get_proof_by_index}
     sdk/src/assertions/bmff_hash.rs :: MerkleMap::{hash_check, check_merkle_tree}
     sdk/src/assertions/bmff_hash.rs :: BmffHash::create_merkle_map_for_mdat_box (row selection, None for an empty proof)
   over an abstract binary node hash  Hn left right  =  concat_and_hash(alg, left, Some(right)).
   No proofs here.  Node values are byte strings; leaf counts and layer indices are [nat]; the location handed
   to the checker is an [N] (it is attacker controlled and compared with the count before anything else). *)
From Coq Require Import List NArith Bool Arith.
From C2PA Require Import Base.Bytes.
Import ListNotations.
Open Scope nat_scope.

(* vec_compare: same length and equal element-wise *)
Fixpoint bytes_eqb (a b : bytes) : bool :=
  match a, b with
  | [], [] => true
  | x :: a', y :: b' => N.eqb x y && bytes_eqb a' b'
  | _, _ => false
  end.

(* the body of `for i in (0..current_layer).step_by(2)`: one parent per started pair *)
Fixpoint pcnt (n : nat) : nat :=
  match n with
  | O => O
  | S O => 1
  | S (S k) => S (pcnt k)
  end.

(* to_layout: `layers.push(n); while current_layer > 1 { push(parent count) }` *)
Fixpoint layout_f (fuel n : nat) : list nat :=
  n :: match fuel with
       | O => []
       | S f => if n <=? 1 then [] else layout_f f (pcnt n)
       end.
Definition layout (n : nat) : list nat := layout_f n n.

Section Merkle.
  Variable Hn : bytes -> bytes -> bytes.

  (* one round of generate_tree's inner loop: pairs hashed, an unpaired last node copied unchanged *)
  Fixpoint parent (l : list bytes) : list bytes :=
    match l with
    | [] => []
    | [a] => [a]
    | a :: b :: t => Hn a b :: parent t
    end.

  Fixpoint layers_f (fuel : nat) (l : list bytes) : list (list bytes) :=
    l :: match fuel with
         | O => []
         | S f => if length l <=? 1 then [] else layers_f f (parent l)
         end.
  (* C2PAMerkleTree::from_leaves(leaves, alg, false).layers *)
  Definition gen_tree (leaves : list bytes) : list (list bytes) := layers_f (length leaves) leaves.

  (* get_proof_by_index: the loop over self.layers *)
  Fixpoint proof_f (ls : list (list bytes)) (index left : nat) : list bytes :=
    match ls with
    | [] => []
    | layer :: rest =>
        match left with
        | O => []
        | S left' =>
            (if Nat.odd index
             then (if index - 1 <? length layer then [nth (index - 1) layer []] else [])
             else (if index + 1 <? length layer then [nth (index + 1) layer []] else []))
            ++ proof_f rest (index / 2) left'
        end
    end.

  Definition proof_by_index (leaves : list bytes) (i max_proof_len : nat) : option (list bytes) :=
    if (length leaves =? 0) || (length leaves <=? i) then None      (* Err(BadParam) *)
    else Some (proof_f (gen_tree leaves) i max_proof_len).

  (* create_merkle_map_for_mdat_box: tree_row = min(max_proofs, layers.len() - 1) *)
  Definition row_index (leaves : list bytes) (max_proofs : nat) : nat :=
    Nat.min max_proofs (length (gen_tree leaves) - 1).
  Definition stored_row (leaves : list bytes) (max_proofs : nat) : list bytes :=
    nth (row_index leaves max_proofs) (gen_tree leaves) [].
  (* `if !proof.is_empty() { hashes = Some(proof) }` else None *)
  Definition wrap_proof (p : list bytes) : option (list bytes) :=
    match p with [] => None | _ => Some p end.

  Definition hash_check (row : list bytes) (idx : nat) (h : bytes) : bool :=
    match nth_error row idx with
    | Some x => bytes_eqb x h
    | None => false
    end.

  (* the `Some(hashes)` playback loop; None = `return false` (proof too short) *)
  Fixpoint play (ls : list nat) (rowlen index : nat) (h : bytes) (ps : list bytes)
    : option (nat * bytes) :=
    match ls with
    | [] => Some (index, h)
    | layer :: rest =>
        if layer =? rowlen then Some (index, h)
        else if Nat.odd index then
          if index - 1 <? layer then
            match ps with
            | p :: ps' => play rest rowlen (index / 2) (Hn p h) ps'
            | [] => None
            end
          else play rest rowlen (index / 2) h ps
        else
          if index + 1 <? layer then
            match ps with
            | p :: ps' => play rest rowlen (index / 2) (Hn h p) ps'
            | [] => None
            end
          else play rest rowlen (index / 2) h ps
    end.

  (* the `None` ("empty proof") playback loop: only the index moves, and an absent proof is refused as soon as a
     sibling hash would be needed (`if index % 2 == 1 || index + 1 < layer { return false; }`) *)
  Fixpoint skip_rows (ls : list nat) (rowlen index : nat) : option nat :=
    match ls with
    | [] => Some index
    | layer :: rest =>
        if layer =? rowlen then Some index
        else if Nat.odd index || (index + 1 <? layer) then None
        else skip_rows rest rowlen (index / 2)
    end.

  Definition check_merkle_tree (count : nat) (row : list bytes) (h : bytes) (location : N)
             (proof : option (list bytes)) : bool :=
    if (N.of_nat count <=? location)%N then false
    else
      let index := N.to_nat location in
      match proof with
      | Some ps =>
          match play (layout count) (length row) index h ps with
          | Some (j, h') => hash_check row j h'
          | None => false
          end
      | None =>
          match skip_rows (layout count) (length row) index with
          | Some j => hash_check row j h
          | None => false
          end
      end.
End Merkle.

(* An injective instance of the node hash used only for evaluation in the correspondence run: the first element
   (>= 256, so never a byte) carries the length of the left operand.  python replaces every such term by the real
   SHA-2 digest of (left || right); two terms are equal iff the structures are equal, so verdicts agree with the real
   code unless the real hash collides on the generated case. *)
Definition Hsym (a b : bytes) : bytes := (256 + N.of_nat (length a))%N :: a ++ b.
