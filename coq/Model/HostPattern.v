(* Model/HostPattern.v — transcription of HostPattern::new / HostPattern::matches / is_uri_allowed
   (sdk/src/http/restricted.rs).  Strings are UTF-8 byte strings ([list N]); the URI components
   (scheme, host, port as http::Uri reports them) are inputs: URI parsing is observed, not modelled. *)
From Coq Require Import List NArith Bool Arith.
From C2PA Require Import Base.Bytes.
Import ListNotations.
Open Scope N_scope.

(* ---- byte-string helpers (str methods used by the code) ---- *)

(* u8::to_ascii_lowercase: only A-Z change; bytes >= 128 are untouched *)
Definition lower_byte (b : N) : N := if (65 <=? b) && (b <=? 90) then b + 32 else b.
Definition lower (s : bytes) : bytes := map lower_byte s.

Fixpoint beqb (a b : bytes) : bool :=
  match a, b with
  | [], [] => true
  | x :: a', y :: b' => (x =? y) && beqb a' b'
  | _, _ => false
  end.

Definition opt_beqb (a b : option bytes) : bool :=
  match a, b with
  | None, None => true
  | Some x, Some y => beqb x y
  | _, _ => false
  end.

(* str::strip_prefix *)
Fixpoint strip_prefix (p s : bytes) : option bytes :=
  match p, s with
  | [], _ => Some s
  | a :: p', b :: s' => if a =? b then strip_prefix p' s' else None
  | _ :: _, [] => None
  end.

(* str::ends_with *)
Definition ends_with (s suf : bytes) : bool :=
  (length suf <=? length s)%nat && beqb (skipn (length s - length suf) s) suf.

(* str::strip_suffix *)
Definition strip_suffix (suf s : bytes) : option bytes :=
  if ends_with s suf then Some (firstn (length s - length suf) s) else None.

(* str::rsplit_once(c): split at the last occurrence of c *)
Fixpoint rsplit_once (c : N) (s : bytes) : option (bytes * bytes) :=
  match s with
  | [] => None
  | b :: t =>
      match rsplit_once c t with
      | Some (h, p) => Some (b :: h, p)
      | None => if b =? c then Some ([], t) else None
      end
  end.

Definition is_nil {A} (l : list A) : bool := match l with [] => true | _ => false end.

(* ASCII literals *)
Definition s_https_pfx : bytes := [104;116;116;112;115;58;47;47].   (* "https://" *)
Definition s_http_pfx  : bytes := [104;116;116;112;58;47;47].       (* "http://"  *)
Definition s_https     : bytes := [104;116;116;112;115].            (* "https"    *)
Definition s_http      : bytes := [104;116;116;112].                (* "http"     *)
Definition s_wild      : bytes := [42;46].                          (* "*."       *)
Definition c_colon : N := 58.
Definition c_dot   : N := 46.

(* ---- HostPattern ---- *)

Record pat := Pat { p_pattern : bytes; p_scheme : option bytes; p_host : option bytes; p_port : option bytes }.

(* HostPattern::new *)
Definition parse_pattern (raw : bytes) : pat :=
  let p := lower raw in
  let '(scheme, rest) :=
    match strip_prefix s_https_pfx p with
    | Some r => (Some s_https, r)
    | None =>
        match strip_prefix s_http_pfx p with
        | Some r => (Some s_http, r)
        | None => (None, p)
        end
    end in
  let '(host, port) :=
    match rsplit_once c_colon rest with
    | Some (h, pt) => (h, Some pt)
    | None => (rest, None)
    end in
  Pat p scheme (if is_nil host then None else Some host) port.

(* the host part of HostPattern::matches *)
Definition host_matches (ph h : bytes) : bool :=
  match strip_prefix s_wild ph with
  | Some suffix =>
      let hl := lower h in
      if (length hl <=? length suffix)%nat || negb (ends_with hl suffix) then false
      else nth (length hl - length suffix - 1) hl 0 =? c_dot
  | None => beqb (lower ph) (lower h)                       (* eq_ignore_ascii_case *)
  end.

(* the scheme tail shared by both arms: pattern scheme present => URI scheme must be present and equal *)
Definition scheme_ok (ps us : option bytes) : bool :=
  match ps with
  | Some a => match us with Some s => beqb s a | None => false end
  | None => true
  end.

(* HostPattern::matches(uri) on the components http::Uri reports *)
Definition matches (p : pat) (us uh up : option bytes) : bool :=
  match p_host p with
  | Some ph =>
      match uh with
      | Some h =>
          if host_matches ph h && opt_beqb (p_port p) up then scheme_ok (p_scheme p) us else false
      | None => false
      end
  | None =>
      match p_scheme p with
      | Some a => match us with Some s => beqb s a | None => false end
      | None => false
      end
  end.

(* is_uri_allowed *)
Definition is_uri_allowed (ps : list pat) (us uh up : option bytes) : bool :=
  existsb (fun p => matches p us uh up) ps.
