(* Model/Streams.v — C35: streams that serve short reads / short writes and fail on demand, and the I/O helpers
   the SDK builds on them.

   A stream call (read, write, seek) consumes one event of the schedule: [Short n] lets a read or write move at
   most [S n] bytes (at least one when any are wanted and available), [FailEv] makes the call return an I/O error.
   An exhausted schedule means full transfers.  This is exactly the wrapper stream of harness/src/c35.rs.

   [prim_read] is std::io::Read::read (one call, possibly short); [read_exact], [read_to_end], [write_all] are the
   std loops over it (ReaderUtils::read_to_vec is take(n).read_to_end with a length check, i.e. read_exact).
   Executable Gallina only; proofs are in Proofs/StreamsProofs.v. *)
From Coq Require Import List NArith Arith Bool.
Import ListNotations.

Inductive ev := Short (n : nat) | FailEv.

Inductive err := EIo | EEof | EParse.

Inductive res (A : Type) := Ok (a : A) | Err (e : err).
Arguments Ok {A} _.
Arguments Err {A} _.

Record st := mkSt {
  data  : list N;      (* the whole source *)
  rest  : list N;      (* the bytes from the current position on *)
  sched : list ev;     (* behaviour of the coming calls, over source and destination together *)
  out   : list N       (* what has been written to the destination so far *)
}.

Definition is_fail (e : ev) : bool := match e with FailEv => true | Short _ => false end.
Definition nofail (s : list ev) : bool := forallb (fun e => negb (is_fail e)) s.

(* how many bytes one call moves when [want] are asked for and [avail] are there *)
Definition piece (e : option ev) (want avail : nat) : nat :=
  match e with
  | Some (Short n) => Nat.min (Nat.min want (S n)) avail
  | _ => Nat.min want avail
  end.

(* ---- the primitive calls *)
Definition prim_read (k : nat) (s : st) : res (list N * st) :=
  match sched s with
  | FailEv :: _ => Err EIo
  | e :: r => let m := piece (Some e) k (length (rest s)) in
              Ok (firstn m (rest s), mkSt (data s) (skipn m (rest s)) r (out s))
  | [] => let m := piece None k (length (rest s)) in
          Ok (firstn m (rest s), mkSt (data s) (skipn m (rest s)) [] (out s))
  end.

Definition prim_write (bs : list N) (s : st) : res (nat * st) :=
  match sched s with
  | FailEv :: _ => Err EIo
  | e :: r => let m := piece (Some e) (length bs) (length bs) in
              Ok (m, mkSt (data s) (rest s) r (out s ++ firstn m bs))
  | [] => Ok (length bs, mkSt (data s) (rest s) [] (out s ++ bs))
  end.

Definition prim_seek (p : nat) (s : st) : res st :=
  match sched s with
  | FailEv :: _ => Err EIo
  | _ :: r => Ok (mkSt (data s) (skipn p (data s)) r (out s))
  | [] => Ok (mkSt (data s) (skipn p (data s)) [] (out s))
  end.

(* ---- the loops of std built on them *)
Fixpoint read_exact_fuel (fuel k : nat) (s : st) (acc : list N) : res (list N * st) :=
  match k with
  | O => Ok (acc, s)
  | S _ =>
    match fuel with
    | O => Err EEof
    | S f =>
      match prim_read k s with
      | Err e => Err e
      | Ok (bs, s') =>
        match bs with
        | [] => Err EEof                       (* "failed to fill whole buffer" *)
        | _ :: _ => read_exact_fuel f (k - length bs) s' (acc ++ bs)
        end
      end
    end
  end.
Definition read_exact (k : nat) (s : st) : res (list N * st) := read_exact_fuel k k s [].

Definition CHUNK : nat := 32.
Fixpoint read_to_end_fuel (fuel : nat) (s : st) (acc : list N) : res (list N * st) :=
  match fuel with
  | O => Err EEof
  | S f =>
    match prim_read CHUNK s with
    | Err e => Err e
    | Ok (bs, s') =>
      match bs with
      | [] => Ok (acc, s')
      | _ :: _ => read_to_end_fuel f s' (acc ++ bs)
      end
    end
  end.
Definition read_to_end (s : st) : res (list N * st) := read_to_end_fuel (S (length (rest s))) s [].

Fixpoint write_all_fuel (fuel : nat) (bs : list N) (s : st) : res st :=
  match bs with
  | [] => Ok s
  | _ :: _ =>
    match fuel with
    | O => Err EIo
    | S f =>
      match prim_write bs s with
      | Err e => Err e
      | Ok (m, s') =>
        match m with
        | O => Err EIo                         (* WriteZero *)
        | S _ => write_all_fuel f (skipn m bs) s'
        end
      end
    end
  end.
Definition write_all (bs : list N) (s : st) : res st := write_all_fuel (length bs) bs s.

(* io_utils::stream_len: seek to the end, seek back (two calls) *)
Definition stream_len (s : st) : res (nat * st) :=
  let back := length (data s) - length (rest s) in
  match prim_seek (length (data s)) s with
  | Err e => Err e
  | Ok s1 => match prim_seek back s1 with
             | Err e => Err e
             | Ok s2 => Ok (length (data s), s2)
             end
  end.

(* ---- code built only from the exact / complete helpers, errors propagated with `?` *)
Inductive prog (A : Type) : Type :=
| PRet (a : A)
| PFail (e : err)                                   (* the code itself rejects its input *)
| PReadExact (k : nat) (c : list N -> prog A)
| PReadToEnd (c : list N -> prog A)
| PSeek (p : nat) (c : prog A)
| PLen (c : nat -> prog A)
| PWriteAll (bs : list N) (c : prog A).
Arguments PRet {A} _.
Arguments PFail {A} _.
Arguments PReadExact {A} _ _.
Arguments PReadToEnd {A} _.
Arguments PSeek {A} _ _.
Arguments PLen {A} _.
Arguments PWriteAll {A} _ _.

Fixpoint run {A : Type} (p : prog A) (s : st) : res (A * st) :=
  match p with
  | PRet a => Ok (a, s)
  | PFail e => Err e
  | PReadExact k c => match read_exact k s with Err e => Err e | Ok (bs, s') => run (c bs) s' end
  | PReadToEnd c => match read_to_end s with Err e => Err e | Ok (bs, s') => run (c bs) s' end
  | PSeek p c => match prim_seek p s with Err e => Err e | Ok s' => run c s' end
  | PLen c => match stream_len s with Err e => Err e | Ok (n, s') => run (c n) s' end
  | PWriteAll bs c => match write_all bs s with Err e => Err e | Ok s' => run c s' end
  end.

(* the same code on an ideal stream (no schedule at all): the reference value *)
Fixpoint run_ideal {A : Type} (p : prog A) (d r o : list N) : res (A * (list N * list N)) :=
  match p with
  | PRet a => Ok (a, (r, o))
  | PFail e => Err e
  | PReadExact k c => if k <=? length r then run_ideal (c (firstn k r)) d (skipn k r) o else Err EEof
  | PReadToEnd c => run_ideal (c r) d [] o
  | PSeek p c => run_ideal c d (skipn p d) o
  | PLen c => run_ideal (c (length d)) d (skipn (length d - length r) d) o
  | PWriteAll bs c => run_ideal c d r (o ++ bs)
  end.

(* what an observer sees of a run: the value, where the source stands, what was written *)
Definition observe {A : Type} (x : res (A * st)) : res (A * (list N * list N)) :=
  match x with Ok (a, s) => Ok (a, (rest s, out s)) | Err e => Err e end.

(* ---- the one place where the SDK uses a bare read on the caller's stream: jumbf_io::container_from_stream *)
Section Sniff.
  Variable C : Type.
  Variable classify : list N -> option C.    (* the magic-number tests on the n bytes that one read returned *)

  (* stream.rewind().ok()?; let n = stream.read(&mut buf).ok()?; stream.rewind().ok()?; tests on buf[..n] *)
  Definition container_from_stream (s : st) : option C * st :=
    match prim_seek 0 s with
    | Err _ => (None, mkSt (data s) (rest s) (tl (sched s)) (out s))
    | Ok s1 =>
      match prim_read 16 s1 with
      | Err _ => (None, mkSt (data s1) (rest s1) (tl (sched s1)) (out s1))
      | Ok (bs, s2) =>
        match prim_seek 0 s2 with
        | Err _ => (None, mkSt (data s2) (rest s2) (tl (sched s2)) (out s2))
        | Ok s3 => (classify bs, s3)
        end
      end
    end.

  Variable container_of_hint : option C.
  Variable C_eqb : C -> C -> bool.
  (* format_from_stream: the hint when it names the detected container or nothing was detected, else the detected one *)
  Definition format_from_stream (s : st) : (unit + C) * st :=
    let '(d, s') := container_from_stream s in
    match container_of_hint, d with
    | Some h, Some c => if C_eqb h c then (inl tt, s') else (inr c, s')
    | _, Some c => (inr c, s')
    | _, None => (inl tt, s')
    end.
End Sniff.

(* the JPEG test of container_from_stream, as a concrete classifier for the witnesses *)
Definition classify_jpeg (bs : list N) : option nat :=
  match bs with
  | 255%N :: 216%N :: 255%N :: _ => Some 1
  | _ => None
  end.

(* ------------------------------------------------------------------ the inventory this model stands for
   Every bare `.read(buf)` / `.write(buf)` (one call, possibly short) of non-test SDK code, as the translator
   (vlib/props/c35.py) finds them, with the class that makes it harmless or names what the run must exercise:
     forwarder   — the body of an `impl Read/Write for Wrapper`: passes the inner stream's contract through;
     memory      — the reader is always a Cursor over bytes already in memory (translator checks the callers); since fix
                   7b268693b read_header loops its read until the 8-byte header is full, read_desc_box still reads once;
     run         — on the caller's stream; schedule dependent (c35_single_read_dependent); exercised by the run;
     not_io      — a method called `write` that takes the writer as argument and uses write_all inside. *)
From Coq Require Import String.
Open Scope string_scope.

Definition io_site := (string * string * string * string)%type.   (* file, function, read|write, class *)

Definition modelled_io_sites : list io_site := [
  ("asset_io.rs", "read", "read", "forwarder");
  ("asset_io.rs", "read", "read", "forwarder");
  ("asset_io.rs", "write", "write", "forwarder");
  ("jumbf_io.rs", "container_from_stream", "read", "run");
  ("jumbf_io.rs", "read", "read", "forwarder");
  ("asset_handlers/bmff_io.rs", "write_c2pa_box", "write", "not_io");
  ("asset_handlers/bmff_io.rs", "write_xmp_box", "write", "not_io");
  ("asset_handlers/bmff_io.rs", "write_free_box", "write", "not_io");
  ("asset_handlers/riff_io.rs", "write_cai_impl", "write", "not_io");
  ("asset_handlers/riff_io.rs", "embed_reference_to_stream", "write", "not_io");
  ("asset_handlers/riff_io.rs", "embed_reference_to_stream", "write", "not_io");
  ("http/wasi.rs", "read", "read", "forwarder");
  ("jumbf/boxes.rs", "read_header", "read", "memory");
  ("jumbf/boxes.rs", "read_desc_box", "read", "memory");
  ("jumbf/boxio.rs", "write", "write", "forwarder")
].

Definition site_eqb (a b : io_site) : bool :=
  let '(a1, a2, a3, a4) := a in let '(b1, b2, b3, b4) := b in
  String.eqb a1 b1 && String.eqb a2 b2 && String.eqb a3 b3 && String.eqb a4 b4.

Fixpoint sites_eqb (a b : list io_site) : bool :=
  match a, b with
  | [], [] => true
  | x :: a', y :: b' => site_eqb x y && sites_eqb a' b'
  | _, _ => false
  end.

Definition classified (s : io_site) : bool :=
  let '(_, _, _, c) := s in
  String.eqb c "forwarder" || String.eqb c "memory" || String.eqb c "run" || String.eqb c "not_io".

Definition run_exercised (l : list io_site) : list (string * string) :=
  map (fun s => let '(f, g, _, _) := s in (f, g)) (filter (fun s => let '(_, _, _, c) := s in String.eqb c "run") l).
