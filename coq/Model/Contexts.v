(* Model/Contexts.v — contexts shared between threads, and the legacy thread-local settings.
   Transcribes the state that an `Arc<Context>` exposes to `&self` methods (sdk/src/context.rs):
     settings                immutable once the context is shared (only `&mut self` / `self` methods write it)
     cancel_flag             AtomicBool, `cancel()` stores true, nothing ever stores false
     signer / resolver       OnceLock cells: `get_or_init` of a value computed from the context's own settings
   and the thread-local `SETTINGS` of sdk/src/settings/mod.rs (one value per thread; the deprecated entry points merge
   into / read the calling thread's value; the builder-style API `Settings::new().with_*` touches neither).
   An atomic step is one of the actions below performed by one thread; a schedule is a list of (thread, action).
   Assumed, not modelled: Rust's memory model — each action is atomic (AtomicBool with Release/Acquire, OnceLock's
   exactly-once initialisation) and `Send`/`Sync` rule out data races on everything else.
   Executable definitions only. *)
From Coq Require Import List Bool Arith.
Import ListNotations.

Section Contexts.
  Variable S : Type.        (* settings *)
  Variable I : Type.        (* inputs of operations / of settings-builder calls / overlays for the legacy entry points *)
  Variable R : Type.        (* results of operations *)
  Variable V : Type.        (* values held by the write-once cells *)
  Variable T : Type.        (* a thread's legacy settings value *)
  (* an operation (sign / read) is a function of the context's settings, its input and the cancellation flag only *)
  Variable opf : S -> I -> bool -> R.
  (* what get_or_init computes: a function of the context's own settings (cell true = signer, false = resolver) *)
  Variable mk : bool -> S -> V.
  Variable bf : I -> R.             (* Settings::new().with_json / with_toml / with_value: a function of its arguments *)
  Variable tmerge : T -> I -> T.    (* Settings::from_string: merge the overlay into the calling thread's value *)
  Variable tread : T -> I -> R.     (* a legacy-API operation: a function of the calling thread's value and its input *)

  Record ctx := CX { settings : S; cancelled : bool; cells : bool -> option V; inits : bool -> nat }.
  Record world := W { ctxs : nat -> ctx; tls : nat -> T }.

  Inductive action :=
  | Cancel (c : nat)                      (* Context::cancel *)
  | Check (c : nat)                       (* Context::is_cancelled *)
  | Init (c : nat) (k : bool)             (* Context::signer / Context::resolver *)
  | Op (c : nat) (i : I) (uses_signer : bool)   (* Reader::with_stream / Builder::sign on the context *)
  | Build (i : I)                         (* settings builder API *)
  | TlsSet (i : I)                        (* Settings::from_toml & co *)
  | TlsGet                                (* Settings::to_toml *)
  | Legacy (i : I).                       (* deprecated Reader::from_stream: reads the thread-local settings *)

  Inductive result := RUnit | RFlag (b : bool) | RCell (v : V) | RRes (r : R) | RTls (t : T).

  Definition event := (nat * action)%type.

  Definition upd {A} (f : nat -> A) (k : nat) (v : A) : nat -> A := fun k' => if Nat.eqb k' k then v else f k'.
  Definition updb {A} (f : bool -> A) (k : bool) (v : A) : bool -> A := fun k' => if Bool.eqb k' k then v else f k'.

  (* OnceLock::get_or_init *)
  Definition get_or_init (x : ctx) (k : bool) : ctx * V :=
    match cells x k with
    | Some v => (x, v)
    | None => let v := mk k (settings x) in
              (CX (settings x) (cancelled x) (updb (cells x) k (Some v)) (updb (inits x) k (Datatypes.S (inits x k))), v)
    end.

  Definition step (w : world) (e : event) : world * result :=
    let (t, a) := e in
    match a with
    | Cancel c => let x := ctxs w c in
                  (W (upd (ctxs w) c (CX (settings x) true (cells x) (inits x))) (tls w), RUnit)
    | Check c => (w, RFlag (cancelled (ctxs w c)))
    | Init c k => let (x', v) := get_or_init (ctxs w c) k in (W (upd (ctxs w) c x') (tls w), RCell v)
    | Op c i us =>
        let x := ctxs w c in
        let x' := if us then fst (get_or_init x true) else x in
        (W (upd (ctxs w) c x') (tls w), RRes (opf (settings x) i (cancelled x)))
    | Build i => (w, RRes (bf i))
    | TlsSet i => (W (ctxs w) (upd (tls w) t (tmerge (tls w t) i)), RUnit)
    | TlsGet => (w, RTls (tls w t))
    | Legacy i => (w, RRes (tread (tls w t) i))
    end.

  Fixpoint run (w : world) (s : list event) : world * list result :=
    match s with
    | [] => (w, [])
    | e :: s' => let (w1, r) := step w e in let (w2, rs) := run w1 s' in (w2, r :: rs)
    end.

  (* the context an action works on *)
  Definition target (a : action) : option nat :=
    match a with
    | Cancel c | Check c | Init c _ | Op c _ _ => Some c
    | _ => None
    end.

  Definition is_cancel_of (c : nat) (a : action) : bool :=
    match a with Cancel c' => Nat.eqb c' c | _ => false end.

  (* the events of thread t, in order *)
  Definition proj (t : nat) (s : list event) : list event := filter (fun e => Nat.eqb (fst e) t) s.

  (* the results obtained by thread t in a run *)
  Fixpoint results_of (t : nat) (s : list event) (rs : list result) : list result :=
    match s, rs with
    | e :: s', r :: rs' => if Nat.eqb (fst e) t then r :: results_of t s' rs' else results_of t s' rs'
    | _, _ => []
    end.
End Contexts.
