(* Model/StoreIntegrity.v — the integrity checks a reader applies to a manifest store, at the level of
   manifests, claim bytes, assertion boxes, signature boxes and ingredient links.  Transcribes the
   hash/signature part of
     sdk/src/claim.rs :: Claim::verify_internal   (signature verdict, hashed-URI re-hash of every assertion the claim
                                                   lists, missing assertion, redaction skip, undeclared assertions)
     sdk/src/store.rs :: Store::ingredient_checks (ingredient found, manifest box hash / legacy claim hash,
                                                   claimSignature hash under redaction, verify_claim of the
                                                   ingredient, recursion with depth limit and visited set)
   External components are Section variables: the digest H (of assertion box contents, claim bytes, signature
   box), the manifest box digest Hm, the COSE verdict Verify (claim bytes, signature box) and the CBOR readers
   (deterministic functions of the bytes they parse).  Rules of verify_internal that do not concern integrity of
   bytes (action rules, metadata rules, update-manifest rules, icons) are not transcribed.  No proofs here. *)
From Coq Require Import List NArith Bool.
From C2PA Require Import Base.Bytes Model.Bind.
Import ListNotations.
Open Scope N_scope.

(* an assertion box as loaded from the store: label (incl. instance) and the box contents that get hashed *)
Record abox := AB { a_label : N; a_data : bytes }.
(* a manifest as loaded: label, claim CBOR bytes, signature box contents, assertion store, claim version >= 2 *)
Record manifest := MF { m_label : N; m_claim : bytes; m_sig : bytes; m_boxes : list abox; m_v2 : bool }.

(* what Ingredient::from_assertion yields for an assertion box *)
Inductive ing :=
| IngNone                                            (* not an ingredient / zeroed / no c2pa_manifest *)
| IngBad                                             (* ingredient assertion malformed *)
| IngRef (target : N) (hash : bytes) (sig_hash : option bytes).

Section Store.
  Variable H : bytes -> bytes.
  Variable Hm : manifest -> bytes.                   (* hash of the manifest's JUMBF box (1.3+ manifest box hash) *)
  Variable Verify : bytes -> bytes -> bool.          (* COSE_Sign1 check of the claim bytes against the signature box *)
  Variable claim_refs : bytes -> list (N * bytes).   (* hashed URIs of the claim: assertion label, hash *)
  Variable claim_redactions : bytes -> list (N * N). (* redacted assertions: manifest label, assertion label *)
  Variable ingredient_of : N -> bytes -> ing.        (* label, box contents *)
  Variable max_depth : nat.                          (* MAX_INGREDIENT_DEPTH *)

  Definition redacted (reds : list (N * N)) (ml l : N) : bool :=
    existsb (fun r => (fst r =? ml) && (snd r =? l)) reds.
  Definition find_box (l : N) (bs : list abox) : option abox := find (fun b => a_label b =? l) bs.
  Definition find_manifest (l : N) (s : list manifest) : option manifest := find (fun m => m_label m =? l) s.

  (* one entry of `for assertion in claim.assertions()` *)
  Definition check_ref (reds : list (N * N)) (m : manifest) (r : N * bytes) : bool :=
    if redacted reds (m_label m) (fst r) then true
    else match find_box (fst r) (m_boxes m) with
         | Some b => vec_compare (H (a_data b)) (snd r)        (* assertion.hashedURI.mismatch otherwise *)
         | None => false                                       (* assertion.missing *)
         end.

  (* the tracking list (ca_tracking_list): starts as the assertion store; every assertion the claim lists removes
     ONE entry with its label (position + swap_remove); what is left is undeclared (assertion.undeclared) *)
  Fixpoint remove_first (l : N) (bs : list abox) : list abox :=
    match bs with
    | [] => []
    | b :: t => if a_label b =? l then t else b :: remove_first l t
    end.
  Definition undeclared (m : manifest) : list abox :=
    fold_left (fun tr r => remove_first (fst r) tr) (claim_refs (m_claim m)) (m_boxes m).

  Definition verify_claim (reds : list (N * N)) (m : manifest) : bool :=
    Verify (m_claim m) (m_sig m)
    && forallb (check_ref reds m) (claim_refs (m_claim m))
    && match undeclared m with [] => true | _ => false end.

  (* the hash tests of one ingredient link *)
  Definition link_ok (reds : list (N * N)) (target : N) (h : bytes) (sh : option bytes) (mi : manifest) : bool :=
    let has_red := existsb (fun r => fst r =? target) reds in
    if has_red then
      if m_v2 mi then
        match sh with
        | Some x => vec_compare x (H (m_sig mi))               (* ingredient.claimSignature.mismatch otherwise *)
        | None => false                                        (* ingredient.claimSignature.missing *)
        end
      else true
    else vec_compare h (Hm mi) || vec_compare h (H (m_claim mi)).   (* 1.3+ box hash, else legacy claim hash *)

  Section Walk.
    Variable s : list manifest.
    Variable reds : list (N * N).

    Fixpoint ing_checks (fuel : nat) (m : manifest) (visited : list N) {struct fuel} : option (list N) :=
      match fuel with
      | O => None                                              (* depth limit *)
      | S k =>
          (fix loop (bs : list abox) (visited : list N) {struct bs} : option (list N) :=
             match bs with
             | [] => Some visited
             | b :: t =>
                 match ingredient_of (a_label b) (a_data b) with
                 | IngNone => loop t visited
                 | IngBad => None
                 | IngRef target h sh =>
                     match find_manifest target s with
                     | None => None                             (* ingredient.manifest.missing *)
                     | Some mi =>
                         if link_ok reds target h sh mi && verify_claim reds mi then
                           if existsb (N.eqb target) visited then loop t visited
                           else match ing_checks k mi (target :: visited) with
                                | None => None
                                | Some v => loop t v
                                end
                         else None
                     end
                 end
             end) (m_boxes m) visited
      end.
  End Walk.

  Definition store_redactions (s : list manifest) : list (N * N) :=
    flat_map (fun m => claim_redactions (m_claim m)) s.

  (* the active manifest is the last one of the store *)
  Definition validate_store (s : list manifest) : bool :=
    match rev s with
    | [] => false
    | act :: _ =>
        let reds := store_redactions s in
        verify_claim reds act
        && match ing_checks s reds max_depth act [] with Some _ => true | None => false end
    end.
End Store.
