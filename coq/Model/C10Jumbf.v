(* Model/C10Jumbf.v — machine-integer model of the JUMBF reader of sdk/src/jumbf/boxes.rs:
   BoxReader::read_header, read_desc_box, the content-box readers, the unknown-box arm and
   read_super_box_impl with its `while found` loop, transcribed branch by branch over a Cursor.
   Positions and sizes are u64; every unchecked `+`/`-`/`-=` of the code is [add64]/[sub64] (Panic in a debug
   build), every checked_* / read / seek keeps its error branch.  The tree itself is not built: the model
   returns the final position, the number of boxes, the bytes retained in content-box buffers (the
   allocation counter) and the deepest superbox level.  Executable Gallina, no proofs.

   [strict] is the reader whose read_header fills the 8-byte array and reports a 1..7-byte header as an error
   (the loop added by commit 7b268693b; on a Cursor one read returns everything that is left);
   [cadd] is the reader with `start_pos.checked_add(size)` for dest_pos.  Both are regenerated from the source
   (Generated.C10_facts.SHORT_HEADER_IS_ERROR, DEST_POS_IS_CHECKED): true since 7b268693b, false before.
   [dbg] is the build profile (overflow checks). *)
From Coq Require Import List NArith Bool.
From C2PA Require Import Base.Bytes Generated.C10_facts Model.C10Mach.
Import ListNotations.
Open Scope N_scope.

Inductive jerr :=
| EUnexpectedEof | EInvalidJumbfHeader | EExpectedJumdError | EInvalidJumbBox | EInvalidJsonBox | EInvalidCborBox
| EInvalidJp2cBox | EInvalidUuidBox | EInvalidEmbeddedFileBox | EInvalidUnknownBox | EInvalidBoxHeader | EIoError
| EInvalidDescriptionBox | EBoxNestingTooDeep.

Notation "'do' x <- e ; f" :=
  (match e with Ok x => f | Err e' => Err e' | Panic s a b => Panic s a b | OutOfFuel => OutOfFuel end)
  (at level 200, x pattern, e at level 100, f at level 200).

(* panic sites *)
Definition SITE_DEST_POS : N := 0.      (* start_pos + jumb_header.size *)
Definition SITE_DESC_UUID : N := 1.     (* bytes_left -= bytes_read as u64 *)
Definition SITE_DESC_TOGS : N := 2.     (* bytes_left -= 1 *)
Definition SITE_DESC_LABEL : N := 3.    (* bytes_left -= 1 in the label loop *)
Definition SITE_DESC_ID : N := 4.       (* bytes_left -= 4 *)
Definition SITE_BFDB_LEN : N := 5.      (* size - HEADER_SIZE - TOGGLE_SIZE *)
Definition SITE_BFDB_LAST : N := 6.     (* buf.len() - 1 *)

Definition has_text (l : bytes) : bool := valid_utf8 l && negb (match l with [] => true | _ => false end).

Section Reader.
  Variable strict : bool.
  Variable cadd : bool.
  Variable dbg : bool.

  (* BoxReader::read_header: Some (name, size, position after) or None for an I/O error; name 0 is BoxType::Empty *)
  Definition jread_header (buf : bytes) (pos : N) : option (N * N * N) :=
    let '(b, p1) := cread buf pos 8 in
    if len b =? 0 then Some (0, 0, p1)                          (* end of file *)
    else if strict && (len b <? 8) then None                    (* repaired reader only *)
    else
      let b8 := pad_to 8 b in                                   (* a short read leaves zeroes in the array *)
      let size := de (firstn 4 b8) in
      let typ := de (skipn 4 b8) in
      if size =? 1 then
        match cread_exact buf p1 8 with
        | None => None
        | Some (l, p2) => Some (typ, de l, p2)                  (* XLBox *)
        end
      else Some (typ, size, p1).

  (* the label loop of read_desc_box over the bytes ahead: (label, bytes consumed, bytes_left) *)
  Fixpoint jread_label (l : bytes) (bl : N) : out jerr (bytes * N * N) :=
    if bl <=? J_HEADER_SIZE then Err EInvalidDescriptionBox
    else match l with
         | [] => Err EIoError
         | c :: t =>
           do bl1 <- sub64 dbg SITE_DESC_LABEL bl 1;
           if c =? 0 then Ok ([], 1, bl1)
           else do r <- jread_label t bl1;
                let '(s, n, bl2) := r in Ok (c :: s, n + 1, bl2)
         end.

  (* BoxReader::read_desc_box: (position after, label bytes); an empty label stands for the early
     `Ok(JUMBFDescriptionBox::new("", None))` too *)
  Definition jread_desc (buf : bytes) (pos size : N) : out jerr (N * bytes) :=
    if size <? JUMD_MIN_SIZE then Err EInvalidDescriptionBox else
    let '(u, p1) := cread buf pos 16 in
    if len u =? 0 then Ok (p1, []) else
    do bl <- sub64 dbg SITE_DESC_UUID size (len u);
    match cread_exact buf p1 1 with
    | None => Err EIoError
    | Some (tg, p2) =>
      let tog := hd 0 tg in
      do bl <- sub64 dbg SITE_DESC_TOGS bl 1;
      if negb (N.land tog 3 =? 3) then Err EInvalidDescriptionBox else
      do r <- jread_label (rest buf p2) bl;
      let '(lab, n, bl) := r in
      let p3 := p2 + n in
      do r <- (if N.land tog 4 =? 4
               then match cread_exact buf p3 4 with
                    | None => Err EIoError
                    | Some (_, p) => do bl' <- sub64 dbg SITE_DESC_ID bl 4; Ok (p, bl')
                    end
               else Ok (p3, bl));
      let '(p4, bl) := r in
      do r <- (if N.land tog 8 =? 8
               then match cread_exact buf p4 32 with
                    | None => Err EIoError
                    | Some (_, p) => match checked_sub64 bl 32 with
                                     | None => Err EInvalidDescriptionBox
                                     | Some bl' => Ok (p, bl')
                                     end
                    end
               else Ok (p4, bl));
      let '(p5, bl) := r in
      do r <- (if N.land tog 16 =? 16
               then match jread_header buf p5 with
                    | None => Err EInvalidBoxHeader
                    | Some (name, hsize, p6) =>
                      if hsize =? 0 then Err EInvalidBoxHeader else
                      match (match checked_sub64 bl J_HEADER_SIZE with
                             | Some x => if x =? hsize then Some p6 else seek_back p6 J_HEADER_SIZE
                             | None => seek_back p6 J_HEADER_SIZE
                             end) with
                      | None => Err EIoError
                      | Some p7 =>
                        if name =? J_C2SH then
                          match checked_sub64 hsize J_HEADER_SIZE with
                          | None => Err EInvalidBoxHeader
                          | Some dl =>
                            match read_to_vec buf p7 dl with
                            | None => Err EInvalidBoxHeader
                            | Some p8 => match checked_sub64 bl hsize with
                                         | None => Err EInvalidBoxHeader
                                         | Some bl' => Ok (p8, bl')
                                         end
                            end
                          end
                        else Err EInvalidBoxHeader
                      end
                    end
               else Ok (p5, bl));
      let '(p9, bl) := r in
      if bl =? J_HEADER_SIZE then Ok (p9, lab) else Err EInvalidBoxHeader
    end.

  (* read_json_box / read_cbor_box / read_padding_box / read_jp2c_box / read_brotli_box /
     read_embedded_content_box: (position after, bytes retained); None = the arm's error *)
  Definition jread_plain (buf : bytes) (pos size : N) : option (N * N) :=
    match jread_header buf pos with
    | None => None
    | Some (_, hsize, p1) =>
      if hsize =? 0 then Some (p1, 0)                       (* "bad read, return empty box" *)
      else match (if hsize =? size then Some p1 else seek_back p1 J_HEADER_SIZE) with
           | None => None
           | Some p2 =>
             match checked_sub64 size J_HEADER_SIZE with
             | None => None
             | Some dl => match read_to_vec buf p2 dl with
                          | None => None
                          | Some p3 => Some (p3, dl)
                          end
             end
           end
    end.

  (* read_uuid_box *)
  Definition jread_uuid (buf : bytes) (pos size : N) : option (N * N) :=
    match jread_header buf pos with
    | None => None
    | Some (_, hsize, p1) =>
      if hsize =? 0 then Some (p1, 0)
      else match (if hsize =? size then Some p1 else seek_back p1 J_HEADER_SIZE) with
           | None => None
           | Some p2 =>
             match cread_exact buf p2 16 with
             | None => None
             | Some (_, p3) =>
               match checked_sub64 size (J_HEADER_SIZE + 16) with
               | None => None
               | Some dl => match read_to_vec buf p3 dl with
                            | None => None
                            | Some p4 => Some (p4, dl)
                            end
               end
             end
           end
    end.

  Fixpoint find0 (l : bytes) : option N :=
    match l with
    | [] => None
    | c :: t => if c =? 0 then Some 0 else option_map N.succ (find0 t)
    end.

  (* bytes kept by the `match togs[0]` at the end of read_embedded_media_desc_box (media type + file name) *)
  Definition bfdb_kept (tog : N) (b : bytes) : out jerr N :=
    if tog =? 1 then
      match find0 b with
      | Some p => do l1 <- sub64 dbg SITE_BFDB_LAST (len b) 1; Ok (len b)   (* either (buf, None) or the two halves *)
      | None => Ok (len b)
      end
    else Ok (if last b 1 =? 0 then len b - 1 else len b).

  (* read_embedded_media_desc_box; Err _ = the arm's error *)
  Definition jread_bfdb (buf : bytes) (pos size : N) : out jerr (N * N) :=
    if size <? BFDB_MIN_SIZE then Err EInvalidDescriptionBox else
    match jread_header buf pos with
    | None => Err EInvalidBoxHeader
    | Some (_, hsize, p1) =>
      if hsize =? 0 then Ok (p1, 0)
      else match (if hsize =? size then Some p1 else seek_back p1 J_HEADER_SIZE) with
           | None => Err EIoError
           | Some p2 =>
             match cread_exact buf p2 1 with
             | None => Err EIoError
             | Some (tg, p3) =>
               do d1 <- sub64 dbg SITE_BFDB_LEN size J_HEADER_SIZE;
               do dl <- sub64 dbg SITE_BFDB_LEN d1 J_TOGGLE_SIZE;
               match read_to_vec buf p3 dl with
               | None => Err EInvalidBoxHeader
               | Some p4 =>
                 do k <- bfdb_kept (hd 0 tg) (firstn (N.to_nat dl) (rest buf p3));
                 Ok (p4, k)
               end
             end
           end
    end.

  (* the `_ =>` arm: skip a box of unknown type *)
  Definition jskip_unknown (buf : bytes) (p0 size : N) : out jerr N :=
    match jread_header buf p0 with
    | None => Err EInvalidBoxHeader
    | Some (_, hsize, p1) =>
      if hsize =? 0 then Err EInvalidUnknownBox
      else match (if hsize =? size then Some p1 else seek_back p1 J_HEADER_SIZE) with
           | None => Err EIoError
           | Some p2 =>
             match checked_sub64 size J_HEADER_SIZE with
             | None => Err EInvalidBoxHeader
             | Some dl => match read_to_vec buf p2 dl with
                          | None => Err EInvalidBoxHeader
                          | Some p3 => Ok p3
                          end
             end
           end
    end.

  (* one iteration of the `while found` loop, up to the recursive call *)
  Inductive jstep :=
  | SEnd (p : N)                 (* BoxType::Empty: found = false, then the position check *)
  | SLeaf (p pay : N)            (* a content box was added; the position check runs *)
  | SSkip (p : N)                (* an unknown box was skipped; `continue` bypasses the position check *)
  | SJumb (p0 : N)               (* a nested superbox starts at p0 *)
  | SFail (e : jerr)
  | SPanic (site x y : N).

  Definition leaf (e : jerr) (r : option (N * N)) : jstep :=
    match r with Some (p, a) => SLeaf p a | None => SFail e end.

  Definition jchild_step (buf : bytes) (pos : N) : jstep :=
    match jread_header buf pos with
    | None => SFail EInvalidJumbfHeader
    | Some (name, size, p1) =>
      if name =? 0 then SEnd p1
      else match seek_back p1 J_HEADER_SIZE with
           | None => SFail EIoError
           | Some p0 =>
             if name =? J_JUMB then SJumb p0
             else if name =? J_JSON then leaf EInvalidJsonBox (jread_plain buf p0 size)
             else if name =? J_CBOR then leaf EInvalidCborBox (jread_plain buf p0 size)
             else if name =? J_FREE then leaf EInvalidCborBox (jread_plain buf p0 size)        (* sic *)
             else if name =? J_JP2C then leaf EInvalidJp2cBox (jread_plain buf p0 size)
             else if name =? J_BROB then leaf EInvalidJp2cBox (jread_plain buf p0 size)        (* sic *)
             else if name =? J_UUID then leaf EInvalidUuidBox (jread_uuid buf p0 size)
             else if name =? J_BFDB then
               match jread_bfdb buf p0 size with
               | Ok (p, a) => SLeaf p a
               | Err _ => SFail EInvalidEmbeddedFileBox
               | Panic s x y => SPanic s x y
               | OutOfFuel => SFail EInvalidEmbeddedFileBox
               end
             else if name =? J_BIDB then leaf EInvalidEmbeddedFileBox (jread_plain buf p0 size)
             else match jskip_unknown buf p0 size with
                  | Ok p => SSkip p
                  | Err e => SFail e
                  | Panic s x y => SPanic s x y
                  | OutOfFuel => SFail EInvalidUnknownBox
                  end
           end
    end.

  (* result: (final position, boxes, bytes retained in content boxes, deepest superbox level) *)
  Definition jres := (N * N * N * N)%type.

  (* read_super_box_impl up to its loop: depth check, jumb header, dest_pos, jumd header, description box,
     label check.  (position where the loop starts, dest_pos) *)
  Definition jsuper_head (depth : N) (buf : bytes) (pos : N) : out jerr (N * N) :=
    if MAX_JUMB_DEPTH <=? depth then Err EBoxNestingTooDeep else
    match jread_header buf pos with
    | None => Err EInvalidJumbfHeader
    | Some (name, size, p1) =>
      if name =? 0 then Err EUnexpectedEof
      else if negb (name =? J_JUMB) then Err EInvalidJumbfHeader
      else
        do dest <- (if cadd
                    then match checked_add64 pos size with Some d => Ok d | None => Err EInvalidJumbBox end
                    else add64 dbg SITE_DEST_POS pos size);
        match jread_header buf p1 with
        | None => Err EExpectedJumdError
        | Some (name2, size2, p2) =>
          if negb (name2 =? J_JUMD) then Err EExpectedJumdError else
          match jread_desc buf p2 size2 with
          | Ok (p3, lab) => if negb (has_text lab) then Err EUnexpectedEof else Ok (p3, dest)
          | Err _ => Err EUnexpectedEof
          | Panic s x y => Panic s x y
          | OutOfFuel => OutOfFuel
          end
        end
    end.

  (* BoxReader::read_super_box_impl and its `while found` loop.  Fuel bounds the height of the call tree: one
     unit per call ([jsuper]) and per loop iteration ([jchildren]). *)
  Fixpoint jsuper (fuel : nat) (depth : N) (buf : bytes) (pos : N) {struct fuel} : out jerr jres :=
    match fuel with
    | O => OutOfFuel
    | S f =>
      do r <- jsuper_head depth buf pos;
      let '(p3, dest) := r in jchildren f depth buf p3 dest 1 0 depth
    end
  with jchildren (fuel : nat) (depth : N) (buf : bytes) (pos dest : N) (boxes pay deep : N) {struct fuel}
    : out jerr jres :=
    match fuel with
    | O => OutOfFuel
    | S f =>
      match jchild_step buf pos with
      | SEnd p => if dest <? p then Err EInvalidJumbBox else Ok (p, boxes, pay, deep)
      | SLeaf p a =>
        if p =? dest then Ok (p, boxes + 1, pay + a, deep)
        else if dest <? p then Err EInvalidJumbBox
        else jchildren f depth buf p dest (boxes + 1) (pay + a) deep
      | SSkip p => jchildren f depth buf p dest boxes pay deep
      | SJumb p0 =>
        match jsuper f (depth + 1) buf p0 with
        | Ok (p, b, a, d) =>
          if p =? dest then Ok (p, boxes + b, pay + a, N.max deep d)
          else if dest <? p then Err EInvalidJumbBox
          else jchildren f depth buf p dest (boxes + b) (pay + a) (N.max deep d)
        | Err e => Err e
        | Panic s x y => Panic s x y
        | OutOfFuel => OutOfFuel
        end
      | SFail e => Err e
      | SPanic s x y => Panic s x y
      end
    end.

  (* BoxReader::read_super_box on a fresh Cursor *)
  Definition jread_super_box (fuel : nat) (buf : bytes) : out jerr jres := jsuper fuel 0 buf 0.
End Reader.

(* fuel that is always enough when the loop makes progress (Proofs/C10JumbfProofs.v) *)
Definition jfuel (buf : bytes) : nat := S (S (length buf)).

(* the reader as it stands in the source *)
Definition jread_as_coded (dbg : bool) (buf : bytes) : out jerr jres :=
  jread_super_box SHORT_HEADER_IS_ERROR DEST_POS_IS_CHECKED dbg (jfuel buf) buf.
