(* Model/IngredientImport.v — C39: Builder::add_ingredient_from_stream (ingredient.rs with_stream /
   add_stream_internal / update_validation_status) and the store merge of Ingredient::add_to_claim
   (store.rs Store::load_ingredient_to_claim, claim.rs add_ingredient_data / replace_ingredient_or_insert),
   for claim v2 without redactions.  No proofs.
   A manifest is its label and the identity of its box bytes; a label is a guid with the optional
   `version_reason` suffix of jumbf/labels.rs ManifestParts. *)
From Coq Require Import List NArith Bool Arith.
Import ListNotations.

Definition Label := (nat * option (nat * option nat))%type.      (* guid, version, reason *)
Definition label_eqb (a b : Label) : bool :=
  Nat.eqb (fst a) (fst b) &&
  match snd a, snd b with
  | None, None => true
  | Some (v, r), Some (v', r') =>
      Nat.eqb v v' && match r, r' with None, None => true | Some x, Some y => Nat.eqb x y | _, _ => false end
  | _, _ => false
  end.
Definition label_version (l : Label) : option nat := option_map fst (snd l).

Record Mf := mkMf { mf_label : Label; mf_bytes : nat }.

Fixpoint find (l : Label) (s : list Mf) : option Mf :=
  match s with
  | [] => None
  | m :: t => if label_eqb l (mf_label m) then Some m else find l t
  end.

(* Claim::replace_ingredient_or_insert: HashMap insert + order list *)
Definition replace_or_insert (m : Mf) (s : list Mf) : list Mf :=
  match find (mf_label m) s with
  | Some _ => map (fun x => if label_eqb (mf_label m) (mf_label x) then m else x) s
  | None => s ++ [m]
  end.

(* potential_conflicts: incoming manifests whose label is already present with different box bytes *)
Definition conflicting (cur : list Mf) (i : Mf) : bool :=
  match find (mf_label i) cur with
  | Some c => negb (Nat.eqb (mf_bytes c) (mf_bytes i))
  | None => false
  end.

Definition max_version (s : list Mf) : option nat :=
  fold_left (fun acc m => match label_version (mf_label m), acc with
                          | Some v, Some a => Some (Nat.max a v)
                          | Some v, None => Some v
                          | None, a => a
                          end) s None.

Inductive mres := MOk (s : list Mf) | MErrLabelMalformed.

(* CONFLICTING_MANIFEST = 1 *)
Definition relabel (l : Label) (v : nat) : Label := (fst l, Some (v, Some 1)).

(* the conflict loop (no redaction differences): a relabelled copy of the incoming manifest is added under the next
   free version; without any versioned label in the claim's ingredient store the call fails *)
Fixpoint resolve (cur : list Mf) (cs : list Mf) : mres :=
  match cs with
  | [] => MOk cur
  | c :: t =>
      match max_version cur with
      | None => MErrLabelMalformed
      | Some v => resolve (replace_or_insert (mkMf (relabel (mf_label c) (S v)) (mf_bytes c)) cur) t
      end
  end.

(* Store::load_ingredient_to_claim: conflicts first, then every incoming manifest replaces or extends the store *)
Definition load_ingredient (cur inc : list Mf) : mres :=
  match resolve cur (filter (conflicting cur) inc) with
  | MErrLabelMalformed => MErrLabelMalformed
  | MOk cur' => MOk (fold_left (fun s m => replace_or_insert m s) inc cur')
  end.

(* ---- ingredient creation ---- *)
Inductive vstate := Invalid | Valid | Trusted.
Record ReadM := mkRead { rd_state : vstate; rd_failures : list nat; rd_successes : list nat; rd_info : list nat }.

Record IngredientM := mkIngr {
  ig_manifest_data : option (list Mf);     (* the ingredient asset's manifest store, in order; last = active *)
  ig_active : option Label;
  ig_validation : option ReadM
}.

Section Import.
  Variable Asset : Type.
  Variable store_of : Asset -> option (list Mf).    (* Store::load_jumbf_from_stream: None = JumbfNotFound *)
  Variable validate : Asset -> list Mf -> ReadM.    (* Store::from_manifest_data_and_stream + ValidationResults::from_store *)

  (* a standalone Reader on the asset *)
  Definition standalone_read (a : Asset) : option ReadM :=
    match store_of a with Some st => Some (validate a st) | None => None end.

  (* Ingredient::with_stream -> add_stream_internal -> update_validation_status *)
  Definition add_ingredient_from_stream (a : Asset) : IngredientM :=
    match store_of a with
    | None => mkIngr None None None
    | Some st => mkIngr (Some st) (option_map mf_label (last (map Some st) None)) (Some (validate a st))
    end.

  (* Ingredient::add_to_claim: the parent's ingredient store after this ingredient *)
  Definition add_to_claim (cur : list Mf) (i : IngredientM) : mres :=
    match ig_manifest_data i with
    | None => MOk cur
    | Some st => load_ingredient cur st
    end.

  Definition import (cur : list Mf) (a : Asset) : mres * IngredientM :=
    let i := add_ingredient_from_stream a in (add_to_claim cur i, i).
End Import.

(* evaluation helper for the correspondence run *)
Fixpoint import_all (cur : list Mf) (stores : list (option (list Mf))) : mres :=
  match stores with
  | [] => MOk cur
  | None :: t => import_all cur t
  | Some st :: t => match load_ingredient cur st with MOk c => import_all c t | e => e end
  end.
Definition c39_eval (stores : list (option (list Mf))) :=
  match import_all [] stores with
  | MOk s => Some (map (fun m => (mf_label m, mf_bytes m)) s)
  | MErrLabelMalformed => None
  end.
