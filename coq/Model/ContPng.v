(* Model/ContPng.v — transcription of sdk/src/asset_handlers/png_io.rs (get_png_chunk_positions,
   get_cai_data, write_cai, get_object_locations_from_stream, remove_cai_store_from_stream) and of
   c2pa_io.rs.  Chunks carry their CRC as an opaque 4-byte field (the walker never checks it); the
   CRC of the new caBX chunk is a section parameter, instantiated by [crc32] for evaluation.
   The handler splices byte ranges of the input; the model re-encodes the parsed chunk list, which
   is the same bytes because [png_enc] of the parsed list is the input (Proofs/ContPngProofs.v). *)
From Coq Require Import List NArith Bool.
From C2PA Require Import Base.Bytes Model.Container.
Import ListNotations.
Open Scope N_scope.

(* ---------------- .c2pa: the file is the manifest store ---------------- *)
Definition c2pa_write (a b : bytes) : res bytes := ROk b.
Definition c2pa_read (a : bytes) : res bytes := nonempty_or_notfound (ROk a).
Definition c2pa_remove (a : bytes) : res bytes := ROk [].

Definition c2pa_format : format :=
  Format bytes (fun l => map (fun _ => true) l) (fun b => [b])
         (fun l => nonempty_or_notfound (ROk (concat l))) (fun _ => O) (fun s => s).

(* ---------------- CRC-32 (zlib), bitwise ---------------- *)
Definition crc_step (c : N) : N :=
  if N.testbit c 0 then N.lxor (N.shiftr c 1) 3988292384 else N.shiftr c 1.
Definition crc_byte (c x : N) : N :=
  crc_step (crc_step (crc_step (crc_step (crc_step (crc_step (crc_step (crc_step (N.lxor c x)))))))).
Definition crc32 (l : bytes) : N := N.lxor (fold_left crc_byte l 4294967295) 4294967295.

(* ---------------- String::from_utf8 on a byte string ---------------- *)
Definition cont (x : N) : bool := (128 <=? x) && (x <=? 191).
Fixpoint utf8_valid_f (fuel : nat) (l : bytes) : bool :=
  match fuel with
  | O => true
  | S f =>
    match l with
    | [] => true
    | a :: t =>
      if a <? 128 then utf8_valid_f f t
      else if (194 <=? a) && (a <=? 223) then
        match t with b :: t' => cont b && utf8_valid_f f t' | _ => false end
      else if (224 <=? a) && (a <=? 239) then
        match t with
        | b :: c :: t' =>
          (if a =? 224 then (160 <=? b) && (b <=? 191)
           else if a =? 237 then (128 <=? b) && (b <=? 159) else cont b)
          && cont c && utf8_valid_f f t'
        | _ => false
        end
      else if (240 <=? a) && (a <=? 244) then
        match t with
        | b :: c :: d :: t' =>
          (if a =? 240 then (144 <=? b) && (b <=? 191)
           else if a =? 244 then (128 <=? b) && (b <=? 143) else cont b)
          && cont c && cont d && utf8_valid_f f t'
        | _ => false
        end
      else false
    end
  end.
Definition utf8_valid (l : bytes) : bool := utf8_valid_f (length l) l.

(* ---------------- PNG ---------------- *)
Record chunk := Chunk { cname : bytes; cdata : bytes; ccrc : bytes }.

Definition PNG_SIG : bytes := [137; 80; 78; 71; 13; 10; 26; 10].
Definition CABX : bytes := [99; 97; 66; 88].
Definition IHDR : bytes := [73; 72; 68; 82].
Definition IEND : bytes := [73; 69; 78; 68].
Definition PNG_HDR_LEN : N := 12.

Definition is_cabx (c : chunk) : bool := beq (cname c) CABX.
Definition is_ihdr (c : chunk) : bool := beq (cname c) IHDR.

Definition enc_chunk (c : chunk) : bytes := be 4 (len (cdata c)) ++ cname c ++ cdata c ++ ccrc c.
Definition png_enc (cs : list chunk) (trailer : bytes) : bytes :=
  PNG_SIG ++ concat (map enc_chunk cs) ++ trailer.

(* the loop of get_png_chunk_positions after the signature; stops after IEND, the rest is the trailer.
   Every failure of the loop is Error::InvalidAsset. *)
Fixpoint png_chunks (fuel : nat) (b : bytes) : res (list chunk * bytes) :=
  match fuel with
  | O => RErr EInvalidAsset
  | S f =>
    if len b <? 8 then RErr EInvalidAsset
    else
      let n := de (firstn 4 b) in
      let name := slice b 4 4 in
      let rest := skipn 8 b in
      if len rest <? n + 4 then RErr EInvalidAsset
      else
        let nn := N.to_nat n in
        let c := Chunk name (firstn nn rest) (slice rest nn 4) in
        let rest' := skipn (nn + 4) rest in
        if negb (utf8_valid name) then RErr EInvalidAsset
        else if beq name IEND then ROk ([c], rest')
        else match png_chunks f rest' with
             | ROk (cs, t) => ROk (c :: cs, t)
             | RErr e => RErr e
             end
  end.

Definition png_dec (a : bytes) : res (list chunk * bytes) :=
  if len a <? 8 then RErr EIoError
  else if negb (beq (firstn 8 a) PNG_SIG) then RErr ESignature
  else png_chunks (length a) (skipn 8 a).

(* get_cai_data on the chunk list *)
Definition png_payload (cs : list chunk) : res bytes :=
  if Nat.ltb 1 (count is_cabx cs) then RErr ETooManyManifestStores
  else match find is_cabx cs with
       | Some c => nonempty_or_notfound (ROk (cdata c))
       | None => RErr EJumbfNotFound
       end.

Definition png_read (a : bytes) : res bytes :=
  rbind (png_dec a) (fun p => png_payload (fst p)).

Inductive kind := KCai | KXmp | KOther | KOtherExclusion.

Definition chunk_start (cs : list chunk) (j : nat) : N :=
  8 + len (concat (map enc_chunk (firstn j cs))).

Section Crc.
  Variable crc : bytes -> N.

  Definition mk_cabx (b : bytes) : chunk := Chunk CABX b (be 4 (crc (CABX ++ b))).

  (* write_cai on the chunk list: three splice cases *)
  Definition png_write_chunks (cs : list chunk) (b : bytes) : res (list chunk) :=
    match find_index is_ihdr cs with
    | None => RErr EEmbeddingError
    | Some k =>
      let new := mk_cabx b in
      match find_index is_cabx cs with
      | Some j =>
        if Nat.ltb j k
        then (* existing caBX before IHDR: drop it, insert after IHDR *)
          ROk (firstn j cs ++ slice cs (S j) (k - j) ++ [new] ++ skipn (S k) cs)
        else (* existing caBX after IHDR: insert after IHDR, skip the old one *)
          ROk (firstn (S k) cs ++ [new] ++ slice cs (S k) (j - S k) ++ skipn (S j) cs)
      | None => ROk (firstn (S k) cs ++ [new] ++ skipn (S k) cs)
      end
    end.

  Definition png_write (a b : bytes) : res bytes :=
    rbind (png_dec a) (fun p =>
    rbind (png_write_chunks (fst p) b) (fun cs' => ROk (png_enc cs' (snd p)))).

  Definition png_format : format :=
    Format chunk (map is_cabx) (fun b => [mk_cabx b]) png_payload
           (fun l => match find_index is_ihdr (select false l (map is_cabx l)) with
                     | Some k => S k | None => O end)
           enc_chunk.
End Crc.

Definition png_remove_chunks (cs : list chunk) : list chunk :=
  match find_index is_cabx cs with
  | Some j => remove_nth j cs
  | None => cs
  end.

Definition png_remove (a : bytes) : res bytes :=
  rbind (png_dec a) (fun p =>
    match find_index is_cabx (fst p) with
    | Some j => ROk (png_enc (remove_nth j (fst p)) (snd p))
    | None => ROk a
    end).

(* get_object_locations_from_stream: [Cai; Other before; Other after] *)
Definition png_locations (a : bytes) : res (list (N * N * kind)) :=
  rbind (png_dec a) (fun p =>
    let cs := fst p in
    let mkl start dlen file_end :=
      let e := start + dlen + PNG_HDR_LEN in
      ROk [(start, dlen + PNG_HDR_LEN, KCai); (0, start, KOther); (e, file_end - e, KOther)] in
    match find_index is_cabx cs with
    | Some j => mkl (chunk_start cs j) (len (cdata (nth j cs (Chunk [] [] [])))) (len a)
    | None =>
      match find_index is_ihdr cs with
      | None => RErr EEmbeddingError
      | Some k => mkl (chunk_start cs (S k)) 0 (len a + PNG_HDR_LEN)
      end
    end).
