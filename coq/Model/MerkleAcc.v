(* Model/MerkleAcc.v — executable transcription of
     sdk/src/utils/merkle.rs         :: MerkleAccumulator::add_merkle_leaf (empty-chunk early return, the header skip
                                        spread over the first chunks through `header_skipped`, fixed-size buffering
                                        with remainders, variable mode), set_fixed_size
     sdk/src/builder.rs              :: Builder::update_hash_from_stream (flush of the pending remainders)
     sdk/src/assertions/bmff_hash.rs :: MerkleMap::create_mms_from_mdat_leaves, and the per-mdat part of
                                        BmffHash::validate_merkle_maps_mdat_boxes (ranges from start + 16, leaf checks)
   No proofs here.  A recorded leaf carries its *content* where the code stores hash(content): equal contents give
   equal digests, so acceptance in this model implies acceptance by the code for any hash function. *)
From Coq Require Import List NArith Bool Arith.
From C2PA Require Import Base.Bytes Model.Merkle Generated.C17_facts.
Import ListNotations.
Open Scope N_scope.

Inductive aerr := AIo | AOther | ABadParam.
Inductive ares (A : Type) := AOk (a : A) | AErr (e : aerr).
Arguments AOk {A} a.
Arguments AErr {A} e.

Definition leaf := (N * bytes)%type.          (* (recorded length, content) *)

(* the entries of `merkle_leaves`, `fixed_size_remainder` and `header_skipped` for one mdat_id; None = key absent
   (an absent `header_skipped` entry is 0: `.entry(id).or_insert(0)`) *)
Record mstate := MS { leaves : option (list leaf); rem : option bytes; skipped : N }.
Definition fresh_state : mstate := MS None None 0.

Definition is_none {A} (o : option A) : bool := match o with None => true | Some _ => false end.

(* `.entry(id).and_modify(|l| l.push(x)).or_insert(vec![x])` *)
Definition push_leaf (l : option (list leaf)) (x : leaf) : option (list leaf) :=
  match l with Some v => Some (v ++ [x]) | None => Some [x] end.

(* the `loop` of the fixed-size branch.  [cur] is what the Cursor has not yet delivered, [data_left]/[data_len]
   are the two counters of the code (the remainder branch uses data_len, not data_left).  read_exact fails with
   an I/O error when fewer than to_copy bytes are left. *)
Fixpoint fixed_loop (fuel : nat) (fs : N) (st : mstate) (cur : bytes) (data_left data_len : N) : ares mstate :=
  match fuel with
  | O => AErr AOther
  | S fuel' =>
      match rem st with
      | Some buf =>
          let to_copy := N.min (fs - len buf) data_len in
          if len cur <? to_copy then AErr AIo
          else
            let buf' := buf ++ firstn (N.to_nat to_copy) cur in
            if len buf' =? fs
            then fixed_loop fuel' fs (MS (push_leaf (leaves st) (fs, buf')) None (skipped st))
                            (skipn (N.to_nat to_copy) cur) (data_left - to_copy) data_len
            else AOk (MS (leaves st) (Some buf') (skipped st))
      | None =>
          let to_copy := N.min fs data_left in
          if to_copy =? 0 then AOk st
          else if len cur <? to_copy then AErr AIo
          else if to_copy <? fs then AOk (MS (leaves st) (Some (firstn (N.to_nat to_copy) cur)) (skipped st))
          else fixed_loop fuel' fs (MS (push_leaf (leaves st) (fs, firstn (N.to_nat to_copy) cur)) None (skipped st))
                          (skipn (N.to_nat to_copy) cur) (data_left - to_copy) data_len
      end
  end.

(* add_merkle_leaf for one mdat_id; [fixed] is `self.fixed_size` in bytes *)
Definition add_leaf (fixed : option N) (st : mstate) (large : bool) (data : bytes) : ares mstate :=
  let data_len := len data in
  if data_len =? 0 then AOk st                                      (* `if data.is_empty() { return Ok(()) }` *)
  else
    let first := negb large && is_none (leaves st) && is_none (rem st) in
    let to_skip := if first then N.min (HEADER_SKIP - skipped st) data_len else 0 in
    let st1 := if first then MS (leaves st) (rem st) (skipped st + to_skip) else st in
    if first && (to_skip =? data_len) then AOk st1                   (* the whole chunk lies in the excluded prefix *)
    else
      let hash_start := to_skip in
      match fixed with
      | Some fs =>
          fixed_loop (S (length data)) fs st1 (skipn (N.to_nat hash_start) data) (data_len - hash_start) data_len
      | None =>
          AOk (MS (push_leaf (leaves st1) (data_len - hash_start, skipn (N.to_nat hash_start) data)) (rem st1) (skipped st1))
      end.

(* a caller feeding one mdat chunk by chunk *)
Fixpoint run_chunks (fixed : option N) (large : bool) (cs : list bytes) (st : mstate) : ares mstate :=
  match cs with
  | [] => AOk st
  | c :: t => match add_leaf fixed st large c with
              | AOk st' => run_chunks fixed large t st'
              | AErr e => AErr e
              end
  end.

(* set_fixed_size(kb) *)
Definition fixed_of_kb (kb : N) : N := kb * KB.

(* several mdats: association list keyed by mdat_id (BTreeMap / HashMap; an absent key is the fresh state) *)
Definition accmap := list (N * mstate).
Definition acc_get (m : accmap) (id : N) : mstate :=
  match find (fun p => fst p =? id) m with Some p => snd p | None => fresh_state end.
Definition acc_set (m : accmap) (id : N) (st : mstate) : accmap :=
  (id, st) :: filter (fun p => negb (fst p =? id)) m.
Fixpoint acc_run (fixed : option N) (calls : list (N * bool * bytes)) (m : accmap) : accmap * option (nat * aerr) :=
  match calls with
  | [] => (m, None)
  | (id, large, data) :: t =>
      match add_leaf fixed (acc_get m id) large data with
      | AOk st => let (m', e) := acc_run fixed t (acc_set m id st) in
                  (m', match e with Some (k, x) => Some (S k, x) | None => None end)
      | AErr e => (m, Some (O, e))
      end
  end.

(* update_hash_from_stream: every pending remainder becomes the last leaf of its mdat (the remainder is not cleared) *)
Definition flush (st : mstate) : mstate :=
  match rem st with
  | Some b => MS (push_leaf (leaves st) (len b, b)) (rem st) (skipped st)
  | None => st
  end.
Definition final_leaves (st : mstate) : list leaf :=
  match leaves (flush st) with Some l => l | None => [] end.

(* digest stand-ins (injective, like the hash): the accumulator hashes a leaf with hash_by_alg, which swallows the
   "no data" error of an empty input and yields an EMPTY digest; the validator hashes a range of the asset with
   hash_stream_by_alg, which yields a real digest also for a zero-length range *)
Definition leaf_digest (c : bytes) : bytes := match c with [] => [] | _ => 0%N :: c end.
Definition range_digest (p : bytes) : bytes := 0%N :: p.

(* create_mms_from_mdat_leaves, one map *)
Record mmap := MM { mm_count : N; mm_hashes : list bytes; mm_fixed : option N; mm_var : option (list N) }.
Definition nsum (l : list N) : N := fold_right N.add 0 l.
Definition create_mm (fixed : option N) (l : list leaf) : ares mmap :=
  match fixed with
  | Some fs => if fs =? 0 then AErr ABadParam
               else AOk (MM (len l) (map (fun lf => leaf_digest (snd lf)) l) (Some (N.min (nsum (map fst l)) fs)) None)
  | None => AOk (MM (len l) (map (fun lf => leaf_digest (snd lf)) l) None (Some (map fst l)))
  end.

(* validate_merkle_maps_mdat_boxes for one mdat box [box] (header and payload) without UUID proof boxes *)
Inductive verr := VHashMismatch | VValidation.
Inductive vres (A : Type) := VOk (a : A) | VErr (e : verr).
Arguments VOk {A} a.
Arguments VErr {A} e.

Fixpoint split_by (sizes : list N) (r : bytes) : list bytes :=
  match sizes with
  | [] => []
  | s :: t => firstn (N.to_nat s) r :: split_by t (skipn (N.to_nat s) r)
  end.

Definition validator_pieces (box : bytes) (mm : mmap) : vres (list bytes) :=
  let r := skipn (N.to_nat MDAT_EXCLUSION_SIZE) box in       (* start + 16, size.saturating_sub(16) *)
  match mm_fixed mm, mm_var mm with
  | Some _, Some _ => VErr VValidation
  | Some fbs, None =>
      if fbs <=? MIN_FIXED_BLOCK_EXCL then VErr VHashMismatch
      else VOk (chunks (length r) (N.to_nat fbs) r)
  | None, Some vs =>
      if len r =? nsum vs then VOk (split_by vs r) else VErr VValidation
  | None, None => VOk [r]
  end.

Fixpoint check_pieces (count : N) (row : list bytes) (i : nat) (ps : list bytes) : bool :=
  match ps with
  | [] => true
  | p :: t =>
      check_merkle_tree Hsym (N.to_nat count) row (range_digest p) (N.of_nat i) None && check_pieces count row (S i) t
  end.

Definition validate_mdat (box : bytes) (mm : mmap) : vres unit :=
  match validator_pieces box mm with
  | VErr e => VErr e
  | VOk ps =>
      if negb (len ps =? mm_count mm) then VErr VValidation
      else if (len (mm_hashes mm) =? 1) && (1 <? mm_count mm)
      then (* root-only storage: rebuild the tree from the chunk hashes and compare the root *)
           if hash_check (mm_hashes mm) 0 (nth 0 (last (gen_tree Hsym (map range_digest ps)) []) []) then VOk tt else VErr VHashMismatch
      else if check_pieces (mm_count mm) (mm_hashes mm) 0 ps then VOk tt else VErr VHashMismatch
  end.
