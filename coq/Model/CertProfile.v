(* Model/CertProfile.v — sdk/src/crypto/cose/certificate_profile.rs, branch by branch, over a record of the
   certificate features the code reads through x509-parser (DER parsing itself is outside the model).

   check_certificate_profile / check_end_entity_certificate_profile return Err after logging at most one item;
   several exits return Err *without* logging (the `?` on map_err in the RSASSA-PSS parameter parser, EC
   parameters that are not an OID, an RSA key that does not parse, a duplicated EKU extension).  The caller
   (Verifier::verify_signature) discards the Err (`.ok()`), so only the logged code is ever observed: the model
   returns the branch taken, [branch_code] gives the logged validation code, if any.

   Constants (accepted algorithm / curve / hash OIDs, RSA minimum, default EKUs, whether the self-signed rule
   asks for the CA flag) come from Generated/C06_facts.v, regenerated from the source on every run. *)
From Coq Require Import List NArith ZArith Bool.
From C2PA Require Import Generated.C06_facts.
Import ListNotations.

Definition oid := list N.

Fixpoint oid_eqb (a b : oid) : bool :=
  match a, b with
  | [], [] => true
  | x :: a', y :: b' => N.eqb x y && oid_eqb a' b'
  | _, _ => false
  end.

Definition oid_mem (o : oid) (l : list oid) : bool := existsb (oid_eqb o) l.

(* signature_algorithm.parameters of an RSASSA-PSS signature as the hand-written parser sees them *)
Inductive pss_params :=
| PssAbsent                                (* parameters = None: logged "missing algorithm parameters" *)
| PssUnparsable                            (* any `map_err(..InvalidCertificate)?` / `ok_or(..)?` exit: not a SEQUENCE, no [0] hashAlgorithm or
                                              no [1] maskGenAlgorithm (DER omits the SHA-1 defaults), MGF parameters missing / not an OID *)
| PssParsed (hash mgf_hash : oid).

Inductive ec_params := EcNamed (curve : oid) | EcNotOid | EcNoParams.

Inductive spki :=
| SpkiEc (p : ec_params)                    (* algorithm = id-ecPublicKey *)
| SpkiRsa (modulus_bits : option N)         (* rsaEncryption or RSASSA-PSS key; None: the key does not parse as SEQUENCE { INTEGER, .. } *)
| SpkiOtherKey.                             (* anything else (Ed25519, Ed448, DSA ..): no key check at all *)

Record eku := {
  eku_any : bool; eku_server_auth : bool; eku_client_auth : bool; eku_code_signing : bool;
  eku_email_protection : bool; eku_time_stamping : bool; eku_ocsp_signing : bool; eku_other : list oid }.

Inductive eku_lookup := EkuAbsent | EkuDuplicate (* extended_key_usage() = Err *) | EkuPresent (e : eku).

Record key_usage := { ku_digital_signature : bool; ku_non_repudiation : bool; ku_key_cert_sign : bool }.

Inductive ext_kind :=
| XAki | XSki | XKeyUsage (ku : key_usage)
| XHandled       (* CertificatePolicies, PolicyMappings, SubjectAlternativeName, BasicConstraints, NameConstraints, PolicyConstraints,
                    ExtendedKeyUsage, CRLDistributionPoints, InhibitAnyPolicy, AuthorityInfoAccess, NSCertType, CRLNumber, ReasonCode, InvalidityDate *)
| XUnparsed      (* ParsedExtension::Unparsed *)
| XOther.        (* every other variant: UnsupportedExtension, ParseError, IssuerAlternativeName, SubjectInfoAccess, SCT, .. *)

Record ext := { x_kind : ext_kind; x_critical : bool }.

Record cert := {
  c_parse_ok : bool;            (* X509Certificate::from_der succeeds *)
  c_version : N;                (* raw version field: 0 = v1, 1 = v2, 2 = v3 *)
  c_not_before : Z; c_not_after : Z;    (* seconds since the epoch *)
  c_sig_alg : oid; c_pss : pss_params;
  c_spki : spki;
  c_is_ca : bool;               (* basicConstraints present (unique) with cA = TRUE *)
  c_self_issued : bool;         (* issuer = subject *)
  c_issuer_uid : bool; c_subject_uid : bool;
  c_eku : eku_lookup;
  c_exts : list ext }.

Inductive branch :=
| BParse | BVersion | BExpired | BSigAlg
| BPssUnparsable | BPssMismatch | BPssHash | BPssMissing
| BCurve | BEcParams | BRsaKey | BKeyLen
| BSelfSigned | BUniqueId
| BEkuDuplicate | BEkuAny | BEkuMissing | BEkuSet
| BKuCertSign | BParams | BCa.

Inductive outcome := POk | PFail (b : branch).

Inductive code := CInvalid | CExpired.     (* signingCredential.invalid / signingCredential.expired *)

(* the validation code logged on each exit; None: Err returned, nothing logged *)
Definition branch_code (b : branch) : option code :=
  match b with
  | BExpired => Some CExpired
  | BPssUnparsable | BEcParams | BRsaKey | BEkuDuplicate =>
    if QUIET_EXITS_LOGGED then Some CInvalid else None   (* false: the code as found; true: a wrapper logs these exits *)
  | _ => Some CInvalid
  end.

(* CertificateTrustPolicy::has_allowed_eku *)
Definition has_allowed_eku (additional : list oid) (e : eku) : option oid :=
  if eku_email_protection e then Some EMAIL_PROTECTION_OID
  else if eku_time_stamping e then Some TIMESTAMPING_OID
  else if eku_ocsp_signing e then Some OCSP_SIGNING_OID
  else find (fun o => oid_mem o additional) (eku_other e).

Definition is_empty {A} (l : list A) : bool := match l with [] => true | _ => false end.

(* "one or the other || either of these two, and no others" *)
Definition eku_bad_set (e : eku) : bool :=
  (eku_ocsp_signing e && eku_time_stamping e)
  || (xorb (eku_ocsp_signing e) (eku_time_stamping e)
      && (eku_client_auth e || eku_code_signing e || eku_email_protection e || eku_server_auth e
          || negb (is_empty (eku_other e)))).

Definition valid_at (c : cert) (t : Z) : bool := (c_not_before c <=? t)%Z && (t <=? c_not_after c)%Z.

Record flags := { aki_good : bool; ski_good : bool; key_usage_good : bool; handled_all_critical : bool }.

(* the loop over signcert.extensions(); None = the early return "certificate missing digitalSignature EKU" *)
Fixpoint scan_exts (is_ca : bool) (xs : list ext) (st : flags) : option flags :=
  match xs with
  | [] => Some st
  | x :: r =>
    match x_kind x with
    | XAki => scan_exts is_ca r {| aki_good := true; ski_good := ski_good st; key_usage_good := key_usage_good st;
                                  handled_all_critical := handled_all_critical st |}
    | XSki => scan_exts is_ca r {| aki_good := aki_good st; ski_good := true; key_usage_good := key_usage_good st;
                                  handled_all_critical := handled_all_critical st |}
    | XKeyUsage ku =>
      if ku_digital_signature ku && ku_key_cert_sign ku && negb is_ca then None
      else
        let g1 := if ku_digital_signature ku then true else key_usage_good st in
        let g2 := if ku_key_cert_sign ku || ku_non_repudiation ku then true else g1 in
        scan_exts is_ca r {| aki_good := aki_good st; ski_good := ski_good st; key_usage_good := g2;
                             handled_all_critical := handled_all_critical st |}
    | XHandled => scan_exts is_ca r st
    | XUnparsed | XOther =>
      scan_exts is_ca r {| aki_good := aki_good st; ski_good := ski_good st; key_usage_good := key_usage_good st;
                           handled_all_critical := if x_critical x then false else handled_all_critical st |}
    end
  end.

Definition init_flags : flags :=
  {| aki_good := false; ski_good := false; key_usage_good := false; handled_all_critical := true |}.

(* the self-signed rule as written: `tbscert.is_ca() && issuer == subject` (SELFSIGNED_ONLY_CA = true) *)
Definition self_signed_rule (c : cert) : bool :=
  (if SELFSIGNED_ONLY_CA then c_is_ca c else true) && c_self_issued c.

(* check_certificate_profile(cert, ctp, log, tst_info): [ekus] = ctp.additional_ekus, [tst] = time-stamp genTime, [now] = SystemTime::now() *)
Definition check_certificate_profile (c : cert) (ekus : list oid) (tst : option Z) (now : Z) : outcome :=
  if negb (c_parse_ok c) then PFail BParse else
  if negb (N.eqb (c_version c) 2) then PFail BVersion else
  if negb (valid_at c (match tst with Some t => t | None => now end)) then PFail BExpired else
  if negb (oid_mem (c_sig_alg c) ALLOWED_SIG_ALGS) then PFail BSigAlg else
  match (if oid_eqb (c_sig_alg c) RSASSA_PSS_OID then
           match c_pss c with
           | PssAbsent => Some BPssMissing
           | PssUnparsable => Some BPssUnparsable
           | PssParsed h m =>
             if negb (oid_eqb h m) then Some BPssMismatch
             else if negb (oid_mem h ALLOWED_PSS_HASHES) then Some BPssHash else None
           end
         else None) with
  | Some b => PFail b
  | None =>
  match (match c_spki c with
         | SpkiEc (EcNamed cv) => if negb (oid_mem cv ALLOWED_CURVES) then Some BCurve else None
         | SpkiEc EcNotOid => Some BEcParams
         | SpkiEc EcNoParams => Some BEcParams
         | SpkiRsa None => Some BRsaKey
         | SpkiRsa (Some bits) => if N.ltb bits MIN_RSA_BITS then Some BKeyLen else None
         | SpkiOtherKey => None
         end) with
  | Some b => PFail b
  | None =>
  if self_signed_rule c then PFail BSelfSigned else
  if c_issuer_uid c || c_subject_uid c then PFail BUniqueId else
  match (match c_eku c with
         | EkuDuplicate => inr BEkuDuplicate
         | EkuPresent e =>
           if eku_any e then inr BEkuAny
           else match has_allowed_eku ekus e with
                | None => inr BEkuMissing
                | Some _ => if eku_bad_set e then inr BEkuSet else inl true
                end
         | EkuAbsent => inl (c_is_ca c)
         end) with
  | inr b => PFail b
  | inl extended_key_usage_good =>
    match scan_exts (c_is_ca c) (c_exts c) init_flags with
    | None => PFail BKuCertSign
    | Some st =>
      let ski := if c_is_ca c then ski_good st else true in
      if aki_good st && ski && key_usage_good st && extended_key_usage_good && handled_all_critical st
      then POk else PFail BParams
    end
  end end end.

(* check_end_entity_certificate_profile: the generic check, a second parse of the same bytes, then the CA test *)
Definition check_end_entity_certificate_profile (c : cert) (ekus : list oid) (tst : option Z) (now : Z) : outcome :=
  match check_certificate_profile c ekus tst now with
  | PFail b => PFail b
  | POk => if negb (c_parse_ok c) then PFail BParse else if c_is_ca c then PFail BCa else POk
  end.

(* what the profile step leaves in the validation log *)
Definition profile_log (o : outcome) : list code :=
  match o with
  | POk => []
  | PFail b => match branch_code b with Some k => [k] | None => [] end
  end.
