(* Model/Embeddable.v — C15: size contract of Builder::placeholder / Builder::sign_embeddable for
   data-hash formats.  The JUMBF length is K + (CBOR size of the DataHash exclusion list), where K
   collects everything that is identical in the placeholder and in the signed manifest (claim,
   other assertions, reserved signature box, box headers, name/alg/hash/pad fields of the DataHash).
   No proofs here. *)
From Coq Require Import List NArith Bool.
Import ListNotations.
Open Scope N_scope.

(* size of a CBOR head (major type + argument) for argument n; an unsigned integer is just its head *)
Definition chead (n : N) : N :=
  if n <? 24 then 1 else if n <? 256 then 2 else if n <? 65536 then 3 else if n <? 4294967296 then 5 else 9.

Definition excl := (N * N)%type.    (* HashRange {start, length}; bmff_offset is #[serde(skip)] *)

(* map(2) head + text "start" (1+5) + uint + text "length" (1+6) + uint *)
Definition excl_size (r : excl) : N := 1 + 6 + chead (fst r) + 7 + chead (snd r).

Fixpoint sum_sizes (l : list excl) : N :=
  match l with [] => 0 | r :: t => excl_size r + sum_sizes t end.

(* array head + entries *)
Definition excls_size (l : list excl) : N := chead (N.of_nat (length l)) + sum_sizes l.

(* Builder::placeholder: `for _ in 0..10 { ph.add_exclusion(HashRange::new(0, 2)) }` — count and values from C15_facts *)
Definition dummy_list (count : nat) (start len : N) : list excl := repeat (start, len) count.

Definition jumbf_len (K : N) (ex : list excl) : N := K + excls_size ex.

Inductive sres := SOk (n : N) | SErr.

(* Builder::sign_embeddable, Mode 1 (placeholder_jumbf_len = Some plen).
   [rejects_longer]: the signed JUMBF being longer than the placeholder is an error (generated fact);
   without it the code returns the longer bytes unchanged. *)
Definition sign_embeddable (rejects_longer : bool) (plen j : N) : sres :=
  if rejects_longer && (plen <? j) then SErr
  else if j <? plen then SOk plen          (* jumbf.resize(len, 0) *)
  else SOk j.

Definition workflow (rejects_longer : bool) (dummies : list excl) (K : N) (ex : list excl) : sres :=
  sign_embeddable rejects_longer (jumbf_len K dummies) (jumbf_len K ex).
