(* Model/Progress.v — progress checkpoints and cancellation (C23).
   Transcription of
     sdk/src/context.rs   :: Context::check_progress            -> [Tick]
     the `?` operator                                            -> [Seq]
     for-loops around a checkpoint (hash chunks, OCSP requests)  -> [Loop]
     "log the error as a validation status and continue" idioms  -> [Catch]
        claim.rs   verify_hash_binding   `Err(e) => log_item!(..).failure(..)?`   (three arms)
        crypto/ocsp/fetch.rs             `check_progress(..).ok()?`
        ingredient.rs update_validation_status  `Err(e) => { .. Ok(()) }`
     store.rs verify_store_strict (Ok + failures logged => Err(InvalidManifest)) -> [Strict]
   and of the read / sign / ingredient pipelines as terms of that language, following the
   check_progress call sites (reader.rs, store.rs, claim.rs, builder.rs, crypto/ocsp/fetch.rs).
   No proofs here. *)
From Coq Require Import List NArith Bool.
Import ListNotations.
Open Scope N_scope.

Inductive phase :=
  | Reading | VerifyingManifest | VerifyingSignature | VerifyingIngredient | VerifyingAssetHash
  | AddingIngredient | Thumbnail | Hashing | Signing | Embedding | FetchingRemoteManifest
  | Writing | FetchingOCSP | FetchingTimestamp.

Definition phase_eqb (a b : phase) : bool :=
  match a, b with
  | Reading, Reading | VerifyingManifest, VerifyingManifest | VerifyingSignature, VerifyingSignature
  | VerifyingIngredient, VerifyingIngredient | VerifyingAssetHash, VerifyingAssetHash
  | AddingIngredient, AddingIngredient | Thumbnail, Thumbnail | Hashing, Hashing | Signing, Signing
  | Embedding, Embedding | FetchingRemoteManifest, FetchingRemoteManifest | Writing, Writing
  | FetchingOCSP, FetchingOCSP | FetchingTimestamp, FetchingTimestamp => true
  | _, _ => false
  end.

(* what a swallowed error is logged as *)
Inductive code :=
  | CHashMismatch          (* assertion.{dataHash,bmffHash,boxHash}.mismatch — a validation failure *)
  | COcspInaccessible      (* signingCredential.ocsp.inaccessible — informational *)
  | CIngredientStatus      (* the imported ingredient's validation_status — a validation failure *)
  | CInvalidManifest       (* Error::InvalidManifest raised by verify_store_strict *)
  | COther.                (* any other error of a step (I/O, parse, mismatch) *)

Definition is_failure (c : code) : bool :=
  match c with COcspInaccessible => false | _ => true end.

Inductive op :=
  | Tick (ph : phase) (step total : N)            (* context.check_progress(ph, step, total)? *)
  | Seq (a b : op)                                (* a?; b *)
  | Skip
  | Raise (c : code)                              (* a step fails with an error other than cancellation *)
  | Loop (ph : phase) (start : N) (n : nat) (total : N)   (* n checkpoints, steps start+1 .. start+n *)
  | Catch (pass : bool) (c : code) (body : op)    (* match body { Ok => .., Err(e) => log c; continue }
                                                     [pass]: the arm re-raises Error::OperationCancelled *)
  | Strict (body : op).                           (* body?; if failures were logged => Err(InvalidManifest) *)

Inductive result := ROk | RCancel | RErr (c : code).

Record tick := T { t_idx : nat; t_phase : phase; t_step : N; t_total : N }.

(* The caller: the callback's answer at its i-th invocation (1-based) and whether the cancel flag is
   found set by the check that follows the i-th invocation. *)
Record env := E { cb : nat -> bool; flag : nat -> bool }.

Definition requested (e : env) (i : nat) : bool := negb (cb e i) || flag e i.

(* check_progress: invoke the callback, then load the flag; either one yields OperationCancelled *)
Definition check (e : env) (i : nat) : result :=
  if negb (cb e i) then RCancel else if flag e i then RCancel else ROk.

Fixpoint run_loop (e : env) (ph : phase) (step : N) (n : nat) (total : N) (i : nat)
  : list tick * result :=
  match n with
  | O => ([], ROk)
  | S n' =>
      let t := T (S i) ph (step + 1) total in
      match check e (S i) with
      | ROk => let '(tr, r) := run_loop e ph (step + 1) n' total (S i) in (t :: tr, r)
      | r => ([t], r)
      end
  end.

Definition has_failure (lg : list code) : bool := existsb is_failure lg.

(* [run e o i]: i callbacks have been made so far; returns the new callbacks, the new log items, the outcome *)
Fixpoint run (e : env) (o : op) (i : nat) : list tick * list code * result :=
  match o with
  | Tick ph s t => ([T (S i) ph s t], [], check e (S i))
  | Skip => ([], [], ROk)
  | Raise c => ([], [], RErr c)
  | Seq a b =>
      match run e a i with
      | (tr, lg, ROk) =>
          let '(tr', lg', r) := run e b (i + length tr) in (tr ++ tr', lg ++ lg', r)
      | x => x
      end
  | Loop ph start n total => let '(tr, r) := run_loop e ph start n total i in (tr, [], r)
  | Catch pass c body =>
      match run e body i with
      | (tr, lg, ROk) => (tr, lg, ROk)
      | (tr, lg, RCancel) => if pass then (tr, lg, RCancel) else (tr, lg ++ [c], ROk)
      | (tr, lg, RErr _) => (tr, lg ++ [c], ROk)
      end
  | Strict body =>
      match run e body i with
      | (tr, lg, ROk) => if has_failure lg then (tr, lg, RErr CInvalidManifest) else (tr, lg, ROk)
      | x => x
      end
  end.

Fixpoint all_pass (o : op) : bool :=
  match o with
  | Seq a b => all_pass a && all_pass b
  | Catch pass _ body => pass && all_pass body
  | Strict body => all_pass body
  | _ => true
  end.

Definition never : env := E (fun _ => true) (fun _ => false).
Definition cb_false_at (k : nat) : env := E (fun i => negb (Nat.eqb i k)) (fun _ => false).
Definition flag_from (k : nat) : env := E (fun _ => true) (fun i => Nat.leb k i).

(* ---- step / total well-formedness of a trace ---- *)
Definition tick_ok (t : tick) : bool :=
  (1 <=? t_step t) && ((t_total t =? 0) || (t_step t <=? t_total t)).

(* steps strictly increase between neighbouring callbacks of the same phase *)
Fixpoint runs_increase (tr : list tick) : bool :=
  match tr with
  | a :: ((b :: _) as rest) =>
      (if phase_eqb (t_phase a) (t_phase b) then t_step a <? t_step b else true) && runs_increase rest
  | _ => true
  end.

Definition trace_ok (tr : list tick) : bool := forallb tick_ok tr && runs_increase tr.

(* ===================================================================================== *)
(* Pipelines.  [cflags] says, for each of the three catch sites, whether it re-raises
   OperationCancelled; the current values are regenerated from the source (Generated/C23_facts.v). *)

Record cflags := CF { hash_arms_pass : bool; ocsp_fetch_pass : bool; ingredient_status_pass : bool }.

(* crypto/ocsp/fetch.rs fetch_ocsp_response + cose/ocsp.rs fetch_and_check_ocsp_response:
   one checkpoint per request tried (n of total); `.ok()?` turns any error into "not fetched" *)
Definition ocsp_fetch (f : cflags) (oc : nat * N) : op :=
  Catch (ocsp_fetch_pass f) COcspInaccessible (Loop FetchingOCSP 0 (fst oc) (snd oc)).

(* claim.rs Claim::verify_claim: check_ocsp_status?; check_progress(VerifyingSignature,1,1)?; verify_cose; verify_internal *)
Definition verify_claim (f : cflags) (oc : nat * N) : op :=
  Seq (ocsp_fetch f oc) (Tick VerifyingSignature 1 1).

(* ingredient assertions of a claim: without a manifest (or zeroed / missing), or referring to a claim of
   the store that is verified and — on first visit — walked recursively *)
Inductive itree :=
  | ILeaf
  | INode (oc : nat * N) (first_visit : bool) (kids : list itree).

(* store.rs Store::ingredient_checks *)
Fixpoint ing_body (f : cflags) (k : itree) : op :=
  match k with
  | ILeaf => Skip
  | INode oc first kids =>
      Seq (verify_claim f oc)
          (if first then
             (fix go (l : list itree) (step : N) : op :=
                match l with
                | [] => Skip
                | x :: r => Seq (Tick VerifyingIngredient (step + 1) (N.of_nat (length kids)))
                                (Seq (ing_body f x) (go r (step + 1)))
                end) kids 0
           else Skip)
  end.

Fixpoint ing_checks (f : cflags) (total : N) (l : list itree) (step : N) : op :=
  match l with
  | [] => Skip
  | x :: r => Seq (Tick VerifyingIngredient (step + 1) total) (Seq (ing_body f x) (ing_checks f total r (step + 1)))
  end.

(* hashing: a list of inner hash_stream_by_alg_with_progress calls, each making [n] callbacks with its own
   total.  [running]: the caller numbers the callbacks itself with a running counter (BMFF verification
   in claim.rs); otherwise each inner call restarts at 1 (data hash: one call; box hash: one per box) *)
Definition hshape := (bool * list (nat * N))%type.

Fixpoint hash_segs (ph : phase) (running : bool) (segs : list (nat * N)) (start : N) : op :=
  match segs with
  | [] => Skip
  | (n, t) :: r => Seq (Loop ph (if running then start else 0) n t) (hash_segs ph running r (start + N.of_nat n))
  end.

Definition hash_ticks (ph : phase) (h : hshape) : op := hash_segs ph (fst h) (snd h) 0.

(* claim.rs Claim::verify_hash_binding: the three `match hash_result { Ok => .., Err(e) => log mismatch }` *)
Definition verify_hash_binding (f : cflags) (h : hshape) : op :=
  Catch (hash_arms_pass f) CHashMismatch (hash_ticks VerifyingAssetHash h).

Record vshape := VS { v_ocsp : nat * N; v_kids : list itree; v_hash : option hshape }.

(* store.rs Store::verify_store *)
Definition verify_store (f : cflags) (v : vshape) : op :=
  Seq (Tick VerifyingManifest 1 1)
      (Seq (verify_claim f (v_ocsp v))
           (Seq (ing_checks f (N.of_nat (length (v_kids v))) (v_kids v) 0)
                (match v_hash v with Some h => verify_hash_binding f h | None => Skip end))).

(* store.rs fetch_remote_manifest *)
Definition remote_fetch (remote : bool) : op :=
  if remote then Tick FetchingRemoteManifest 1 1 else Skip.

(* reader.rs Reader::with_stream -> Store::from_stream -> from_manifest_data_and_stream -> verify_store *)
Definition read_stream (f : cflags) (remote : bool) (v : vshape) : op :=
  Seq (Tick Reading 1 1) (Seq (remote_fetch remote) (verify_store f v)).

(* Reader::with_manifest_data_and_stream (sidecar) and Reader::with_fragment: no Reading checkpoint *)
Definition read_sidecar (f : cflags) (v : vshape) : op := verify_store f v.

(* builder.rs add_ingredient_from_stream -> Ingredient::add_stream_internal -> update_validation_status *)
Definition ingredient_import (f : cflags) (remote : bool) (v : vshape) : op :=
  Seq (Tick AddingIngredient 1 1)
      (Catch (ingredient_status_pass f) CIngredientStatus (Seq (remote_fetch remote) (verify_store f v))).

Record sshape := SS {
  s_thumbnail : bool;              (* builder.thumbnail.enabled and no thumbnail yet (feature add_thumbnails) *)
  s_pre_hash : option hshape;      (* box hashing before the write (compressed manifests) *)
  s_post_hash : option hshape;     (* hash read-back after the write *)
  s_verify : option vshape         (* verify.verify_after_sign: verify_store_strict on the output *)
}.

Definition opt_hash (ph : phase) (h : option hshape) : op :=
  match h with Some h => hash_ticks ph h | None => Skip end.

(* builder.rs Builder::sign -> store.rs save_to_stream / start_save_stream *)
Definition sign_stream (f : cflags) (s : sshape) : op :=
  Seq (if s_thumbnail s then Tick Thumbnail 1 1 else Skip)
  (Seq (Tick Writing 1 2)
  (Seq (opt_hash Hashing (s_pre_hash s))
  (Seq (Tick Writing 2 2)
  (Seq (opt_hash Hashing (s_post_hash s))
  (Seq (Tick Signing 1 1)
  (Seq (Tick Embedding 1 1)
       (match s_verify s with Some v => Strict (verify_store f v) | None => Skip end))))))).

(* Builder::placeholder; update_hash_from_stream; sign_embeddable (-> Store::sign_manifest) *)
Definition sign_embeddable (f : cflags) (h : hshape) (verify : option vshape) : op :=
  Seq (hash_ticks Hashing h)
  (Seq (Tick Signing 1 1)
       (match verify with Some v => Strict (verify_store f v) | None => Skip end)).

(* what the correspondence run prints *)
Definition show (x : list tick * list code * result) : list (phase * N * N) * list code * result :=
  let '(tr, lg, r) := x in (map (fun t => (t_phase t, t_step t, t_total t)) tr, lg, r).

Definition env_of (kind : nat) (k : nat) : env :=
  match kind with
  | O => never
  | S O => cb_false_at k
  | _ => flag_from k
  end.
