(* Model/SettingsTree.v — the JSON tree functions behind Settings updates
   (sdk/src/settings/mod.rs: merge_json / merge_json_depth, set_at_path, get_at_path, with_string,
   with_value, update_from_str, set_value, get_value).

   serde_json is built with "preserve_order": an object is an insertion-ordered map with unique keys,
   modelled as an association list.  [insert] is IndexMap::insert / entry().or_insert(): replace the value
   in place when the key exists, append at the end otherwise.
   Strings and keys are UTF-8 byte lists; a number carries its literal text (the tree functions never
   look inside a number).  Depths are [nat] (bounded by MERGE_MAX_DEPTH). *)
From Coq Require Import List NArith Bool Arith.
Import ListNotations.

Definition key := list N.

Fixpoint key_eqb (a b : key) : bool :=
  match a, b with
  | [], [] => true
  | x :: a', y :: b' => N.eqb x y && key_eqb a' b'
  | _, _ => false
  end.

Inductive json :=
| JNull
| JBool (b : bool)
| JNum (lit : list N)
| JStr (s : list N)
| JArr (l : list json)
| JObj (m : list (key * json)).

Definition fields := list (key * json).

Fixpoint lookup (k : key) (m : fields) : option json :=
  match m with
  | [] => None
  | (k', v) :: r => if key_eqb k k' then Some v else lookup k r
  end.

(* IndexMap::insert: replace in place (position kept) or append *)
Fixpoint insert (k : key) (v : json) (m : fields) : fields :=
  match m with
  | [] => [(k, v)]
  | (k', v') :: r => if key_eqb k k' then (k', v) :: r else (k', v') :: insert k v r
  end.

(* target_map.entry(key).or_insert(Value::Null) *)
Definition get_or_null (k : key) (m : fields) : json :=
  match lookup k m with Some v => v | None => JNull end.

(* fn merge_json_depth(target, overlay, depth):
     (Object(t), Object(o)) if depth < MERGE_MAX_DEPTH => for (key, ov) in o { recurse(t.entry(key).or_insert(Null), ov, depth+1) }
     (target, overlay) => *target = overlay *)
Fixpoint merge (maxd d : nat) (t o : json) {struct o} : json :=
  match o with
  | JObj om =>
      match t with
      | JObj tm =>
          if Nat.ltb d maxd then
            JObj ((fix go (om : fields) (tm : fields) {struct om} : fields :=
                     match om with
                     | [] => tm
                     | (k, ov) :: om' => go om' (insert k (merge maxd (S d) (get_or_null k tm) ov) tm)
                     end) om tm)
          else o
      | _ => o
      end
  | _ => o
  end.

(* the inner loop of [merge], named *)
Fixpoint merge_fields (maxd d : nat) (om tm : fields) {struct om} : fields :=
  match om with
  | [] => tm
  | (k, ov) :: om' => merge_fields maxd d om' (insert k (merge maxd (S d) (get_or_null k tm) ov) tm)
  end.

(* fn merge_json(target, overlay) = merge_json_depth(target, overlay, 0) *)
Definition merge_json (maxd : nat) (t o : json) : json := merge maxd 0 t o.

(* str::split('.'): always at least one segment; "" gives [""], "a..b" gives ["a";"";"b"] *)
Fixpoint split_dot_acc (cur : list N) (s : list N) : list key :=
  match s with
  | [] => [rev cur]
  | c :: r => if N.eqb c 46 then rev cur :: split_dot_acc [] r else split_dot_acc (c :: cur) r
  end.
Definition split_dot (s : list N) : list key := split_dot_acc [] s.

Definition as_fields (t : json) : fields := match t with JObj m => m | _ => [] end.

(* fn set_at_path(target, path, value) over the split path:
     while let Some(segment) = segments.next() {
        if !current.is_object() { *current = {} }
        if segments.peek().is_none() { map.insert(segment, value); return Ok }
        current = map.entry(segment).or_insert_with(|| {})
     }
     Err("empty path")                                   -- only for an empty segment list *)
Fixpoint set_segs (t : json) (segs : list key) (v : json) : option json :=
  match segs with
  | [] => None
  | s :: rest =>
      let m := as_fields t in
      match rest with
      | [] => Some (JObj (insert s v m))
      | _ :: _ =>
          match set_segs (match lookup s m with Some c => c | None => JObj [] end) rest v with
          | Some c' => Some (JObj (insert s c' m))
          | None => None
          end
      end
  end.
Definition set_at_path (t : json) (path : list N) (v : json) : option json := set_segs t (split_dot path) v.

(* fn get_at_path(value, path): for segment in path.split('.') { current = current.as_object()?.get(segment)? } *)
Fixpoint get_segs (t : json) (segs : list key) : option json :=
  match segs with
  | [] => Some t
  | s :: rest =>
      match t with
      | JObj m => match lookup s m with Some c => get_segs c rest | None => None end
      | _ => None
      end
  end.
Definition get_at_path (t : json) (path : list N) : option json := get_segs t (split_dot path).

(* ---- the Settings methods; serde (to_value / from_value), validation and the two document parsers are
        external components *)
Inductive uerr := EParse | ESerialize | EPath | ETyped | EValidate.
Inductive ures (A : Type) := UOk (a : A) | UErr (e : uerr).
Arguments UOk {A} a.
Arguments UErr {A} e.

Inductive format := FJson | FToml.

Section Update.
  Variable settings : Type.
  Variable to_value : settings -> option json.          (* serde_json::to_value(self) *)
  Variable typed : json -> option settings.             (* serde_json::from_value::<Settings> *)
  Variable validate : settings -> bool.                 (* SettingsValidate::validate(..).is_ok() *)
  Variable parse : format -> list N -> option json.     (* parse_to_value *)
  Variable maxd : nat.

  (* fn with_string(&self, settings_str, format) -> Result<Self> *)
  Definition with_string (s : settings) (f : format) (text : list N) : ures settings :=
    match parse f text with
    | None => UErr EParse
    | Some overlay =>
        match to_value s with
        | None => UErr ESerialize
        | Some cur =>
            match typed (merge_json maxd cur overlay) with
            | None => UErr ETyped
            | Some s' => if validate s' then UOk s' else UErr EValidate
            end
        end
    end.

  (* fn update_from_str(&mut self, ..): *self = self.with_string(..)?;  returns (state after, result) *)
  Definition update_from_str (s : settings) (f : format) (text : list N) : settings * ures unit :=
    match with_string s f text with
    | UOk s' => (s', UOk tt)
    | UErr e => (s, UErr e)
    end.

  (* fn with_value(&self, path, value) -> Result<Self> *)
  Definition with_value (s : settings) (path : list N) (v : json) : ures settings :=
    match to_value s with
    | None => UErr ESerialize
    | Some cur =>
        match set_at_path cur path v with
        | None => UErr EPath
        | Some merged =>
            match typed merged with
            | None => UErr ETyped
            | Some s' => if validate s' then UOk s' else UErr EValidate
            end
        end
    end.

  (* fn set_value(&mut self, path, value): *self = self.with_value(path, value)?; *)
  Definition set_value (s : settings) (path : list N) (v : json) : settings * ures unit :=
    match with_value s path v with
    | UOk s' => (s', UOk tt)
    | UErr e => (s, UErr e)
    end.

  (* fn get_value::<Value>(&self, path) *)
  Definition get_value (s : settings) (path : list N) : option json :=
    match to_value s with
    | None => None
    | Some cur => get_at_path cur path
    end.
End Update.
