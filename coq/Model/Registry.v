(* Model/Registry.v — the pointer registry of c2pa_c_ffi/src/cimpl/utils.rs (PointerRegistry).
   Transcription, operation by operation, of track / validate / untrack / free.

   HashMap<usize, (TypeId, CleanupFn)> is an association list addr -> entry.  The cleanup closure stored
   by a [track] call is represented by the identity of that call (an allocation id): running the closure is
   the event "cleanup of allocation i ran".  No proofs in this file. *)
From Coq Require Import NArith List Bool.
Import ListNotations.
Open Scope N_scope.

Definition addr := N.
Definition tid := N.        (* TypeId, numbered by Generated/C31_facts.v *)
Definition aid := nat.      (* which track call created the entry, i.e. which cleanup closure it holds *)

Record entry := E { e_ty : tid; e_id : aid }.
Definition reg := list (addr * entry).

Fixpoint lookup (a : addr) (r : reg) : option entry :=
  match r with
  | [] => None
  | (k, e) :: r' => if k =? a then Some e else lookup a r'
  end.

Definition remove (a : addr) (r : reg) : reg :=
  filter (fun kv => negb (fst kv =? a)) r.

Inductive rerr := ENullPtr | EWrongType | EUntracked.
Inductive rres := ROk | RErr (e : rerr).

(* fn track(&self, ptr, type_id, cleanup): `if ptr != 0 { tracked.insert(ptr, (type_id, cleanup)) }`.
   HashMap::insert replaces an existing entry; the replaced closure is dropped without being run. *)
Definition track (r : reg) (a : addr) (e : entry) : reg :=
  if a =? 0 then r else (a, e) :: remove a r.

(* fn validate(&self, ptr, expected_type) *)
Definition validate (r : reg) (a : addr) (t : tid) : rres :=
  if a =? 0 then RErr ENullPtr
  else match lookup a r with
       | Some e => if e_ty e =? t then ROk else RErr EWrongType
       | None => RErr EUntracked
       end.

(* fn untrack(&self, ptr, expected_type): remove without running the cleanup; the caller becomes the owner.
   Third component: the allocation whose ownership moved to the caller. *)
Definition untrack (r : reg) (a : addr) (t : tid) : reg * rres * option aid :=
  if a =? 0 then (r, RErr ENullPtr, None)
  else match lookup a r with
       | Some e => if e_ty e =? t then (remove a r, ROk, Some (e_id e)) else (r, RErr EWrongType, None)
       | None => (r, RErr EUntracked, None)
       end.

(* fn free(&self, ptr): NULL is Ok and does nothing; otherwise remove the entry (of whatever type) and run
   its cleanup.  Third component: the cleanups that ran. *)
Definition free (r : reg) (a : addr) : reg * rres * list aid :=
  if a =? 0 then (r, ROk, [])
  else match lookup a r with
       | Some e => (remove a r, ROk, [e_id e])
       | None => (r, RErr EUntracked, [])
       end.

(* the abstract specification: the set of live handles with their types, as a partial function *)
Definition live := addr -> option entry.
Definition abs (r : reg) : live := fun a => lookup a r.
Definition l_empty : live := fun _ => None.
Definition l_add (l : live) (a : addr) (e : entry) : live := fun x => if x =? a then Some e else l x.
Definition l_del (l : live) (a : addr) : live := fun x => if x =? a then None else l x.
