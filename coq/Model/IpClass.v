(* Model/IpClass.v — transcription of host_is_non_global and everything below it
   (sdk/src/http/restricted.rs), plus the literal syntaxes std's IpAddr::from_str accepts
   (library/core/src/net/parser.rs: read_number / read_ipv4_addr / read_ipv6_addr, transcribed). *)
From Coq Require Import List NArith Bool Arith.
From C2PA Require Import Base.Bytes Model.HostPattern Model.IpPreds Generated.C27_facts.
Import ListNotations.
Open Scope N_scope.

(* ---- classification ---- *)

Definition ipv4_non_global (x : ipv4) : bool := existsb (fun t => eval_v4term t x) v4_terms.

Definition ipv6_non_global (x : ipv6) : bool :=
  match (if v6_unwraps_mapped then to_ipv4_mapped x else None) with
  | Some v4 => ipv4_non_global v4
  | None => existsb (fun t => eval_v6term t x) v6_terms
  end.

Definition ip_non_global (x : ip) : bool :=
  match x with Ip4 a => ipv4_non_global a | Ip6 a => ipv6_non_global a end.

(* ---- std parser ---- *)

Definition is_digit (b : N) : bool := (48 <=? b) && (b <=? 57).

(* char::to_digit(radix) for radix 10 / 16 *)
Definition digit_val (radix b : N) : option N :=
  if is_digit b then Some (b - 48)
  else if radix =? 16 then
         if (97 <=? b) && (b <=? 102) then Some (b - 87)
         else if (65 <=? b) && (b <=? 70) then Some (b - 55)
         else None
       else None.

(* maximal prefix of digits (their values), and the rest *)
Fixpoint span_digits (radix : N) (s : bytes) : list N * bytes :=
  match s with
  | [] => ([], [])
  | b :: t =>
      match digit_val radix b with
      | Some v => let '(ds, r) := span_digits radix t in (v :: ds, r)
      | None => ([], s)
      end
  end.

Definition digits_value (radix : N) (ds : list N) : N := fold_left (fun acc d => acc * radix + d) ds 0.

(* Parser::read_number(radix, Some(max_digits), allow_zero_prefix) into a type with maximum maxv *)
Definition read_number (radix : N) (max_digits : nat) (allow_zero_prefix : bool) (maxv : N) (s : bytes)
  : option (N * bytes) :=
  let '(ds, r) := span_digits radix s in
  let has_leading_zero := match s with b :: _ => b =? 48 | [] => false end in
  if (length ds =? 0)%nat then None
  else if (max_digits <? length ds)%nat then None
  else if negb allow_zero_prefix && has_leading_zero && (1 <? length ds)%nat then None
  else let v := digits_value radix ds in
       if v <=? maxv then Some (v, r) else None.

(* Parser::read_given_char *)
Definition expect (c : N) (s : bytes) : option bytes :=
  match s with b :: t => if b =? c then Some t else None | [] => None end.

(* Parser::read_separator(sep, index, inner): the separator is required iff index > 0 *)
Definition sep (c : N) (first : bool) (s : bytes) : option bytes := if first then Some s else expect c s.

Definition read_octet (s : bytes) : option (N * bytes) := read_number 10 3 false 255 s.

(* Parser::read_ipv4_addr *)
Definition read_ipv4 (s : bytes) : option (ipv4 * bytes) :=
  match read_octet s with
  | Some (a, s1) =>
    match expect c_dot s1 with
    | Some s1' =>
      match read_octet s1' with
      | Some (b, s2) =>
        match expect c_dot s2 with
        | Some s2' =>
          match read_octet s2' with
          | Some (c, s3) =>
            match expect c_dot s3 with
            | Some s3' =>
              match read_octet s3' with
              | Some (d, s4) => Some (V4 a b c d, s4)
              | None => None
              end
            | None => None
            end
          | None => None
          end
        | None => None
        end
      | None => None
      end
    | None => None
    end
  | None => None
  end.

(* read_groups inside read_ipv6_addr: [n] slots remain ([first] = this is slot 0); returns the groups read,
   whether an embedded IPv4 address ended the run, and the unread input *)
Fixpoint read_groups (n : nat) (first : bool) (s : bytes) : list N * bool * bytes :=
  match n with
  | O => ([], false, s)
  | S n' =>
      let try_v4 :=
        if (2 <=? n)%nat
        then match sep c_colon first s with Some s' => read_ipv4 s' | None => None end
        else None in
      match try_v4 with
      | Some (V4 a b c d, r) => ([a * 256 + b; c * 256 + d], true, r)
      | None =>
          match (match sep c_colon first s with Some s' => read_number 16 4 true 65535 s' | None => None end) with
          | Some (g, r) => let '(gs, f, r') := read_groups n' false r in (g :: gs, f, r')
          | None => ([], false, s)
          end
      end
  end.

Definition mk_v6 (gs : list N) : option ipv6 :=
  match gs with
  | [g0; g1; g2; g3; g4; g5; g6; g7] => Some (V6 g0 g1 g2 g3 g4 g5 g6 g7)
  | _ => None
  end.

(* Parser::read_ipv6_addr *)
Definition read_ipv6 (s : bytes) : option (list N * bytes) :=
  let '(head, head_v4, s1) := read_groups 8 true s in
  if (length head =? 8)%nat then Some (head, s1)
  else if head_v4 then None
  else match expect c_colon s1 with
       | None => None
       | Some s1' =>
         match expect c_colon s1' with
         | None => None
         | Some s2 =>
             let limit := (8 - (length head + 1))%nat in
             let '(tail, _, s3) := read_groups limit true s2 in
             Some (head ++ repeat 0 (8 - length head - length tail)%nat ++ tail, s3)
         end
       end.

(* IpAddr::from_str: read_ipv4_addr, else read_ipv6_addr; the whole input must be consumed *)
Definition parse_ip (s : bytes) : option ip :=
  match read_ipv4 s with
  | Some (x, r) => if is_nil r then Some (Ip4 x) else None
  | None =>
      match read_ipv6 s with
      | Some (gs, r) => if is_nil r then match mk_v6 gs with Some x => Some (Ip6 x) | None => None end else None
      | None => None
      end
  end.

(* ---- host_is_non_global ---- *)

Definition c_lbr : N := 91.
Definition c_rbr : N := 93.
Definition s_localhost : bytes := [108;111;99;97;108;104;111;115;116].            (* "localhost" *)
Definition s_dot_localhost : bytes := 46 :: s_localhost.                          (* ".localhost" *)

(* normalize_host *)
Definition normalize_host (h : bytes) : bytes :=
  let h1 := match strip_prefix [c_lbr] h with
            | Some x => match strip_suffix [c_rbr] x with Some y => y | None => h end
            | None => h
            end in
  let h2 := match strip_suffix [c_dot] h1 with Some y => y | None => h1 end in
  lower h2.

(* str::split('.') *)
Fixpoint split_dot (s : bytes) : list bytes :=
  match s with
  | [] => [[]]
  | b :: t =>
      if b =? c_dot then [] :: split_dot t
      else match split_dot t with
           | l :: ls => (b :: l) :: ls
           | [] => [[b]]
           end
  end.

Definition starts_0x (l : bytes) : bool :=
  match l with
  | 48 :: x :: _ => (x =? 120) || (x =? 88)
  | _ => false
  end.

(* looks_like_obfuscated_ip *)
Definition looks_like_obfuscated_ip (h : bytes) : bool :=
  if is_nil h then false
  else if forallb (fun b => is_digit b || (b =? c_dot)) h then true
  else existsb starts_0x (split_dot h).

(* host_is_non_global on uri.host() *)
Definition host_is_non_global (uh : option bytes) : bool :=
  match uh with
  | None => true
  | Some h =>
      let n := normalize_host h in
      match parse_ip n with
      | Some x => ip_non_global x
      | None =>
          if looks_like_obfuscated_ip n then true
          else beqb n s_localhost || ends_with n s_dot_localhost
      end
  end.

(* for the correspondence run: the parsed address as a flat list (4 octets / 8 groups) and its class *)
Definition parse_ip_flat (s : bytes) : option (list N * bool) :=
  match parse_ip s with
  | Some (Ip4 (V4 a b c d)) => Some ([a; b; c; d], ipv4_non_global (V4 a b c d))
  | Some (Ip6 (V6 g0 g1 g2 g3 g4 g5 g6 g7)) =>
      Some ([g0; g1; g2; g3; g4; g5; g6; g7], ipv6_non_global (V6 g0 g1 g2 g3 g4 g5 g6 g7))
  | None => None
  end.
