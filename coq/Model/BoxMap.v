(* Model/BoxMap.v — box-map entries, the layout predicates of property C12, and an executable
   transcription of the PNG handler (sdk/src/asset_handlers/png_io.rs):
     get_png_chunk_positions, PngIO::get_box_map, PngIO::get_object_locations_from_stream.
   Byte level: the input is the whole file as a byte string (an in-memory cursor).  No proofs here. *)
From Coq Require Import List NArith Bool.
From C2PA Require Import Base.Bytes Generated.C12_facts.
Import ListNotations.
Open Scope N_scope.

(* ---------------------------------------------------------------- entries and layout predicates *)

(* BoxMap { names: [name], range_start, range_len, excluded }  (hash, alg, pad are filled later) *)
Record entry := E { ename : bytes; estart : N; elen : N; eexcl : bool }.

Definition eend (e : entry) : N := estart e + elen e.
Definition containsb (i : N) (e : entry) : bool := (estart e <=? i) && (i <? eend e).
(* number of entries whose byte range contains offset i *)
Definition cover_count (i : N) (m : list entry) : nat := length (filter (containsb i) m).

(* consecutive tiling: every entry starts where the previous one ended *)
Fixpoint chain (cur : N) (m : list entry) : option N :=
  match m with
  | [] => Some cur
  | e :: t => if estart e =? cur then chain (eend e) t else None
  end.

Fixpoint beq (a b : bytes) : bool :=
  match a, b with
  | [], [] => true
  | x :: a', y :: b' => (x =? y) && beq a' b'
  | _, _ => false
  end.

Definition is_c2pa (e : entry) : bool := beq (ename e) C2PA_BOXHASH.

(* ---------------------------------------------------------------- results *)

Inductive perr :=
| EIo                (* Error::IoError: short read of the signature *)
| EPngSignature      (* Error::PngError(InvalidFileSignature) *)
| EInvalidAsset      (* Error::InvalidAsset("PNG out of range" / "PNG bad chunk name" / JPEG ...) *)
| EEmbedding         (* Error::EmbeddingError *)
| EJumbfNotFound
| EFuel.             (* model fuel exhausted: never reached with fuel = length of the file + 1 *)

Inductive res (A : Type) := Ok (a : A) | Err (e : perr) | Panic.
Arguments Ok {A} a.
Arguments Err {A} e.
Arguments Panic {A}.

(* ---------------------------------------------------------------- String::from_utf8 on a chunk name *)

Definition cont (b : N) : bool := (128 <=? b) && (b <=? 191).
Definition inr (lo hi b : N) : bool := (lo <=? b) && (b <=? hi).

Fixpoint utf8_ok (l : bytes) : bool :=
  match l with
  | [] => true
  | b :: t =>
      if b <? 128 then utf8_ok t
      else if inr 194 223 b then
        match t with c1 :: t' => cont c1 && utf8_ok t' | _ => false end
      else if inr 224 239 b then
        match t with
        | c1 :: c2 :: t' =>
            (if b =? 224 then inr 160 191 c1 else if b =? 237 then inr 128 159 c1 else cont c1)
            && cont c2 && utf8_ok t'
        | _ => false
        end
      else if inr 240 244 b then
        match t with
        | c1 :: c2 :: c3 :: t' =>
            (if b =? 240 then inr 144 191 c1 else if b =? 244 then inr 128 143 c1 else cont c1)
            && cont c2 && cont c3 && utf8_ok t'
        | _ => false
        end
      else false
  end.

(* ---------------------------------------------------------------- get_png_chunk_positions *)

Record chunk := CK { cstart : N; clength : N; cname : bytes }.
Definition cend (c : chunk) : N := cstart c + clength c + PNG_HDR_LEN.

(* [rest] is the stream from [pos] on; [total] the stream length.
   One iteration: read_u32 (length), read 4 (name), seek Current(length) (never fails on a cursor),
   read 4 (crc; fails when fewer than length+4 bytes remain), from_utf8(name), push,
   stop on IEND or when the position is beyond the end. *)
Fixpoint png_chunks (fuel : nat) (total pos : N) (rest : bytes) : res (list chunk) :=
  match fuel with
  | O => Err EFuel
  | S f =>
      match rest with
      | l0 :: l1 :: l2 :: l3 :: r1 =>
          let length := de [l0; l1; l2; l3] in
          match r1 with
          | n0 :: n1 :: n2 :: n3 :: r2 =>
              let name := [n0; n1; n2; n3] in
              if length + 4 <=? len r2 then
                if utf8_ok name then
                  let c := CK pos length name in
                  let pos' := pos + length + PNG_HDR_LEN in
                  if beq name PNG_END || (total <? pos') then Ok [c]
                  else match png_chunks f total pos' (skipn (N.to_nat (length + 4)) r2) with
                       | Ok cs => Ok (c :: cs)
                       | Err e => Err e
                       | Panic => Panic
                       end
                else Err EInvalidAsset
              else Err EInvalidAsset
          | _ => Err EInvalidAsset
          end
      | _ => Err EInvalidAsset
      end
  end.

Definition png_positions (b : bytes) : res (list chunk) :=
  if len b <? 8 then Err EIo
  else if beq (firstn 8 b) PNG_ID then png_chunks (S (length b)) (len b) 8 (skipn 8 b)
  else Err EPngSignature.

(* ---------------------------------------------------------------- PngIO::get_box_map *)

Definition is_cai (c : chunk) : bool := beq (cname c) CAI_CHUNK.
Definition is_ihdr (c : chunk) : bool := beq (cname c) IMG_HDR.

Definition png_entries_of (has_c2pa : bool) (c : chunk) : list entry :=
  if is_cai c then [E C2PA_BOXHASH (cstart c) (clength c + PNG_HDR_LEN) false]
  else E (cname c) (cstart c) (clength c + PNG_HDR_LEN) false
       :: (if negb has_c2pa && is_ihdr c then [E C2PA_BOXHASH (cend c) 0 true] else []).

Definition png_map_of (ps : list chunk) : list entry :=
  E PNGH_NAME 0 PNGH_LEN false :: flat_map (png_entries_of (existsb is_cai ps)) ps.

Definition png_box_map (b : bytes) : res (list entry) :=
  match png_positions b with
  | Ok ps => Ok (png_map_of ps)
  | Err e => Err e
  | Panic => Panic
  end.

(* ---------------------------------------------------------------- PngIO::get_object_locations_from_stream *)

Inductive htype := Cai | Xmp | Other | OtherExclusion.
Record loc := L { loff : N; llen : N; ltype : htype }.

(* ps.insert(ihdr_index + 1, placeholder) *)
Fixpoint insert_after_ihdr (ps : list chunk) : option (list chunk) :=
  match ps with
  | [] => None
  | c :: t =>
      if is_ihdr c then Some (c :: CK (cend c) 0 CAI_CHUNK :: t)
      else match insert_after_ihdr t with Some t' => Some (c :: t') | None => None end
  end.

Definition png_locations (b : bytes) : res (list loc) :=
  match png_positions b with
  | Err e => Err e
  | Panic => Panic
  | Ok ps =>
      let r := if existsb is_cai ps then Some (ps, len b)
               else match insert_after_ihdr ps with
                    | Some ps' => Some (ps', len b + PNG_HDR_LEN)
                    | None => None
                    end in
      match r with
      | None => Err EEmbedding
      | Some (ps', file_end) =>
          match find is_cai ps' with
          | None => Err EJumbfNotFound
          | Some pcp =>
              let e := cend pcp in
              if file_end <? e then Panic      (* usize subtraction overflow *)
              else Ok [L (cstart pcp) (clength pcp + PNG_HDR_LEN) Cai;
                       L 0 (cstart pcp) Other;
                       L e (file_end - e) Other]
          end
      end
  end.

(* ---------------------------------------------------------------- the file as an encoded chunk list *)

(* length(4) name(4) data crc(4); the crc is not looked at by the handler *)
Record pchunk := PC { pname : bytes; pdata : bytes; pcrc : bytes }.
Definition enc_chunk (c : pchunk) : bytes := be 4 (len (pdata c)) ++ pname c ++ pdata c ++ pcrc c.
Definition png_file (cs : list pchunk) (trailer : bytes) : bytes :=
  PNG_ID ++ concat (map enc_chunk cs) ++ trailer.
