(* Model/ContRun.v — dispatcher and operation-sequence runner used by the correspondence run of
   C07/C08/C09 (evaluated with vm_compute, compared with the harness step by step), and the
   deterministic store generator shared with the orchestrator.  No proofs here. *)
From Coq Require Import List NArith Bool.
From C2PA Require Import Base.Bytes Model.Container Model.ContPng Model.ContJpeg Model.ContGif Model.ContRiff.
Import ListNotations.
Open Scope N_scope.

Inductive fmt := FC2pa | FPng | FJpeg | FGif | FRiff (avi_literal : bool).

Definition do_write (f : fmt) (a b : bytes) : res bytes :=
  match f with
  | FC2pa => c2pa_write a b
  | FPng => png_write crc32 a b
  | FJpeg => jpeg_write a b
  | FGif => gif_write a b
  | FRiff l => riff_write l a b
  end.

Definition do_remove (f : fmt) (a : bytes) : res bytes :=
  match f with
  | FC2pa => c2pa_remove a
  | FPng => png_remove a
  | FJpeg => jpeg_remove a
  | FGif => gif_remove a
  | FRiff l => riff_remove l a
  end.

Definition do_read (f : fmt) (a : bytes) : res bytes :=
  match f with
  | FC2pa => c2pa_read a
  | FPng => png_read a
  | FJpeg => jpeg_read a
  | FGif => gif_read a
  | FRiff _ => riff_read a
  end.

Definition do_loc (f : fmt) (a : bytes) : res (list (N * N * kind)) :=
  match f with
  | FC2pa => ROk []
  | FPng => png_locations a
  | FJpeg => jpeg_locations a
  | FGif => gif_locations a
  | FRiff l => riff_locations l a
  end.

Inductive op := W (b : bytes) | R.

Definition summ (r : res bytes) : res (N * N) :=
  match r with ROk b => ROk (len b, poly_hash b) | RErr e => RErr e end.

(* one line per step: outcome of the operation, read-back of the current asset, its object locations;
   a failed operation leaves the asset unchanged *)
Fixpoint run (f : fmt) (a : bytes) (ops : list op)
  : list (res (N * N) * res (N * N) * res (list (N * N * kind))) :=
  match ops with
  | [] => []
  | o :: t =>
    let r := match o with W b => do_write f a b | R => do_remove f a end in
    let a' := match r with ROk x => x | RErr _ => a end in
    (summ r, summ (do_read f a'), do_loc f a') :: run f a' t
  end.

Definition run0 (f : fmt) (a : bytes) (ops : list op) :=
  ((summ (do_read f a), do_loc f a), run f a ops).

(* store generator: the 38-byte C2PA JUMBF superbox header (LBox = n), then a byte pattern *)
Definition STORE_HDR : bytes :=
  [0; 0; 0; 0; 106; 117; 109; 98; 0; 0; 0; 30; 106; 117; 109; 100;
   99; 50; 112; 97; 0; 17; 0; 16; 128; 0; 0; 170; 0; 56; 155; 113; 3; 99; 50; 112; 97; 0].

Definition store_byte (seed i : N) : N := N.land (i * i * 7 + i * seed + seed * 13 + 5) 255.

Fixpoint gen_body (fuel : nat) (seed i : N) : bytes :=
  match fuel with
  | O => []
  | S f => store_byte seed i :: gen_body f seed (i + 1)
  end.

Definition gen_store (n seed : N) : bytes :=
  let body := gen_body (N.to_nat n - 38) seed 38 in
  let raw := firstn (N.to_nat n) (STORE_HDR ++ body) in
  firstn (N.to_nat n) (be 4 n) ++ skipn 4 raw.
