(* Model/Bind.v — hard-binding verifiers as functions of the (possibly tampered) file f' and the *signed*
   assertion.  Transcribes
     sdk/src/assertions/data_hash.rs :: DataHash::verify_stream_hash_with_progress
     sdk/src/claim.rs               :: Claim::verify_hash_binding (update-manifest re-basing of the exclusions)
     sdk/src/assertions/box_hash.rs :: BoxHash::verify_stream_hash_with_progress (+ the per-box generation)
   over Model/RangeHash.v (the range hasher).  The digest function is abstract: [H] is a Section variable
   (one algorithm; a per-box `alg` different from the claim's is not modelled).  No proofs here. *)
From Coq Require Import List NArith Bool.
From C2PA Require Import Base.Bytes Model.RangeHash.
Import ListNotations.
Open Scope N_scope.

(* hash_utils.rs :: vec_compare *)
Fixpoint vec_compare (a b : bytes) : bool :=
  match a, b with
  | [], [] => true
  | x :: a', y :: b' => (x =? y) && vec_compare a' b'
  | _, _ => false
  end.

Inductive verdict := VOk | VMismatch | VError | VPanic.

(* box names are compared as strings; here: numbers (the check maps each distinct name to a number) *)
Definition nm_PNGh : N := 1.
Definition nm_C2PA : N := 2.

(* a handler box-map entry: names[0], range_start, range_len (only names[0] is ever read by the verifier) *)
Record srcbox := SB { sb_name : N; sb_start : N; sb_len : N }.
(* a signed BoxMap entry: names, hash, excluded.unwrap_or(false) *)
Record sigbox := GB { gb_names : list N; gb_hash : bytes; gb_excluded : bool }.

Inductive wres (A : Type) := WOk (a : A) | WErr | WPanic.
Arguments WOk {A} a.
Arguments WErr {A}.
Arguments WPanic {A}.

Section Bind.
  Variable H : bytes -> bytes.      (* the digest function, e.g. SHA-256 *)
  Variable buf : N.                 (* MAX_HASH_BUF *)
  Variable debug : bool.            (* overflow checks on (debug profile) *)

  (* hash_stream_by_alg_with_progress *)
  Definition digest (f : bytes) (hr : list hrange) (excl : bool) : outcome bytes :=
    match hash_model debug f hr excl buf with
    | Ok r => Ok (H (hasher_input r))
    | Err e => Err e
    | Panic => Panic
    end.

  Definition excl_ranges (E : list (N * N)) : list hrange := map (fun e => HR (fst e) (snd e) None) E.

  (* DataHash::verify_stream_hash_with_progress (exclusions None and Some([]) both hash the whole stream) *)
  Definition verify_data (f' : bytes) (E : list (N * N)) (h : bytes) : verdict :=
    match digest f' (excl_ranges E) true with
    | Ok d => if vec_compare h d then VOk else VMismatch
    | Err _ => VError
    | Panic => VPanic
    end.

  (* DataHash::gen_hash_from_stream: what the signer records *)
  Definition sign_data (f : bytes) (E : list (N * N)) : outcome bytes := digest f (excl_ranges E) true.

  (* ---- Claim::verify_hash_binding, `svi.update_manifest_label.is_some()` branch.
     R = svi.manifest_store_range (start, length).  The first exclusion that starts where the recomputed
     store range starts is replaced by R; when that start is > 0, every exclusion that starts after it is
     moved by the growth (saturating_sub). *)
  Fixpoint replace_at_start (E : list (N * N)) (R : N * N) : option (list (N * N) * N) :=
    match E with
    | [] => None
    | e :: t =>
        if fst e =? fst R then Some (R :: t, snd e)
        else match replace_at_start t R with
             | Some (t', l) => Some (e :: t', l)
             | None => None
             end
    end.

  Definition rebase (E : list (N * N)) (R : option (N * N)) : list (N * N) :=
    match R with
    | None => E
    | Some r =>
        match replace_at_start E r with
        | None => E                                   (* start_offset stays 0: nothing moves *)
        | Some (E1, old_len) =>
            let adj := snd r - old_len in             (* saturating_sub *)
            if 0 <? fst r
            then map (fun e => if fst r <? fst e then (fst e + adj, snd e) else e) E1
            else E1
        end
    end.

  Definition verify_data_update (f' : bytes) (E : list (N * N)) (R : option (N * N)) (h : bytes) : verdict :=
    verify_data f' (rebase E R) h.

  (* ---- BoxHash::verify_stream_hash_with_progress *)

  (* inner `for name in &bm.names`: returns the remaining source entries, the inclusion (start, length) and skip_c2pa *)
  Fixpoint walk_names (single : bool) (names : list N) (src : list srcbox) (inc : N * N) (skip : bool)
    : wres (list srcbox * (N * N) * bool) :=
    match names with
    | [] => WOk (src, inc, skip)
    | n :: ns =>
        match src with
        | s :: src' =>
            if n =? sb_name s then
              if snd inc =? 0 then
                if n =? nm_C2PA then
                  if single then walk_names single ns src' (sb_start s, sb_len s) true
                  else WErr                                            (* "Malformed C2PA box hash" *)
                else walk_names single ns src' (sb_start s, sb_len s) skip
              else
                if sb_start s <? fst inc then
                  (if debug then WPanic                                (* u64 subtraction overflow *)
                   else walk_names single ns src' (fst inc, (sb_start s + U64 - fst inc + sb_len s) mod U64) skip)
                else if U64 <=? sb_start s - fst inc + sb_len s then
                  (if debug then WPanic
                   else walk_names single ns src' (fst inc, (sb_start s - fst inc + sb_len s) mod U64) skip)
                else walk_names single ns src' (fst inc, sb_start s - fst inc + sb_len s) skip
            else WErr                                                  (* assertion.boxesHash.unknownBox *)
        | [] => WErr
        end
    end.

  Definition is_single (names : list N) : bool := match names with [_] => true | _ => false end.

  Fixpoint walk (f' : bytes) (signed : list sigbox) (src : list srcbox) : verdict :=
    match signed with
    | [] => VOk
    | bm :: rest =>
        match walk_names (is_single (gb_names bm)) (gb_names bm) src (0, 0) false with
        | WErr => VMismatch
        | WPanic => VPanic
        | WOk (src', inc, skip) =>
            if skip || gb_excluded bm then walk f' rest src'
            else
              match digest f' [HR (fst inc) (snd inc) None] false with
              | Ok d => if vec_compare (gb_hash bm) d then walk f' rest src' else VMismatch
              | Err _ => VError
              | Panic => VPanic
              end
        end
    end.

  (* the "PNGh" skip: a source map that starts with the PNG signature box against a signed list that does not *)
  Definition skip_pngh (signed : list sigbox) (src : list srcbox) : list srcbox :=
    match src, signed with
    | s0 :: src', b0 :: _ =>
        if (sb_name s0 =? nm_PNGh)
           && (match gb_names b0 with n :: _ => negb (n =? nm_PNGh) | [] => false end)
        then src' else src
    | _, _ => src
    end.

  Definition verify_boxes (f' : bytes) (signed : list sigbox) (src : list srcbox) : verdict :=
    match signed with
    | [] => VMismatch                                  (* "No box hash found" *)
    | _ =>
        match src with
        | [] => VMismatch                              (* "No data boxes found" *)
        | _ => walk f' signed (skip_pngh signed src)
        end
    end.

  (* generate_box_hash_from_stream_with_progress, minimal_form = false (the form Store::save uses):
     one signed entry per handler entry; the C2PA entry gets hash [0] (the handlers mark it excluded) *)
  Fixpoint sign_boxes (f : bytes) (src : list srcbox) : outcome (list sigbox) :=
    match src with
    | [] => Ok []
    | s :: t =>
        if sb_name s =? nm_C2PA then
          match sign_boxes f t with
          | Ok l => Ok (GB [sb_name s] [0] true :: l)
          | Err e => Err e
          | Panic => Panic
          end
        else
          match digest f [HR (sb_start s) (sb_len s) None] false with
          | Ok d =>
              match sign_boxes f t with
              | Ok l => Ok (GB [sb_name s] d false :: l)
              | Err e => Err e
              | Panic => Panic
              end
          | Err e => Err e
          | Panic => Panic
          end
    end.
End Bind.
