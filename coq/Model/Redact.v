(* Model/Redact.v — executable transcription of the redaction machinery:
     sdk/src/claim.rs  :: Claim::redact_assertion, Claim::add_ingredient_data,
                          Claim::verify_internal (disallowed-redaction tests; hashed-URI loop with the redaction skip;
                          the "assertion is not referenced by the claim" tracking list)
     sdk/src/store.rs  :: Store::ingredient_checks (manifest-box hash / claimSignature-box hash choice),
                          Store::get_claim_referenced_manifests (collection of the redaction lists),
                          Store::manifest_differs_by_redaction and the three-way rule of load_ingredient_to_claim
     sdk/src/builder.rs:: Builder::to_claim ("Verify all requested redactions were applied")
   No proofs here.  Strings are byte strings; a JUMBF URI is kept in parsed form (manifest label, store, assertion
   label, instance — what jumbf::labels::manifest_label_from_uri / Claim::assertion_label_from_link return) and rendered
   to its text for the substring tests, which the source performs on the text.  The hash of an assertion box, of a
   manifest box and of a signature box are Section variables.  Data boxes, the ingredient-thumbnail instance syntax and
   the pre-1.3 ingredient hash are not modelled. *)
From Coq Require Import List NArith Bool String.
From C2PA Require Import Base.Bytes Model.ByteStr Generated.C20_facts.
Import ListNotations.
Open Scope N_scope.

Record assertion := Asrt { a_label : bytes; a_inst : N; a_data : bytes }.   (* a box of the assertion store *)
Record href := HRef { h_label : bytes; h_inst : N; h_hash : bytes }.        (* an entry of claim.assertions() *)

Inductive ustore := UAssertion | UDatabox | UOther.
Record ruri := RUri { r_manifest : option bytes; r_store : ustore; r_label : bytes; r_inst : N }.

(* an ingredient assertion: manifest it names, recorded manifest-box hash, recorded signature-box hash *)
Record iref := IRef { i_target : bytes; i_mhash : bytes; i_shash : bytes }.

Record manifest := Man {
  m_label : bytes;
  m_assertions : list href;      (* signed (claim) *)
  m_redactions : list ruri;      (* signed (claim.redacted_assertions) *)
  m_ingredients : list iref;     (* signed (ingredient assertions are hashed-URI bound; kept apart for the walk) *)
  m_store : list assertion       (* the assertion store: bound by the hashed URIs only *)
}.

Definition set_store (m : manifest) (s : list assertion) : manifest :=
  Man (m_label m) (m_assertions m) (m_redactions m) (m_ingredients m) s.
Definition set_redactions (m : manifest) (r : list ruri) : manifest :=
  Man (m_label m) (m_assertions m) r (m_ingredients m) (m_store m).

(* what the claim signature covers *)
Definition signed_part (m : manifest) := (m_label m, m_assertions m, m_redactions m, m_ingredients m).

(* ---- URI text *)
Definition label_with_instance (l : bytes) (i : N) : bytes :=
  if i =? 0 then l else l ++ b "__"%string ++ show_usize i.

Definition store_name (s : ustore) : bytes :=
  match s with UAssertion => L_ASSERTION_STORE | UDatabox => L_DATABOX_STORE | UOther => b "c2pa.credentials"%string end.

Definition render (r : ruri) : bytes :=
  b "self#jumbf="%string
  ++ (match r_manifest r with Some m => b "/c2pa/"%string ++ m ++ b "/"%string | None => [] end)
  ++ store_name (r_store r) ++ b "/"%string ++ label_with_instance (r_label r) (r_inst r).

Definition ustore_eqb (x y : ustore) : bool :=
  match x, y with UAssertion, UAssertion | UDatabox, UDatabox | UOther, UOther => true | _, _ => false end.
Definition obeq (x y : option bytes) : bool :=
  match x, y with Some u, Some v => beq u v | None, None => true | _, _ => false end.
(* String equality of two redaction entries *)
Definition ruri_eqb (x y : ruri) : bool :=
  obeq (r_manifest x) (r_manifest y) && ustore_eqb (r_store x) (r_store y)
  && beq (r_label x) (r_label y) && (r_inst x =? r_inst y).

(* ---- Claim::redact_assertion *)
Inductive rerr := EInvalidRedaction | ERedactionNotFound.
Inductive res (A : Type) := ROk (a : A) | RErr (e : rerr).
Arguments ROk {A} a.
Arguments RErr {A} e.

Definition same_key (l : bytes) (i : N) (a : assertion) : bool := beq (a_label a) l && (a_inst a =? i).

(* Vec::position + Vec::remove *)
Fixpoint remove_first {A} (f : A -> bool) (l : list A) : option (list A) :=
  match l with
  | [] => None
  | x :: t => if f x then Some t else option_map (cons x) (remove_first f t)
  end.

Definition redact_assertion (m : manifest) (r : ruri) : res manifest :=
  if starts_with L_ACTIONS (r_label r) || starts_with L_HASH_PREFIX (r_label r) then RErr EInvalidRedaction
  else if (match r_manifest r with Some l => negb (beq l (m_label m)) | None => false end) then RErr ERedactionNotFound
  else
    match r_store r with
    | UAssertion =>
        match remove_first (same_key (r_label r) (r_inst r)) (m_store m) with
        | Some s => ROk (set_store m s)
        | None => RErr ERedactionNotFound
        end
    | _ => RErr ERedactionNotFound          (* no data boxes in the model *)
    end.

(* ---- Claim::add_ingredient_data: each redaction goes to the first ingredient whose label occurs in the URI text *)
Fixpoint redact_in (ings : list manifest) (r : ruri) : res (option (list manifest)) :=
  match ings with
  | [] => ROk None
  | x :: t =>
      if contains_str (m_label x) (render r) then
        match redact_assertion x r with
        | ROk x' => ROk (Some (x' :: t))
        | RErr e => RErr e
        end
      else
        match redact_in t r with
        | ROk (Some t') => ROk (Some (x :: t'))
        | ROk None => ROk None
        | RErr e => RErr e
        end
  end.

Fixpoint apply_redactions (ings : list manifest) (rs applied : list ruri) : res (list manifest * list ruri) :=
  match rs with
  | [] => ROk (ings, applied)
  | r :: t =>
      match redact_in ings r with
      | RErr e => RErr e
      | ROk (Some ings') => apply_redactions ings' t (applied ++ [r])
      | ROk None => apply_redactions ings t applied
      end
  end.

Definition add_ingredient_data (c : manifest) (ings : list manifest) (rs : list ruri) : res (manifest * list manifest) :=
  match apply_redactions ings rs [] with
  | RErr e => RErr e
  | ROk (ings', applied) => ROk (set_redactions c (m_redactions c ++ applied), ings')
  end.

(* Store::load_ingredient_to_claim collects the requested redactions in a HashSet (final_redactions) before handing
   them to add_ingredient_data: duplicates collapse (the iteration order of the set is not modelled: first occurrences, in
   request order) *)
Fixpoint dedup (l seen : list ruri) : list ruri :=
  match l with
  | [] => []
  | r :: t => if existsb (ruri_eqb r) seen then dedup t seen else r :: dedup t (r :: seen)
  end.

(* Builder::to_claim: every requested redaction must be among the claim's redactions *)
Definition builder_redact (c : manifest) (ings : list manifest) (rs : list ruri) : res (manifest * list manifest) :=
  match add_ingredient_data c ings (dedup rs []) with
  | RErr e => RErr e
  | ROk (c', ings') =>
      if forallb (fun r => existsb (ruri_eqb r) (m_redactions c')) rs then ROk (c', ings')
      else RErr ERedactionNotFound
  end.

(* ---- validation *)
Inductive vcode :=
| SelfRedacted                  (* assertion.selfRedacted *)
| ActionRedacted                (* assertion.action.redacted *)
| HashRedacted                  (* assertion.dataHash.redacted *)
| HashedUriMismatch             (* assertion.hashedURI.mismatch *)
| AssertionMissing              (* assertion.missing *)
| AssertionUndeclared           (* assertion.undeclared *)
| IngredientManifestMismatch    (* ingredient.manifest.mismatch *)
| ClaimSignatureMismatch        (* ingredient.claimSignature.mismatch *)
| IngredientManifestMissing.    (* ingredient.manifest.missing *)

(* verify_internal: "check for self redacted assertions and illegal redactions" — substring tests on the URI text *)
Definition redaction_rule_failures (c : manifest) : list vcode :=
  flat_map (fun r =>
    let u := render r in
    (if contains_str (m_label c) u then [SelfRedacted] else [])
    ++ (if contains_str L_ACTIONS u then [ActionRedacted] else [])
    ++ (if existsb (fun l => contains_str l u) HASH_LABELS then [HashRedacted] else []))
  (m_redactions c).

Section Hashes.
  Variable H : bytes -> bytes.            (* hash of an assertion box *)
  Variable MH : manifest -> bytes.        (* hash of the whole manifest box *)
  Variable SH : manifest -> bytes.        (* hash of the signature box *)

  (* "we can skip if this is a redacted assertion": [reds] = svi.redactions *)
  Definition is_redacted (reds : list ruri) (c : manifest) (h : href) : bool :=
    existsb (fun r =>
      beq (match r_manifest r with Some m => m | None => [] end) (m_label c)
      && beq (r_label r) (h_label h) && (r_inst r =? h_inst h)) reds.

  Definition check_href (reds : list ruri) (c : manifest) (h : href) : list vcode :=
    if is_redacted reds c h then []
    else
      match find (same_key (h_label h) (h_inst h)) (m_store c) with
      | Some a => if beq (H (a_data a)) (h_hash h) then [] else [HashedUriMismatch]
      | None => [AssertionMissing]
      end.

  Definition rmf {A} (f : A -> bool) (l : list A) : list A :=
    match remove_first f l with Some s => s | None => l end.

  (* ca_tracking_list after the loop *)
  Fixpoint track (hs : list href) (st : list assertion) : list assertion :=
    match hs with
    | [] => st
    | h :: t => track t (rmf (same_key (h_label h) (h_inst h)) st)
    end.

  Definition verify_assertions (reds : list ruri) (c : manifest) : list vcode :=
    flat_map (check_href reds c) (m_assertions c)
    ++ map (fun _ => AssertionUndeclared) (track (m_assertions c) (m_store c)).

  Definition find_manifest (st : list manifest) (l : bytes) : option manifest :=
    find (fun x => beq (m_label x) l) st.

  Definition has_redactions (reds : list ruri) (l : bytes) : bool :=
    existsb (fun r => contains_str l (render r)) reds.

  (* ingredient_checks, v2+ claims with a claimSignature reference *)
  Definition check_ingredient (reds : list ruri) (st : list manifest) (i : iref) : list vcode :=
    match find_manifest st (i_target i) with
    | None => [IngredientManifestMissing]
    | Some x =>
        if has_redactions reds (i_target i) then
          if beq (i_shash i) (SH x) then [] else [ClaimSignatureMismatch]
        else
          if beq (i_mhash i) (MH x) then [] else [IngredientManifestMismatch]
    end.

  Definition verify_manifest (reds : list ruri) (st : list manifest) (c : manifest) : list vcode :=
    redaction_rule_failures c ++ verify_assertions reds c ++ flat_map (check_ingredient reds st) (m_ingredients c).

  (* get_claim_referenced_manifests: manifests reachable from [c] in visiting order ([seen] = manifest_map keys) *)
  Fixpoint reach (fuel : nat) (st : list manifest) (seen : list bytes) (c : manifest) : list bytes * list manifest :=
    match fuel with
    | O => (seen, [])
    | S f =>
        if existsb (beq (m_label c)) seen then (seen, [])
        else
          fold_left (fun acc i =>
                       match find_manifest st (i_target i) with
                       | Some x => let '(seen', ms) := reach f st (fst acc) x in (seen', snd acc ++ ms)
                       | None => acc
                       end)
                    (m_ingredients c) (m_label c :: seen, [c])
    end.

  Definition reachable (st : list manifest) (c : manifest) : list manifest :=
    snd (reach (S (List.length st)) st [] c).

  Definition collect_redactions (st : list manifest) (c : manifest) : list ruri :=
    flat_map m_redactions (reachable st c).

  (* verify_store: the active manifest and every reachable ingredient manifest, with the collected redactions *)
  Definition verify_store (st : list manifest) (c : manifest) : list vcode :=
    let reds := collect_redactions st c in
    flat_map (verify_manifest reds st) (reachable st c).

  (* ---- load_ingredient_to_claim: two copies of one manifest *)

  Definition asrt_eqb (x y : assertion) : bool :=
    beq (a_label x) (a_label y) && (a_inst x =? a_inst y) && beq (a_data x) (a_data y).

  Definition sym_diff (s1 s2 : list assertion) : list assertion :=
    filter (fun x => negb (existsb (asrt_eqb x) s2)) s1 ++ filter (fun x => negb (existsb (asrt_eqb x) s1)) s2.

  Definition diff_uri (c : manifest) (a : assertion) : ruri := RUri (Some (m_label c)) UAssertion (a_label a) (a_inst a).

  Fixpoint list_eqb {A} (e : A -> A -> bool) (x y : list A) : bool :=
    match x, y with
    | [], [] => true
    | u :: x', v :: y' => e u v && list_eqb e x' y'
    | _, _ => false
    end.
  Definition href_eqb (x y : href) : bool := beq (h_label x) (h_label y) && (h_inst x =? h_inst y) && beq (h_hash x) (h_hash y).
  Definition iref_eqb (x y : iref) : bool := beq (i_target x) (i_target y) && beq (i_mhash x) (i_mhash y) && beq (i_shash x) (i_shash y).
  (* c1.data() == c2.data() and equal signature values: the signed parts coincide *)
  Definition signed_eqb (c1 c2 : manifest) : bool :=
    beq (m_label c1) (m_label c2) && list_eqb href_eqb (m_assertions c1) (m_assertions c2)
    && list_eqb ruri_eqb (m_redactions c1) (m_redactions c2) && list_eqb iref_eqb (m_ingredients c1) (m_ingredients c2).

  (* manifest_differs_by_redaction: same claim and signature, every difference of the stores is a listed redaction *)
  Definition differs_by_redaction (c1 c2 : manifest) (reds : list ruri) : option (list ruri) :=
    if negb (signed_eqb c1 c2) then None
    else
      let d := sym_diff (m_store c1) (m_store c2) in
      if forallb (fun a => existsb (ruri_eqb (diff_uri c1 a)) reds) d then Some (map (diff_uri c1) d) else None.

  Inductive merge :=
  | KeepCurrent                   (* drop the incoming copy (to_remove_from_incoming) *)
  | TakeIncoming                  (* the incoming copy overwrites the current one *)
  | ApplyBoth (rs : list ruri)    (* incoming copy taken, the differences redacted in it as well (to_both) *)
  | Relabel.                      (* not a redaction difference: kept side by side under a new label *)

  Definition resolve_conflict (cur inc : manifest) (claim_reds incoming_reds : list ruri) : merge :=
    match differs_by_redaction cur inc (claim_reds ++ incoming_reds) with
    | Some d =>
        match claim_reds, incoming_reds with
        | _ :: _, [] => KeepCurrent
        | [], _ :: _ => TakeIncoming
        | _, _ => ApplyBoth d
        end
    | None => Relabel
    end.
End Hashes.
