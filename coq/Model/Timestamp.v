(* Model/Timestamp.v — the decision logic around RFC 3161 time-stamp tokens, branch by branch:

     sdk/src/crypto/time_stamp/verify.rs   verify_time_stamp (per-SignerInfo loop, last_err / current log), tst_accuracy_seconds
     sdk/src/crypto/cose/sigtst.rs         get_cose_tst_info, validate_cose_tst_info, parse_and_validate_sigtst (what is time-stamped)
     sdk/src/cose_validator.rs             verify_cose (override from a time-stamp assertion, else the header; errors dropped)
     sdk/src/crypto/cose/sign1.rs          signing_time_from_sign1 (passthrough policy, no trust) -> SignatureInfo.time
     sdk/src/crypto/cose/certificate_profile.rs   "Was the certificate valid at time of signing?" (time-stamp time or now),
                                                  the EKU gate as applied to a TSA certificate (has_allowed_eku / invalid set)
     sdk/src/store.rs                      time-stamp assertions verified against the raw signature bytes (svi.timestamps)

   ASN.1 / CMS / CBOR decoding, the hash functions, signature validation and certificate path building are *oracles*: the
   token is given as the record of what the decoders return, [H], [Verify], [countersign], [cbor_bstr], [trusted] and the
   non-EKU / non-validity part of the certificate profile are Section variables.  Times are seconds since the epoch (Z). *)
From Coq Require Import List NArith ZArith Bool.
From C2PA Require Import Base.Bytes Generated.C36_facts.
Import ListNotations.
Open Scope Z_scope.

Inductive ts_code := TsMalformed | TsMismatch | TsOutsideValidity | TsUntrusted | TsValidated | TsTrusted.
(* TimeStampError variants returned by verify_time_stamp; ENoToken / ECbor are the CoseError of the sigTst layer *)
Inductive ts_err := EDecode | EInvalidData | EUntrusted | EExpiredCertificate | EUnsupportedAlgorithm | ENoToken | ECbor.
(* codes that the certificate-profile check of the TSA certificate leaks into the same log *)
Inductive cred_code := CredInvalid | CredExpired.

Inductive log_item := LTs (c : ts_code) | LCred (c : cred_code).

Inductive hash_alg := Sha1 | Sha256 | Sha384 | Sha512.

Definition ts_code_eqb (a b : ts_code) : bool :=
  match a, b with
  | TsMalformed, TsMalformed | TsMismatch, TsMismatch | TsOutsideValidity, TsOutsideValidity
  | TsUntrusted, TsUntrusted | TsValidated, TsValidated | TsTrusted, TsTrusted => true
  | _, _ => false
  end.

Fixpoint bytes_eqb (a b : bytes) : bool :=
  match a, b with
  | [], [] => true
  | x :: a', y :: b' => N.eqb x y && bytes_eqb a' b'
  | _, _ => false
  end.

(* ---------------------------------------------------------------------------------------------------------------
   i64 helpers *)
Definition I64_MAX : Z := 9223372036854775807.
Definition I64_MIN : Z := -9223372036854775808.
Definition sat (z : Z) : Z := if z <? I64_MIN then I64_MIN else if I64_MAX <? z then I64_MAX else z.
Definition sat_add (a b : Z) : Z := sat (a + b).
Definition sat_sub (a b : Z) : Z := sat (a - b).
Definition sat_mul (a b : Z) : Z := sat (a * b).

(* tst_accuracy_seconds: (secs, millis, micros) are the integer_to_i64 readings; absent parts are 0; ceiling to seconds
   ([Z.quot]: Rust's `/` truncates) *)
Definition accuracy_seconds (acc : option (Z * Z * Z)) : Z :=
  match acc with
  | None => 0
  | Some (s, ms, us) =>
    let total := sat_add (sat_add (sat_mul s ACC_MICROS_PER_SEC) (sat_mul ms ACC_MICROS_PER_MILLI)) us in
    Z.quot (sat_add total ACC_CEIL_ADD) ACC_MICROS_PER_SEC
  end.

(* ---------------------------------------------------------------------------------------------------------------
   what the decoders hand to verify_time_stamp *)

(* the extended key usages of the TSA certificate as x509-parser reports them *)
Record eku := {
  eku_any : bool; eku_server_auth : bool; eku_client_auth : bool; eku_code_signing : bool;
  eku_email_protection : bool; eku_time_stamping : bool; eku_ocsp_signing : bool;
  eku_other_nonempty : bool;       (* eku.other is not empty *)
  eku_other_allowed : bool }.      (* some entry of eku.other is in ctp.additional_ekus (here: exactly the time-stamping OID) *)

Record tsa_cert := {
  tc_key : N;                      (* identifies the subjectPublicKeyInfo *)
  tc_not_before : Z; tc_not_after : Z;
  tc_v3 : bool;                    (* X.509 version 3 *)
  tc_is_ca : bool;
  tc_eku : option eku;             (* None: no EKU extension *)
  tc_x509_ok : bool }.             (* every embedded certificate parses with x509-parser (order_certificates_leaf_to_root) *)

Record tst_info := {
  ti_imprint_alg : option hash_alg;       (* DigestAlgorithm::try_from(message_imprint.hash_algorithm) *)
  ti_imprint : bytes;
  ti_gen_time : Z;
  ti_accuracy : option (Z * Z * Z) }.

Inductive digest_attr :=
| DaMissing                         (* no message-digest attribute *)
| DaNotOne                          (* values.len() != 1 *)
| DaUndecodable                     (* the value is not an OCTET STRING *)
| DaValue (d : bytes).

Record signed_attrs := {
  sa_signing_time : option Z;       (* a signing-time attribute with exactly one value that decodes and fits 1970..9999 *)
  sa_digest : digest_attr;
  sa_encoding : option bytes }.     (* rasn::der::encode(signed_attrs) *)

(* signer_info.digest_algorithm: bcder::Oid::from_str fails | not one of SHA-1/256/384/512 | known *)
Inductive digest_oid := DoUnparsable | DoUnsupported | DoAlg (h : hash_alg).

Record signer_info := {
  si_cert : option tsa_cert;        (* the embedded certificate selected by sid (issuer+serial or SKI); None: not embedded *)
  si_digest : digest_oid;
  si_attrs : option signed_attrs;
  si_key_ok : bool;                 (* the SPKI re-encodes and its algorithm OID parses *)
  si_signature : bytes }.

Record token := {
  tk_signed_data : bool;            (* signed_data_from_time_stamp_response = Ok(Some _) *)
  tk_certs : option bool;           (* None: SignedData.certificates absent; Some b: b = all entries are plain certificates *)
  tk_tst : option tst_info;         (* tst_info_from_signed_data = Ok(Some _) *)
  tk_content : option bytes;        (* encap_content_info.content *)
  tk_signers : list signer_info }.

Inductive result (A : Type) := Ok (a : A) | Err (e : ts_err).
Arguments Ok {A} a.
Arguments Err {A} e.

(* ---------------------------------------------------------------------------------------------------------------
   the EKU gate of check_certificate_profile as it applies to the TSA certificate.
   verify_time_stamp clears the configured EKUs and adds only id-kp-timeStamping, then calls the generic profile check;
   CertificateTrustPolicy::has_allowed_eku accepts emailProtection / timeStamping / OCSPSigning before it looks at the
   configured list (the three booleans are regenerated from the source). *)
Definition has_allowed_eku (e : eku) : bool :=
  (EKU_EMAIL_ALWAYS && eku_email_protection e) || (EKU_TIMESTAMP_ALWAYS && eku_time_stamping e)
  || (EKU_OCSP_ALWAYS && eku_ocsp_signing e) || eku_other_allowed e.

Definition eku_bad_set (e : eku) : bool :=
  (eku_ocsp_signing e && eku_time_stamping e)
  || (xorb (eku_ocsp_signing e) (eku_time_stamping e)
      && (eku_client_auth e || eku_code_signing e || eku_email_protection e || eku_server_auth e || eku_other_nonempty e)).

Definition eku_gate (c : tsa_cert) : bool :=
  match tc_eku c with
  | Some e => negb (eku_any e) && has_allowed_eku e && negb (eku_bad_set e)
  | None => tc_is_ca c
  end.

(* verify_time_stamp, before the generic profile check: the leaf must carry id-kp-timeStamping
   (`extended_key_usage().ok().flatten().map(|e| e.value.time_stamping).unwrap_or(false)`) *)
Definition has_ts_eku (c : tsa_cert) : bool :=
  match tc_eku c with Some e => eku_time_stamping e | None => false end.

(* the same test for OCSP responders (cose/ocsp.rs has_ocsp_signing_eku) *)
Definition has_ocsp_eku (c : tsa_cert) : bool :=
  match tc_eku c with Some e => eku_ocsp_signing e | None => false end.

Definition valid_at (nb na t : Z) : bool := (nb <=? t) && (t <=? na).

Section Oracles.
  Variable H : hash_alg -> bytes -> bytes.
  (* validate_timestamp_sig: validator chosen from the key algorithm and the digest algorithm, then validate *)
  Variable Verify : N -> digest_oid -> bytes -> bytes -> bool.         (* key, digest algorithm, signature, tbs *)
  (* everything check_end_entity_certificate_profile looks at except validity and EKU; None = passes, Some c = logged code *)
  Variable profile_rest : tsa_cert -> option cred_code.
  (* ctp.check_certificate_trust(ordered chain, leaf, Some(signing_time)) *)
  Variable trusted : tsa_cert -> Z -> bool.
  Variable countersign : bytes -> bytes -> bytes.                     (* cose_countersign_data(data, protected header) *)
  Variable cbor_bstr : bytes -> bytes.                                (* CBOR byte-string encoding *)

  (* check_end_entity_certificate_profile(tsa, ekus = {timeStamping}, log, Some(tst)):
     version / validity at the (possibly replaced) generation time first, EKU gate later, end-entity last *)
  Definition tsa_profile (c : tsa_cert) (t : Z) : option cred_code :=
    if negb (tc_v3 c) then Some CredInvalid
    else if negb (valid_at (tc_not_before c) (tc_not_after c) t) then Some CredExpired
    else match profile_rest c with
         | Some x => Some x
         | None => if negb (eku_gate c) then Some CredInvalid
                   else if tc_is_ca c then Some CredInvalid else None
         end.

  Inductive step :=
  | Fail (e : ts_err) (l : list log_item)
  | Abort (e : ts_err)                              (* `?`: returns without appending the current log *)
  | Done (t : tst_info) (l : list log_item).

  Definition content_or_empty (tk : token) : bytes := match tk_content tk with Some c => c | None => [] end.

  (* the TBS of the CMS signature: the DER of the signed attributes when present, else the encapsulated content *)
  Definition cms_tbs (tk : token) (s : signer_info) : option bytes :=
    match si_attrs s with
    | Some a => sa_encoding a
    | None => tk_content tk
    end.

  Definition effective_time (t : tst_info) (s : signer_info) : Z :=
    match si_attrs s with
    | Some a => match sa_signing_time a with Some st => st | None => ti_gen_time t end
    | None => ti_gen_time t
    end.

  Definition with_time (t : tst_info) (g : Z) : tst_info :=
    {| ti_imprint_alg := ti_imprint_alg t; ti_imprint := ti_imprint t; ti_gen_time := g; ti_accuracy := ti_accuracy t |}.

  (* message-digest attribute self-consistency; None = passes *)
  Definition check_digest_attr (tk : token) (s : signer_info) : option step :=
    match si_attrs s with
    | None => None
    | Some a =>
      match sa_digest a with
      | DaMissing => Some (Fail EDecode [LTs TsMalformed])
      | DaNotOne => Some (Fail EDecode [LTs TsMalformed])
      | DaUndecodable => Some (Fail EDecode [LTs TsMalformed])
      | DaValue d =>
        match si_digest s with
        | DoUnparsable => Some (Fail EDecode [LTs TsMalformed])
        | DoUnsupported => Some (Fail EDecode [LTs TsMalformed])
        | DoAlg h => if bytes_eqb d (H h (content_or_empty tk)) then None
                     else Some (Fail EInvalidData [LTs TsMismatch])
        end
      end
    end.

  Definition in_tsa_validity (c : tsa_cert) (t : tst_info) (st : Z) : bool :=
    let m := accuracy_seconds (ti_accuracy t) in
    (sat_sub (tc_not_before c) m <=? st) && (st <=? sat_add (tc_not_after c) m).

  Definition check_signer (tk : token) (data : bytes) (verify_trust : bool) (s : signer_info) : step :=
    match si_cert s with
    | None => Fail EUntrusted [LTs TsUntrusted]      (* "timestamp signer certificate not found" (fix 5b12435f8) *)
    | Some c =>
      match tk_tst tk with
      | None => Fail EInvalidData [LTs TsMalformed]
      | Some t0 =>
        let st := effective_time t0 s in
        let t := with_time t0 st in
        match check_digest_attr tk s with
        | Some f => f
        | None =>
          match cms_tbs tk s with
          | None => Fail EDecode [LTs TsMalformed]
          | Some tbs =>
            match si_digest s with
            | DoUnparsable => Fail EDecode [LTs TsMalformed]
            | _ =>
              if negb (si_key_ok s) then Fail EDecode [LTs TsMalformed]
              else if negb (Verify (tc_key c) (si_digest s) (si_signature s) tbs) then Fail EUntrusted [LTs TsUntrusted]
              else if negb (in_tsa_validity c t st) then Fail EExpiredCertificate [LTs TsOutsideValidity]
              else match ti_imprint_alg t with
                   | None => Fail EUnsupportedAlgorithm [LTs TsUntrusted]
                   | Some h =>
                     if negb (bytes_eqb (H h data) (ti_imprint t)) then Fail EInvalidData [LTs TsMismatch]
                     else if verify_trust then
                       if negb (tc_x509_ok c) then Abort EDecode
                       else if negb (has_ts_eku c) then Fail EUntrusted [LTs TsValidated; LTs TsUntrusted]   (* fix a6060c320 *)
                       else match tsa_profile c st with
                            | Some cc => Fail EUntrusted [LTs TsValidated; LCred cc; LTs TsUntrusted]
                            | None =>
                              if negb (trusted c st) then Fail EUntrusted [LTs TsValidated; LTs TsUntrusted]
                              else Done t [LTs TsValidated; LTs TsTrusted]
                            end
                     else Done t [LTs TsValidated; LTs TsTrusted]
                   end
            end
          end
        end
      end
    end.

  (* "Look for any valid signer": the log that survives is the one of the last SignerInfo visited
     (every visited SignerInfo now logs something: the bare `continue` for a missing certificate is gone) *)
  Fixpoint signer_loop (tk : token) (data : bytes) (vt : bool) (ss : list signer_info) (last : ts_err) (cur : list log_item)
    : result tst_info * list log_item :=
    match ss with
    | [] => (Err last, cur)
    | s :: r =>
      match check_signer tk data vt s with
      | Fail e l => signer_loop tk data vt r e l
      | Abort e => (Err e, [])
      | Done t l => (Ok t, l)
      end
    end.

  Definition verify_time_stamp (tk : token) (data : bytes) (vt : bool) : result tst_info * list log_item :=
    if negb (tk_signed_data tk) then (Err EDecode, [LTs TsMalformed])
    else match tk_certs tk with
         | None => (Err EDecode, [LTs TsUntrusted])
         | Some false => (Err EDecode, [LTs TsUntrusted])
         | Some true => signer_loop tk data vt (tk_signers tk) EInvalidData []
         end.

  (* ------------------------------------------------------------------------------------------------------------
     sigtst.rs *)
  Inductive storage := V1_sigTst | V2_sigTst2.

  (* the sigTst / sigTst2 entries of the unprotected header, in header order; the container is None when the CBOR is
     not a TstContainer *)
  Definition headers := list (storage * option (list token)).

  Definition tst_tbs (st : storage) (claim_data signature : bytes) : bytes :=
    match st with
    | V1_sigTst => claim_data
    | V2_sigTst2 => cbor_bstr signature
    end.

  Definition validate_cose_tst_info (hs : headers) (claim_data signature protected : bytes) (vt : bool)
    : result tst_info * list log_item :=
    match hs with
    | [] => (Err ENoToken, [])
    | (st, None) :: _ => (Err ECbor, [])
    | (st, Some toks) :: _ =>
      match toks with
      | [] => (Err ENoToken, [])
      | [tk] =>
        match verify_time_stamp tk (countersign (tst_tbs st claim_data signature) protected) vt with
        | (Ok t, l) => (Ok t, l)
        | (Err _, l) => (Err ENoToken, l)
        end
      | _ :: _ :: _ => (Err ENoToken, [LTs TsMalformed])     (* "only a single timestamp response is allowed" *)
      end
    end.

  (* store.rs: a time-stamp assertion of a later manifest, verified against the raw signature bytes *)
  Definition assertion_time (tk : token) (signature : bytes) (claim_v1 : bool) : option tst_info :=
    match verify_time_stamp tk signature (negb claim_v1) with
    | (Ok t, _) => Some t
    | (Err _, _) => None
    end.

  (* ------------------------------------------------------------------------------------------------------------
     verify_cose + check_certificate_profile (validity part) for the signing credential *)
  Record credential := {
    cr_not_before : Z; cr_not_after : Z;
    cr_profile_rest : bool;                  (* every other requirement of the certificate profile *)
    cr_trusted : option Z -> bool }.         (* check_certificate_trust(chain, ee, signing time) *)

  Record verdict := {
    v_time : option tst_info;                (* the TstInfo handed to verify_signature *)
    v_log : list log_item;                   (* what the time-stamp validation appended *)
    v_expired : bool;                        (* signingCredential.expired *)
    v_invalid : bool;                        (* signingCredential.invalid (checked after validity) *)
    v_untrusted : bool;                      (* signingCredential.untrusted *)
    v_accepted : bool }.

  Definition cred_valid (c : credential) (t : option tst_info) (now : Z) : bool :=
    match t with
    | Some ti => valid_at (cr_not_before c) (cr_not_after c) (ti_gen_time ti)
    | None => valid_at (cr_not_before c) (cr_not_after c) now
    end.

  Definition verify_cose (c : credential) (override : option tst_info) (hs : headers)
             (claim_data signature protected : bytes) (vt : bool) (now : Z) : verdict :=
    let '(t, l) := match override with
                   | Some t => (Some t, [])
                   | None => match validate_cose_tst_info hs claim_data signature protected vt with
                             | (Ok t, l) => (Some t, l)
                             | (Err _, l) => (None, l)
                             end
                   end in
    let valid := cred_valid c t now in
    let tr := cr_trusted c (option_map ti_gen_time t) in
    {| v_time := t; v_log := l; v_expired := negb valid; v_invalid := valid && negb (cr_profile_rest c); v_untrusted := negb tr;
       v_accepted := valid && cr_profile_rest c && tr |}.

  (* SignatureInfo.time: signing_time_from_sign1 (passthrough policy, verify_trust = false) *)
  Definition reported_time (hs : headers) (claim_data signature protected : bytes) : option Z :=
    match validate_cose_tst_info hs claim_data signature protected false with
    | (Ok t, _) => Some (ti_gen_time t)
    | (Err _, _) => None
    end.
End Oracles.

(* the order in which verify_time_stamp mentions its status constants (tie to the source: Generated/C36_facts.v) *)
Definition model_status_sequence : list ts_code :=
  [TsMalformed; TsUntrusted; TsUntrusted;                                     (* no SignedData; no certificates; odd certificate choice *)
   TsUntrusted;                                                               (* signer certificate not embedded *)
   TsMalformed;                                                               (* no TstInfo *)
   TsMalformed; TsMalformed; TsMalformed; TsMalformed; TsMalformed; TsMismatch; TsMalformed;   (* message-digest attribute *)
   TsMalformed; TsMalformed;                                                  (* TBS *)
   TsMalformed; TsMalformed; TsMalformed;                                     (* hash alg, key, key alg *)
   TsUntrusted; TsOutsideValidity; TsUntrusted; TsValidated; TsMismatch;
   TsUntrusted; TsUntrusted; TsUntrusted; TsTrusted].                         (* not a TSA certificate; profile; trust *)

(* ---------------------------------------------------------------------------------------------------------------
   concrete oracles for the correspondence run (vm_compute): "hash" = identity tagged with the algorithm,
   a signature verifies iff it is the list [key; tag] ++ tbs *)
Definition alg_tag (h : hash_alg) : N := match h with Sha1 => 1 | Sha256 => 2 | Sha384 => 3 | Sha512 => 4 end%N.
Definition toyH (h : hash_alg) (b : bytes) : bytes := alg_tag h :: b.
Definition toyVerify (k : N) (d : digest_oid) (sig tbs : bytes) : bool :=
  match d with
  | DoAlg _ => bytes_eqb sig (k :: tbs)
  | _ => false
  end.
Definition toy_countersign (d p : bytes) : bytes := (200 :: p)%N ++ d.
Definition toy_bstr (s : bytes) : bytes := (88 :: s)%N.
