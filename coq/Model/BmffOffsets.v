(* Model/BmffOffsets.v — abstract model of the BMFF absolute-offset fix-up used by
   bmff_io.rs::write_cai / remove_cai_store_from_stream: the C2PA uuid box occupying [p, p+del) is
   replaced by [ins] (del = 0: fresh insert after ftyp; ins = []: removal) and then
   adjust_known_offsets adds the size change to *every* entry of the known offset tables
   (stco, co64, iloc, saio, tfhd, tfra ...), wherever the entry points.  No proofs here.
   A table entry is an absolute file offset; the media byte it addresses is [nth e file]. *)
From Coq Require Import List ZArith.
Import ListNotations.

Definition splice {A} (file : list A) (p del : nat) (ins : list A) : list A :=
  firstn p file ++ ins ++ skipn (p + del) file.

(* offset_adjust = new box size - old box size (i64 in the source) *)
Definition adjust {A} (del : nat) (ins : list A) : Z := (Z.of_nat (length ins) - Z.of_nat del)%Z.

(* the new value of an entry: the same amount is added to all entries *)
Definition adjust_entry (adj : Z) (e : nat) : Z := (Z.of_nat e + adj)%Z.

Definition adjust_table (adj : Z) (t : list nat) : list Z := map (adjust_entry adj) t.
