(* Model/SyncAsync.v — C40: the async_generic macro (crate async-generic, desugar_if_async.rs) and the bodies it
   generates.

   The macro emits every annotated function twice from one body: once unchanged (sync flavour) and once with
   [async] added and [_async] appended to the name (async flavour); in each copy every expression
   [if _sync { A } else { B }] is replaced by [A] (sync) or [B] (async), and [if _async { A } else { B }] the other
   way round (rewrite_if_async).  Everything else in the body is shared text.  So a generated body is a sequence of
   shared chunks and of branch sites; that is the term language below.  Chunks are opaque *token lists* exactly as
   they stand in the source (the translator vlib/props/c40.py lexes them); the meaning of a chunk is a Section
   variable.

   Executable Gallina only; proofs are in Proofs/SyncAsyncProofs.v. *)
From Coq Require Import List String Ascii Bool Arith.
Import ListNotations.
Open Scope string_scope.

Definition token := string.

(* ------------------------------------------------------------------ sites as extracted by the translator *)
Record site := mkSite {
  s_file  : string;          (* path below sdk/src *)
  s_fn    : string;          (* the #[async_generic] function *)
  s_index : nat;             (* ordinal of the site inside the function (pre-order, nested ones included) *)
  s_sync  : list token;      (* the arm compiled into the sync flavour, nested sites resolved for that flavour *)
  s_async : list token       (* the arm compiled into the async flavour *)
}.

(* ------------------------------------------------------------------ await-erasure on token lists *)
Fixpoint toks_eqb (a b : list token) : bool :=
  match a, b with
  | [], [] => true
  | x :: a', y :: b' => String.eqb x y && toks_eqb a' b'
  | _, _ => false
  end.

Fixpoint rev_string (acc s : string) : string :=
  match s with EmptyString => acc | String c r => rev_string (String c acc) r end.

(* [foo_async] -> [foo]; a bare "_async" (the macro's own flag) is left alone *)
Definition strip_async (t : token) : token :=
  match rev_string "" t with
  | String "c" (String "n" (String "y" (String "s" (String "a" (String "_" (String c r)))))) =>
      rev_string "" (String c r)
  | _ => t
  end.

Definition is_open (t : token) : bool := String.eqb t "(" || String.eqb t "[" || String.eqb t "{".
Definition is_close (t : token) : bool := String.eqb t ")" || String.eqb t "]" || String.eqb t "}".

(* one ordinary token: brackets maintain the stack of "is this bracket a Box::pin( wrapper to be dropped" flags *)
Definition step1 (t : token) (stk : list bool) : option token * list bool :=
  if is_open t then (Some t, false :: stk)
  else if is_close t then
    match stk with
    | true :: s => (None, s)
    | _ :: s => (Some t, s)
    | [] => (Some t, [])
    end
  else (Some (strip_async t), stk).

Definition cons_opt (o : option token) (l : list token) : list token :=
  match o with Some t => t :: l | None => l end.

(* erases: [. await]; the suffix [_async] of identifiers; [Box :: pin ( X )] -> [X]; a comma directly before a
   closing bracket (rustfmt's trailing comma) *)
Fixpoint erase_go (stk : list bool) (ts : list token) {struct ts} : list token :=
  match ts with
  | [] => []
  | t :: r =>
    match r with
    | u :: r2 =>
      if String.eqb t "." && String.eqb u "await" then erase_go stk r2
      else if String.eqb t "," && is_close u then erase_go stk r
      else
        match r2 with
        | v :: w :: r4 =>
          if String.eqb t "Box" && String.eqb u "::" && String.eqb v "pin" && String.eqb w "("
          then erase_go (true :: stk) r4
          else let '(o, s') := step1 t stk in cons_opt o (erase_go s' r)
        | _ => let '(o, s') := step1 t stk in cons_opt o (erase_go s' r)
        end
    | [] => let '(o, s') := step1 t stk in cons_opt o (erase_go s' r)
    end
  end.

Definition erase (ts : list token) : list token := erase_go [] ts.

(* ------------------------------------------------------------------ allow-list of divergent sites
   An entry names one site by file, function and the *erased* tokens of both arms, and gives the rewrite rules
   (token subsequence -> token subsequence) that account for the whole difference, with the reason they do not
   change the outcome.  Any edit to such a branch changes its tokens, so the entry stops matching and the site
   falls back to the plain obligation "equal up to erasure". *)
Record allow_entry := mkAllow {
  a_file  : string;
  a_fn    : string;
  a_sync  : list token;
  a_async : list token;
  a_rules : list (list token * list token);
  a_why   : string
}.

Fixpoint strip_prefix (p ts : list token) : option (list token) :=
  match p, ts with
  | [], _ => Some ts
  | x :: p', y :: ts' => if String.eqb x y then strip_prefix p' ts' else None
  | _ :: _, [] => None
  end.

(* replace every occurrence of [from] (non-empty) by [to], left to right, without rescanning the replacement;
   [skip] counts the tokens of a matched occurrence still to be dropped *)
Fixpoint rewrite_go (from to : list token) (skip : nat) (ts : list token) {struct ts} : list token :=
  match ts with
  | [] => []
  | t :: r =>
    match skip with
    | S k => rewrite_go from to k r
    | O =>
      match from with
      | [] => t :: rewrite_go from to 0 r
      | _ :: from' =>
        match strip_prefix from ts with
        | Some _ => to ++ rewrite_go from to (List.length from') r
        | None => t :: rewrite_go from to 0 r
        end
      end
    end
  end.

Definition apply_rules (rules : list (list token * list token)) (ts : list token) : list token :=
  fold_left (fun acc r => rewrite_go (fst r) (snd r) 0 acc) rules ts.

Definition entry_matches (e : allow_entry) (p : site) : bool :=
  String.eqb (a_file e) (s_file p) && String.eqb (a_fn e) (s_fn p)
  && toks_eqb (a_sync e) (erase (s_sync p)) && toks_eqb (a_async e) (erase (s_async p)).

(* the entry's rules explain the *whole* difference between its two arms *)
Definition entry_justified (e : allow_entry) : bool :=
  toks_eqb (apply_rules (a_rules e) (a_sync e)) (apply_rules (a_rules e) (a_async e)).

Definition plain_equal (p : site) : bool := toks_eqb (erase (s_sync p)) (erase (s_async p)).

Definition pair_equal (allow : list allow_entry) (p : site) : bool :=
  plain_equal p || existsb (fun e => entry_matches e p) allow.

(* every entry is used by some site of today's source (no stale entries) *)
Definition entry_used (sites : list site) (e : allow_entry) : bool := existsb (entry_matches e) sites.

Fixpoint mem_string (x : string) (l : list string) : bool :=
  match l with [] => false | y :: r => String.eqb x y || mem_string x r end.
Definition subset_string (a b : list string) : bool := forallb (fun x => mem_string x b) a.
Definition same_set_string (a b : list string) : bool := subset_string a b && subset_string b a.

(* ------------------------------------------------------------------ generated bodies and their two readings *)
Inductive tm : Type :=
| Ret                                   (* fall off the end of the block *)
| Call (ts : list token) (k : tm)       (* a straight-line chunk of shared text, then k *)
| Branch (s a : tm) (k : tm).           (* if _sync { s } else { a } ; then k *)

(* what the macro leaves in each flavour: the list of chunks, in order *)
Fixpoint flat (sync : bool) (t : tm) : list (list token) :=
  match t with
  | Ret => []
  | Call ts k => ts :: flat sync k
  | Branch s a k => (if sync then flat sync s else flat sync a) ++ flat sync k
  end.

(* "in every Branch the two arms are equal up to await-erasure" *)
Fixpoint lists_eqb (a b : list (list token)) : bool :=
  match a, b with
  | [], [] => true
  | x :: a', y :: b' => toks_eqb x y && lists_eqb a' b'
  | _, _ => false
  end.

Fixpoint branches_ok (t : tm) : bool :=
  match t with
  | Ret => true
  | Call _ k => branches_ok k
  | Branch s a k =>
      lists_eqb (map erase (flat true s)) (map erase (flat false a))
      && branches_ok s && branches_ok a && branches_ok k
  end.

Definition has_await (ts : list token) : bool := existsb (fun t => String.eqb t "await") ts.

Section Interp.
  Variable St : Type.          (* everything the body can see and change: locals, streams, the store, the log *)
  Variable R : Type.           (* value of an early [return] / [?] *)
  Inductive outcome := Cont (st : St) | Return (r : R).

  Variable sem_s : list token -> St -> outcome.    (* meaning of a chunk compiled in the sync flavour *)
  Variable sem_a : list token -> St -> outcome.    (* meaning of the same kind of chunk compiled in the async flavour,
                                                      once all the futures it awaits have completed *)

  Fixpoint run_chunks (sem : list token -> St -> outcome) (cs : list (list token)) (st : St) : outcome :=
    match cs with
    | [] => Cont st
    | c :: r => match sem c st with Cont st' => run_chunks sem r st' | Return x => Return x end
    end.

  Definition run_sync (t : tm) (st : St) : outcome := run_chunks sem_s (flat true t) st.

  (* the async flavour is a state machine polled by an executor.  One poll runs chunks until one that awaits
     has completed, then yields to the scheduler (Pending) with the rest of the body as the new task state. *)
  Inductive polled := Ready (o : outcome) | Pending (rest : list (list token)) (st : St).

  Fixpoint poll (cs : list (list token)) (st : St) : polled :=
    match cs with
    | [] => Ready (Cont st)
    | c :: r =>
      match sem_a c st with
      | Return x => Ready (Return x)
      | Cont st' => if has_await c then Pending r st' else poll r st'
      end
    end.

  (* the trivial cooperative scheduler: one task, re-polled as soon as it is woken; [fuel] bounds the polls *)
  Fixpoint block_on (fuel : nat) (cs : list (list token)) (st : St) : option outcome :=
    match fuel with
    | O => None
    | S f => match poll cs st with
             | Ready o => Some o
             | Pending r st' => block_on f r st'
             end
    end.

  Definition run_async (fuel : nat) (t : tm) (st : St) : option outcome := block_on fuel (flat false t) st.

  Definition awaits (cs : list (list token)) : nat := List.length (filter has_await cs).
End Interp.

Arguments Cont {St R} _.
Arguments Return {St R} _.
Arguments Ready {St R} _.
Arguments Pending {St R} _ _.

(* a site as a term: one chunk per arm *)
Definition site_tm (p : site) : tm := Branch (Call (s_sync p) Ret) (Call (s_async p) Ret) Ret.

(* ------------------------------------------------------------------ the allow-list (hand-maintained; see a_why) *)
Definition allow : list allow_entry := [
  mkAllow "builder.rs" "sign"
    ["self"; "."; "maybe_add_timestamp"; "("; "&"; "tsa_url"; ","; "&"; "mut"; "claim"; ")"; "?"; ";"]
    ["self"; "."; "maybe_add_timestamp"; "("; "&"; "tsa_url"; ","; "&"; "mut"; "claim"; ")"; "?"]
    [([")"; "?"; ";"], [")"; "?"])]
    "maybe_add_timestamp returns Result<()>: the arm is the unit value with or without the trailing semicolon";
  mkAllow "builder.rs" "save_to_stream"
    ["let"; "signer"; "="; "ctx"; "."; "signer"; "("; ")"; "?"; ";"; "self"; "."; "sign"; "("; "signer"; ","; "format"; ","; "source"; ","; "dest"; ")"]
    ["let"; "signer"; "="; "ctx"; "."; "async_signer"; "("; ")"; "?"; ";"; "self"; "."; "sign"; "("; "signer"; ","; "format"; ","; "source"; ","; "dest"; ")"]
    [(["async_signer"], ["signer"])]
    "each flavour takes the signer of its own kind from the Context; their equivalence is the premise of the property (equivalent sync/async signers) and is what the differential run supplies";
  mkAllow "cose_sign.rs" "cose_sign"
    ["let"; "wrapper"; "="; "SignerWrapper"; "("; "signer"; ")"; ";"; "Ok"; "("; "sign"; "("; "&"; "wrapper"; ","; "data"; ","; "Some"; "("; "box_size"; ")"; ","; "time_stamp_storage"; ")"; "?"; ")"]
    ["let"; "wrapper"; "="; "AsyncSignerWrapper"; "("; "signer"; ")"; ";"; "Ok"; "("; "sign"; "("; "&"; "wrapper"; ","; "data"; ","; "Some"; "("; "box_size"; ")"; ","; "time_stamp_storage"; ")"; "?"; ")"]
    [(["AsyncSignerWrapper"], ["SignerWrapper"])]
    "the two adapters forward sign/alg/certs/ocsp/time-stamp methods one to one to the wrapped Signer / AsyncSigner";
  mkAllow "store.rs" "sign_claim"
    ["if"; "signer"; "."; "direct_cose_handling"; "("; ")"; "{"; "return"; "signer"; "."; "sign"; "("; "&"; "claim_bytes"; ")"; ";"; "}"; "else"; "{"; "cose_sign"; "("; "signer"; ","; "&"; "claim_bytes"; ","; "box_size"; ","; "tss"; ","; "&"; "adjusted_settings"; ")"; "}"]
    ["if"; "signer"; "."; "direct_cose_handling"; "("; ")"; "{"; "return"; "signer"; "."; "sign"; "("; "claim_bytes"; "."; "clone"; "("; ")"; ")"; ";"; "}"; "else"; "{"; "cose_sign"; "("; "signer"; ","; "&"; "claim_bytes"; ","; "box_size"; ","; "tss"; ","; "settings"; ")"; "}"]
    [(["&"; "adjusted_settings"], ["settings"]); (["claim_bytes"; "."; "clone"; "("; ")"], ["&"; "claim_bytes"])]
    "AsyncSigner::sign takes the bytes by value; adjusted_settings differs from settings only in verify.verify_timestamp_trust, which cose_sign never reads (generated fact cose_sign_settings_reads, theorem c40_adjusted_settings_benign)";
  mkAllow "crypto/cose/sign.rs" "sign_v1"
    ["signer"; "."; "sign"; "("; "&"; "tbs"; ")"; "?"]
    ["signer"; "."; "sign"; "("; "tbs"; ")"; "?"]
    [(["&"; "tbs"], ["tbs"])]
    "AsyncCoseSigner::sign takes the to-be-signed bytes by value, CoseSigner::sign by reference: same bytes";
  mkAllow "crypto/cose/sign.rs" "sign_v2_embedded"
    ["signer"; "."; "sign"; "("; "&"; "tbs"; ")"; "?"]
    ["signer"; "."; "sign"; "("; "tbs"; ")"; "?"]
    [(["&"; "tbs"], ["tbs"])]
    "AsyncCoseSigner::sign takes the to-be-signed bytes by value, CoseSigner::sign by reference: same bytes"
].

(* hand-written (not macro-generated) sync/async callee pairs reached from branch sites: identifiers [x_async]
   whose [x] is not an #[async_generic] function, and methods awaited under the same name in both flavours
   (trait pairs Signer/AsyncSigner, CoseSigner/AsyncCoseSigner, RawSignatureValidator/AsyncRawSignatureValidator,
   TimeStampProvider/AsyncTimeStampProvider, SyncHttpResolver/AsyncHttpResolver, SignatureVerifier).
   Their equivalence is an assumption of the theorem (user-supplied components) and is what the differential run
   exercises with equivalent signers; a new name here is a broken tie. *)
Definition modelled_handwritten : list string := [
  "check_signature_async"; "content"; "http_resolve_async"; "ocsp_response"; "resolve_async"; "resolver_async"; "send_time_stamp_request"; "sign"; "validate"
].

(* hand-written [fn .._async] items of non-test SDK code that the macro does not generate *)
Definition modelled_handwritten_fns : list string := [
  "check_signature_async"; "from_manifest_and_asset_bytes_async"; "from_manifest_and_asset_stream_async"; "from_memory_async"; "http_resolve_async"; "resolve_async"; "resolver_async"; "set_resolver_async"; "with_resolver_async"
].

(* the macro this model transcribes *)
Definition modelled_macro_version : string := "1.1.2".
Definition modelled_macro_checksum : string := "ddf3728566eefa873833159754f5732fb0951d3649e6e5b891cc70d56dd41673".
