(* Model/TrustPolicy.v — sdk/src/crypto/cose/certificate_trust_policy.rs (check_certificate_trust),
   certificate_trust/openssl.rs (the OpenSSL back end used by the default feature set), verifier.rs
   (verify_profile / verify_trust / the log left by verify_signature), cose_validator.rs (which Verifier a
   setting selects) and store.rs (Store::from_context: how the policy is built from the trust settings).

   Path building is external: [chains_to anchors ee chain time] stands for OpenSSL's X509_verify_cert with
   X509_STRICT | PARTIAL_CHAIN, the store holding [anchors], the untrusted stack holding [chain], at [time]
   (None = NO_CHECK_TIME).  [x509_ok] is OpenSSL's X509::from_der, [fingerprint] is base64(SHA-256(DER)),
   [features] is x509-parser's view of the end-entity certificate (Model/CertProfile.v). *)
From Coq Require Import List NArith ZArith Bool.
From C2PA Require Import Generated.C06_facts Model.CertProfile.
Import ListNotations.

Section Trust.
  Variable cert : Type.
  Variable fingerprint : cert -> N.
  Variable x509_ok : cert -> bool.
  Variable chains_to : list cert -> cert -> list cert -> option Z -> bool.
  Variable features : cert -> CertProfile.cert.

  Record policy := {
    system_anchors : list cert;      (* trust_anchor_ders *)
    user_anchors : list cert;        (* user_trust_anchor_ders *)
    allowed : list N;                (* end_entity_cert_set *)
    additional_ekus : list oid;
    passthrough : bool;
    anchors_only : bool }.

  Inductive anchor_type := System | User | EndEntity | NoCheck.
  Inductive trust_error := NotTrusted | CryptoLibraryError.

  (* certificate_trust/openssl.rs *)
  Definition openssl_check (p : policy) (chain : list cert) (ee : cert) (t : option Z) : anchor_type + trust_error :=
    if is_empty (system_anchors p) && is_empty (user_anchors p) then inr NotTrusted else
    if negb (forallb x509_ok chain) then inr CryptoLibraryError else
    if negb (x509_ok ee) then inr CryptoLibraryError else
    if negb (forallb x509_ok (system_anchors p)) then inr CryptoLibraryError else
    if chains_to (system_anchors p) ee chain t then inl System
    else if negb (anchors_only p) then
      if negb (forallb x509_ok (user_anchors p)) then inr CryptoLibraryError else
      if chains_to (user_anchors p) ee chain t then inl User else inr NotTrusted
    else inr NotTrusted.

  (* CertificateTrustPolicy::check_certificate_trust *)
  Definition check_certificate_trust (p : policy) (chain : list cert) (ee : cert) (t : option Z) : anchor_type + trust_error :=
    if passthrough p then inl NoCheck else
    if existsb (N.eqb (fingerprint ee)) (allowed p) then inl EndEntity else
    openssl_check p chain ee t.

  Inductive verifier := VerifyTrustPolicy (p : policy) | VerifyCertificateProfileOnly (p : policy) | IgnoreProfileAndTrustPolicy.

  Inductive verdict := Trusted | Untrusted.     (* signingCredential.trusted (success) / signingCredential.untrusted (failure) *)

  (* Verifier::verify_trust: the log items it adds; [certs] is cert_chain_from_sign1 (end-entity first) *)
  Definition verify_trust (v : verifier) (certs : list cert) (tst : option Z) : list verdict :=
    match v with
    | VerifyTrustPolicy p =>
      match certs with
      | [] => []                                            (* cert_chain_from_sign1 fails: Err, nothing logged here *)
      | ee :: chain =>
        match check_certificate_trust p chain ee tst with
        | inl _ => [Trusted]
        | inr _ => [Untrusted]
        end
      end
    | VerifyCertificateProfileOnly _ => []
    | IgnoreProfileAndTrustPolicy => []
    end.

  (* Verifier::verify_profile: the codes it adds *)
  Definition verify_profile (v : verifier) (certs : list cert) (tst : option Z) (now : Z) : list code :=
    match v with
    | IgnoreProfileAndTrustPolicy => []
    | VerifyTrustPolicy p | VerifyCertificateProfileOnly p =>
      match certs with
      | [] => []
      | ee :: _ => profile_log (check_end_entity_certificate_profile (features ee) (additional_ekus p) tst now)
      end
    end.

  (* verify_signature runs verify_profile then verify_trust and ignores both results *)
  Definition credential_log (v : verifier) (certs : list cert) (tst : option Z) (now : Z) : list code * list verdict :=
    (verify_profile v certs tst now, verify_trust v certs tst).

  (* cose_validator::verify_cose *)
  Definition select_verifier (cert_check verify_trust_setting : bool) (p : policy) : verifier :=
    if cert_check then
      if verify_trust_setting then VerifyTrustPolicy p else VerifyCertificateProfileOnly p
    else IgnoreProfileAndTrustPolicy.

  (* Store::new() + Store::from_context(): CertificateTrustPolicy::default() extended by the four trust settings *)
  Record trust_settings := {
    s_trust_anchors : list cert; s_user_anchors : list cert; s_allowed : list N; s_trust_config : list oid }.

  Definition policy_of_settings (s : trust_settings) : policy :=
    {| system_anchors := s_trust_anchors s; user_anchors := s_user_anchors s; allowed := s_allowed s;
       additional_ekus := DEFAULT_EKUS ++ s_trust_config s; passthrough := false; anchors_only := false |}.
End Trust.


(* --- the part of ValidationResults::validation_state this property needs (restated locally) ------------------ *)

Inductive vcode :=
| VSigningCredentialInvalid | VSigningCredentialExpired | VSigningCredentialUntrusted | VSigningCredentialTrusted
| VClaimSignatureValidated | VClaimSignatureInsideValidity
| VCawgX509 (n : N)          (* any code starting with the CAWG X.509 prefix *)
| VOther (n : N).

Definition is_tolerated (k : vcode) : bool :=
  match k with VSigningCredentialUntrusted | VCawgX509 _ => true | _ => false end.

Definition vcode_eqb (a b : vcode) : bool :=
  match a, b with
  | VSigningCredentialInvalid, VSigningCredentialInvalid | VSigningCredentialExpired, VSigningCredentialExpired
  | VSigningCredentialUntrusted, VSigningCredentialUntrusted | VSigningCredentialTrusted, VSigningCredentialTrusted
  | VClaimSignatureValidated, VClaimSignatureValidated | VClaimSignatureInsideValidity, VClaimSignatureInsideValidity => true
  | VCawgX509 x, VCawgX509 y | VOther x, VOther y => N.eqb x y
  | _, _ => false
  end.

Inductive vstate := StInvalid | StValid | StTrusted.

(* success / failure codes of the active manifest, failure codes of each ingredient delta *)
Definition validation_state (success failure : list vcode) (ingredients : list (list vcode)) : vstate :=
  let is_valid :=
      existsb (vcode_eqb VClaimSignatureValidated) success
      && existsb (vcode_eqb VClaimSignatureInsideValidity) success
      && forallb is_tolerated failure
      && forallb (forallb is_tolerated) ingredients in
  let is_trusted :=
      existsb (vcode_eqb VSigningCredentialTrusted) success
      && is_empty failure && forallb is_empty ingredients && is_valid in
  if is_trusted then StTrusted else if is_valid then StValid else StInvalid.

Definition vcode_of (k : code) : vcode :=
  match k with CInvalid => VSigningCredentialInvalid | CExpired => VSigningCredentialExpired end.
