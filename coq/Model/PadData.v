(* Model/PadData.v — executable transcription of
   sdk/src/assertions/data_hash.rs :: DataHash::pad_to_size.  No proofs here.

   A DataHash is abstracted to what pad_to_size observes, the size of its CBOR serialisation
   (`self.to_assertion()?.data().len()`, a definite-length map written by c2pa_cbor):
     dbase  everything except the value of `pad` and the whole `pad2` entry: map head (at most 6
            entries, one byte), exclusions / name / alg / hash entries, and the key "pad"
     dpad   length of `pad` (serde_bytes byte string)
     dpad2  length of `pad2` when it is Some (the entry is skipped when None). *)
From Coq Require Import List NArith Bool.
From C2PA Require Import Base.Bytes Base.Cbor Generated.C14_facts.
Import ListNotations.
Open Scope N_scope.

Record datahash := DH { dbase : N; dpad : N; dpad2 : option N }.

Definition pad2_entry_size (q : N) : N := tstr_size (len DH_PAD2_KEY) + bstr_size q.

Definition dh_size (d : datahash) : N :=
  dbase d + bstr_size (dpad d) + match dpad2 d with Some q => pad2_entry_size q | None => 0 end.

Definition set_pad (d : datahash) (p : N) : datahash := DH (dbase d) p (dpad2 d).

Inductive dlres := DLDone (d : datahash) | DLOver (last_pad : N) | DLFuel.

(* the `loop { .. }`: one zero byte is pushed per iteration and the assertion re-serialised *)
Fixpoint dh_loop (fuel : nat) (d : datahash) (desired last_pad : N) : dlres :=
  match fuel with
  | O => DLFuel
  | S f =>
      let cur := dh_size d in
      if cur =? desired then DLDone d
      else if cur <? desired then dh_loop f (set_pad d (dpad d + 1)) desired (last_pad + 1)
      else DLOver last_pad
  end.

Inductive dres := DOk (d : datahash) | DErr (* Error::JumbfCreationError *) | DOutOfFuel.

(* fuel: recursion depth (the recursive call has pad2 = Some, which cannot recurse again) *)
Fixpoint pad_to_size (fuel : nat) (d : datahash) (desired : N) : dres :=
  match fuel with
  | O => DOutOfFuel
  | S f =>
      let cur := dh_size d in
      if desired <? cur then DErr
      else
        (* each push grows the serialisation by at least one byte *)
        match dh_loop (N.to_nat (desired - cur) + 1) d desired 0 with
        | DLDone d' => DOk d'
        | DLOver lp =>
            match dpad2 d with
            | Some _ => DErr
            | None => pad_to_size f (DH (dbase d) 0 (Some (lp / DH_PAD2_DIV))) desired
            end
        | DLFuel => DOutOfFuel
        end
  end.

Definition pad_to_size_top (d : datahash) (desired : N) : dres := pad_to_size 2 d desired.
